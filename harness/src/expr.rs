//! JSON -> SimpleExpr / Condition through the public expression API (the API
//! encodings — between, like/escape, cast_as, is_in — are the real ones).
use crate::stmt;
use crate::val::to_value;
use sea_query::extension::postgres::PgBinOper;
use sea_query::extension::sqlite::SqliteBinOper;
use sea_query::*;
use serde_json::Value as J;

pub fn a(n: &str) -> Alias {
    Alias::new(n)
}

pub fn st(j: &J, k: &str) -> String {
    j[k].as_str().unwrap_or_else(|| panic!("field {k} missing in {j}")).to_string()
}

pub fn col_ref(j: &J) -> ColumnRef {
    match j {
        J::String(s) if s == "*" => ColumnRef::Asterisk,
        J::String(s) => ColumnRef::Column(a(s).into_iden()),
        J::Array(v) if v.len() == 2 => {
            let t = v[0].as_str().unwrap();
            let c = v[1].as_str().unwrap();
            if c == "*" {
                ColumnRef::TableAsterisk(a(t).into_iden())
            } else {
                ColumnRef::TableColumn(a(t).into_iden(), a(c).into_iden())
            }
        }
        J::Array(v) if v.len() == 3 => ColumnRef::SchemaTableColumn(
            a(v[0].as_str().unwrap()).into_iden(),
            a(v[1].as_str().unwrap()).into_iden(),
            a(v[2].as_str().unwrap()).into_iden(),
        ),
        _ => panic!("bad column ref {j}"),
    }
}

/// {"n": name | "*", "q": [qualifiers]?}  (also accepts the older "n": [t, c] form)
pub fn col_of(j: &J) -> ColumnRef {
    let field = if j.get("n").is_some() { "n" } else { "c" };
    if let Some(q) = j.get("q").and_then(|x| x.as_array()) {
        if !q.is_empty() {
            let mut v: Vec<J> = q.clone();
            v.push(j[field].clone());
            return col_ref(&J::Array(v));
        }
    }
    col_ref(&j[field])
}

pub fn bin_oper(name: &str) -> BinOper {
    match name {
        "And" => BinOper::And,
        "Or" => BinOper::Or,
        "Like" => BinOper::Like,
        "NotLike" => BinOper::NotLike,
        "Is" => BinOper::Is,
        "IsNot" => BinOper::IsNot,
        "In" => BinOper::In,
        "NotIn" => BinOper::NotIn,
        "Between" => BinOper::Between,
        "NotBetween" => BinOper::NotBetween,
        "Equal" => BinOper::Equal,
        "NotEqual" => BinOper::NotEqual,
        "SmallerThan" => BinOper::SmallerThan,
        "GreaterThan" => BinOper::GreaterThan,
        "SmallerThanOrEqual" => BinOper::SmallerThanOrEqual,
        "GreaterThanOrEqual" => BinOper::GreaterThanOrEqual,
        "Add" => BinOper::Add,
        "Sub" => BinOper::Sub,
        "Mul" => BinOper::Mul,
        "Div" => BinOper::Div,
        "Mod" => BinOper::Mod,
        "BitAnd" => BinOper::BitAnd,
        "BitOr" => BinOper::BitOr,
        "LShift" => BinOper::LShift,
        "RShift" => BinOper::RShift,
        "As" => BinOper::As,
        "Escape" => BinOper::Escape,
        "PgILike" => PgBinOper::ILike.into(),
        "PgNotILike" => PgBinOper::NotILike.into(),
        "PgMatches" => PgBinOper::Matches.into(),
        "PgContains" => PgBinOper::Contains.into(),
        "PgContained" => PgBinOper::Contained.into(),
        "PgConcatenate" => PgBinOper::Concatenate.into(),
        "PgOverlap" => PgBinOper::Overlap.into(),
        "PgSimilarity" => PgBinOper::Similarity.into(),
        "PgWordSimilarity" => PgBinOper::WordSimilarity.into(),
        "PgStrictWordSimilarity" => PgBinOper::StrictWordSimilarity.into(),
        "PgSimilarityDistance" => PgBinOper::SimilarityDistance.into(),
        "PgWordSimilarityDistance" => PgBinOper::WordSimilarityDistance.into(),
        "PgStrictWordSimilarityDistance" => PgBinOper::StrictWordSimilarityDistance.into(),
        "PgGetJsonField" => PgBinOper::GetJsonField.into(),
        "PgCastJsonField" => PgBinOper::CastJsonField.into(),
        "PgRegex" => PgBinOper::Regex.into(),
        "PgRegexCaseInsensitive" => PgBinOper::RegexCaseInsensitive.into(),
        "SqliteGlob" => SqliteBinOper::Glob.into(),
        "SqliteMatch" => SqliteBinOper::Match.into(),
        "SqliteGetJsonField" => SqliteBinOper::GetJsonField.into(),
        "SqliteCastJsonField" => SqliteBinOper::CastJsonField.into(),
        other => {
            if let Some(raw) = other.strip_prefix("Custom:") {
                BinOper::Custom(Box::leak(raw.to_string().into_boxed_str()))
            } else {
                panic!("unknown BinOper {other}")
            }
        }
    }
}

pub fn exprs(j: &J) -> Vec<SimpleExpr> {
    j.as_array().map(|v| v.iter().map(expr).collect()).unwrap_or_default()
}

pub fn func(name: &str, mut args: Vec<SimpleExpr>) -> FunctionCall {
    let one = |args: &mut Vec<SimpleExpr>| {
        assert!(args.len() == 1, "case error: one-argument function given {} arguments", args.len());
        args.remove(0)
    };
    match name {
        "Max" => Func::max(one(&mut args)),
        "Min" => Func::min(one(&mut args)),
        "Sum" => Func::sum(one(&mut args)),
        "Avg" => Func::avg(one(&mut args)),
        "Abs" => Func::abs(one(&mut args)),
        "Count" => Func::count(one(&mut args)),
        "CountDistinct" => Func::count_distinct(one(&mut args)),
        "CharLength" => Func::char_length(one(&mut args)),
        "Lower" => Func::lower(one(&mut args)),
        "Upper" => Func::upper(one(&mut args)),
        "BitAnd" => Func::bit_and(one(&mut args)),
        "BitOr" => Func::bit_or(one(&mut args)),
        "Round" if args.len() == 2 => { let y = args.remove(1); Func::round_with_precision(args.remove(0), y) }
        "Round" => Func::round(one(&mut args)),
        "Md5" => Func::md5(one(&mut args)),
        "Random" => Func::random(),
        "Greatest" => Func::greatest(args),
        "Least" => Func::least(args),
        "Coalesce" => Func::coalesce(args),
        "IfNull" => {
            let x = args.remove(0);
            let y = args.remove(0);
            Func::if_null(x, y)
        }
        // PostgreSQL text search helpers: case args are in SQL order [regconfig (u32 value)?, text]
        "PgToTsquery" | "PgToTsvector" | "PgPhrasetoTsquery" | "PgPlaintoTsquery" | "PgWebsearchToTsquery" => {
            use sea_query::extension::postgres::PgFunc;
            let (cfg, text) = if args.len() == 2 {
                let c = match &args[0] { SimpleExpr::Value(Value::Unsigned(Some(x))) => *x, other => panic!("case error: regconfig must be an Unsigned value, got {other:?}") };
                (Some(c), args.remove(1))
            } else { (None, one(&mut args)) };
            match name {
                "PgToTsquery" => PgFunc::to_tsquery(text, cfg),
                "PgToTsvector" => PgFunc::to_tsvector(text, cfg),
                "PgPhrasetoTsquery" => PgFunc::phraseto_tsquery(text, cfg),
                "PgPlaintoTsquery" => PgFunc::plainto_tsquery(text, cfg),
                _ => PgFunc::websearch_to_tsquery(text, cfg),
            }
        }
        "PgTsRankCd" => { use sea_query::extension::postgres::PgFunc; let y = args.remove(1); PgFunc::ts_rank_cd(args.remove(0), y) }
        "PgArrayAgg" => { use sea_query::extension::postgres::PgFunc; PgFunc::array_agg(one(&mut args)) }
        "PgJsonAgg" => { use sea_query::extension::postgres::PgFunc; PgFunc::json_agg(one(&mut args)) }
        "PgGenRandomUuid" => { use sea_query::extension::postgres::PgFunc; PgFunc::gen_random_uuid() }
        "PgTsRank" => { use sea_query::extension::postgres::PgFunc; let y = args.remove(1); PgFunc::ts_rank(args.remove(0), y) }
        "PgStartsWith" => { use sea_query::extension::postgres::PgFunc; let y = args.remove(1); PgFunc::starts_with(args.remove(0), y) }
        other => {
            if let Some(raw) = other.strip_prefix("Cust:") {
                Func::cust(a(raw)).args(args)
            } else {
                panic!("unknown function {other}")
            }
        }
    }
}

fn bin_method(m: &str, l: SimpleExpr, rj: &J) -> SimpleExpr {
    use sea_query::extension::postgres::PgExpr;
    use sea_query::extension::sqlite::SqliteExpr;
    if m == "equals" || m == "not_equals" {
        assert!(rj["k"] == "col", "case error: {m} needs a column on the right");
        let c = col_of(rj);
        return if m == "equals" { ExprTrait::equals(l, c) } else { ExprTrait::not_equals(l, c) };
    }
    if m == "in_tuples" {
        // right side: a tuple of value rows
        assert!(rj["k"] == "tuple", "case error: in_tuples needs a tuple of value rows");
        let rows: Vec<ValueTuple> = rj["es"].as_array().unwrap().iter().map(|row| {
            assert!(row["k"] == "vals", "case error: in_tuples rows are value rows");
            crate::stmt::value_tuple(row["vs"].as_array().unwrap().iter().map(to_value).collect())
        }).collect();
        return ExprTrait::in_tuples(l, rows);
    }
    let r = expr(rj);
    match m {
        "add" => ExprTrait::add(l, r),
        "sub" => ExprTrait::sub(l, r),
        "mul" => ExprTrait::mul(l, r),
        "div" => ExprTrait::div(l, r),
        "modulo" => ExprTrait::modulo(l, r),
        "left_shift" => ExprTrait::left_shift(l, r),
        "right_shift" => ExprTrait::right_shift(l, r),
        "bit_and" => ExprTrait::bit_and(l, r),
        "bit_or" => ExprTrait::bit_or(l, r),
        "and" => ExprTrait::and(l, r),
        "or" => ExprTrait::or(l, r),
        "eq" => ExprTrait::eq(l, r),
        "ne" => ExprTrait::ne(l, r),
        "gt" => ExprTrait::gt(l, r),
        "gte" => ExprTrait::gte(l, r),
        "lt" => ExprTrait::lt(l, r),
        "lte" => ExprTrait::lte(l, r),
        "is" => ExprTrait::is(l, r),
        "is_not" => ExprTrait::is_not(l, r),
        "pg_concatenate" => PgExpr::concatenate(l, r),
        "pg_concat" => PgExpr::concat(l, r),
        "pg_matches" => PgExpr::matches(l, r),
        "pg_contains" => PgExpr::contains(l, r),
        "pg_contained" => PgExpr::contained(l, r),
        "pg_get_json_field" => PgExpr::get_json_field(l, r),
        "pg_cast_json_field" => PgExpr::cast_json_field(l, r),
        "sqlite_glob" => SqliteExpr::glob(l, r),
        "sqlite_matches" => SqliteExpr::matches(l, r),
        "sqlite_get_json_field" => SqliteExpr::get_json_field(l, r),
        "sqlite_cast_json_field" => SqliteExpr::cast_json_field(l, r),
        other => panic!("case error: unknown builder method {other}"),
    }
}

/// "x": true — the node is built through the `Expr` struct's methods (Expr::expr(operand).method(..))
/// instead of the ExprTrait methods on SimpleExpr; None when the form has no such method.
fn expr_via_struct(j: &J) -> Option<SimpleExpr> {
    let k = j["k"].as_str().unwrap();
    let neg = j["neg"].as_bool().unwrap_or(false);
    let e = |f: &str| Expr::expr(expr(&j[f]));
    Some(match k {
        "bin" => {
            let l = Expr::expr(expr(&j["l"]));
            let m = j.get("m").and_then(|m| m.as_str())?;
            if m == "equals" || m == "not_equals" {
                let c = col_of(&j["r"]);
                return Some(if m == "equals" { l.equals(c) } else { l.not_equals(c) });
            }
            if m == "in_tuples" {
                let rows: Vec<ValueTuple> = j["r"]["es"].as_array().unwrap().iter()
                    .map(|row| crate::stmt::value_tuple(row["vs"].as_array().unwrap().iter().map(to_value).collect())).collect();
                return Some(l.in_tuples(rows));
            }
            let r = expr(&j["r"]);
            match m {
                "eq" => l.eq(r), "ne" => l.ne(r), "gt" => l.gt(r), "gte" => l.gte(r), "lt" => l.lt(r), "lte" => l.lte(r),
                "add" => l.add(r), "sub" => l.sub(r), "mul" => l.mul(r), "div" => l.div(r), "modulo" => l.modulo(r),
                "left_shift" => l.left_shift(r), "right_shift" => l.right_shift(r), "is" => l.is(r), "is_not" => l.is_not(r),
                _ => return None,
            }
        }
        "not" => e("e").not(),
        "between" => if neg { e("e").not_between(expr(&j["a"]), expr(&j["b"])) } else { e("e").between(expr(&j["a"]), expr(&j["b"])) },
        "like" => {
            if j["ci"].as_bool().unwrap_or(false) { return None; }
            let mut l = LikeExpr::new(st(j, "p"));
            if let Some(c) = j.get("esc").and_then(|x| x.as_str()) { l = l.escape(c.chars().next().unwrap()); }
            if neg { e("e").not_like(l) } else { e("e").like(l) }
        }
        "in" => if neg { e("e").is_not_in(exprs(&j["vs"])) } else { e("e").is_in(exprs(&j["vs"])) },
        "insub" => { let q = stmt::select(&j["q"]); if neg { e("e").not_in_subquery(q) } else { e("e").in_subquery(q) } }
        "isnull" => if neg { e("e").is_not_null() } else { e("e").is_null() },
        "cast" => e("e").cast_as(a(&st(j, "ty"))),
        "asenum" => e("e").as_enum(a(&st(j, "ty"))),
        "fn" => {
            let args = j["args"].as_array().unwrap();
            let first = || Expr::expr(expr(&args[0]));
            match (j["f"].as_str().unwrap(), args.len()) {
                ("Max", 1) => first().max(), ("Min", 1) => first().min(), ("Sum", 1) => first().sum(),
                ("Count", 1) => first().count(), ("CountDistinct", 1) => first().count_distinct(),
                ("IfNull", 2) => first().if_null(expr(&args[1])),
                _ => return None,
            }
        }
        // constructors of the Expr struct for leaves
        "kw" => match st(j, "w").as_str() {
            "CurrentDate" => Expr::current_date().into(), "CurrentTime" => Expr::current_time().into(), "CurrentTimestamp" => Expr::current_timestamp().into(),
            "Null" => return None,
            other => Expr::custom_keyword(a(other)).into(),
        },
        "cust" => Expr::cust(st(j, "s")),
        "tuple" => Expr::tuple(exprs(&j["es"])).into(),
        "col" => match col_of(j) {
            ColumnRef::Asterisk => Expr::asterisk().into(),
            ColumnRef::TableAsterisk(t) => Expr::table_asterisk(t).into(),
            c => Expr::col(c).into(),
        },
        "val" => Expr::val(to_value(&j["v"])).into(),
        _ => return None,
    })
}

pub fn expr(j: &J) -> SimpleExpr {
    if j.get("x").and_then(|x| x.as_bool()).unwrap_or(false) {
        match expr_via_struct(j) {
            Some(e) => return e,
            None => panic!("case error: no Expr-struct method for {j}"),
        }
    }
    let k = j["k"].as_str().unwrap_or_else(|| panic!("expr.k missing in {j}"));
    match k {
        "col" => SimpleExpr::Column(col_of(j)),
        "val" => SimpleExpr::Value(to_value(&j["v"])),
        "const" => SimpleExpr::Constant(to_value(&j["v"])),
        "vals" => SimpleExpr::Values(j["vs"].as_array().unwrap().iter().map(to_value).collect()),
        "bin" => match j.get("m").and_then(|m| m.as_str()) {
            // the named builder method the case asks for (spec/expr_methods.json says which operator it denotes)
            Some(m) => bin_method(m, expr(&j["l"]), &j["r"]),
            None => expr(&j["l"]).binary(bin_oper(&st(j, "op")), expr(&j["r"])),
        },
        "not" => expr(&j["e"]).not(),
        "between" => {
            let (e, x, y) = (expr(&j["e"]), expr(&j["a"]), expr(&j["b"]));
            if j["neg"].as_bool().unwrap_or(false) { e.not_between(x, y) } else { e.between(x, y) }
        }
        "like" => {
            let mut l = LikeExpr::new(st(j, "p"));
            if let Some(c) = j.get("esc").and_then(|x| x.as_str()) {
                l = l.escape(c.chars().next().unwrap());
            }
            let e = expr(&j["e"]);
            let neg = j["neg"].as_bool().unwrap_or(false);
            if j["ci"].as_bool().unwrap_or(false) {
                use sea_query::extension::postgres::PgExpr;
                if neg { e.not_ilike(l) } else { e.ilike(l) }
            } else if neg { e.not_like(l) } else { e.like(l) }
        }
        "in" => {
            let e = expr(&j["e"]);
            let vs = exprs(&j["vs"]);
            if j["neg"].as_bool().unwrap_or(false) { e.is_not_in(vs) } else { e.is_in(vs) }
        }
        "insub" => {
            let e = expr(&j["e"]);
            let q = stmt::select(&j["q"]);
            if j["neg"].as_bool().unwrap_or(false) { e.not_in_subquery(q) } else { e.in_subquery(q) }
        }
        "isnull" => {
            let e = expr(&j["e"]);
            if j["neg"].as_bool().unwrap_or(false) { e.is_not_null() } else { e.is_null() }
        }
        "cast" => expr(&j["e"]).cast_as(a(&st(j, "ty"))),
        "asenum" => expr(&j["e"]).as_enum(a(&st(j, "ty"))),
        "fn" => SimpleExpr::FunctionCall(func(&st(j, "f"), exprs(&j["args"]))),
        "tuple" => SimpleExpr::Tuple(exprs(&j["es"])),
        "case" => {
            let mut c = CaseStatement::new();
            for w in j["whens"].as_array().unwrap() {
                c = c.case(cond(&w["c"]), expr(&w["r"]));
            }
            if let Some(e) = j.get("else") {
                if !e.is_null() {
                    c = c.finally(expr(e));
                }
            }
            SimpleExpr::Case(Box::new(c))
        }
        "subq" => {
            let q = stmt::select(&j["q"]);
            match j.get("op").and_then(|x| x.as_str()) {
                Some("Exists") => Expr::exists(q),
                Some("Any") => Expr::any(q),
                Some("Some") => Expr::some(q),
                Some("All") => Expr::all(q),
                _ => SimpleExpr::SubQuery(None, Box::new(q.into_sub_query_statement())),
            }
        }
        "cust" => SimpleExpr::Custom(st(j, "s")),
        "custv" => Expr::cust_with_exprs(st(j, "s"), exprs(&j["vs"])),
        "kw" => SimpleExpr::Keyword(match st(j, "w").as_str() {
            "Null" => Keyword::Null,
            "CurrentDate" => Keyword::CurrentDate,
            "CurrentTime" => Keyword::CurrentTime,
            "CurrentTimestamp" => Keyword::CurrentTimestamp,
            other => Keyword::Custom(a(other).into_iden()),
        }),
        other => panic!("unknown expr kind {other}"),
    }
}

/// {"k":"cond","t":"any"|"all","neg":bool,"ms":[member|null]} ; a member that is
/// not a cond is an expression (atom).  null members model add_option(None).
pub fn condition(j: &J) -> Condition {
    let mut c = match j["t"].as_str().unwrap() {
        "any" => Condition::any(),
        _ => Condition::all(),
    };
    for m in j["ms"].as_array().unwrap() {
        if m.is_null() || m["k"] == "null" {
            c = c.add_option(None::<SimpleExpr>);
        } else if m["k"] == "cond" {
            c = c.add(condition(m));
        } else {
            c = c.add(expr(m));
        }
    }
    if let Some(nn) = j.get("nn").and_then(|x| x.as_u64()) {
        // "nn": not() is called that many times
        for _ in 0..nn { c = c.not(); }
    } else if j["neg"].as_bool().unwrap_or(false) {
        c = c.not();
    }
    c
}

/// what cond_where accepts: a Condition or a SimpleExpr (IntoCondition)
pub fn cond(j: &J) -> Condition {
    if j["k"] == "cond" {
        condition(j)
    } else {
        expr(j).into_condition()
    }
}
