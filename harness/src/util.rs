use serde_json::{json, Value as J};
use std::cell::RefCell;

thread_local! {
    static LAST_PANIC_LOC: RefCell<String> = RefCell::new(String::new());
}

pub fn silence_panics() {
    std::panic::set_hook(Box::new(|info| {
        let loc = info
            .location()
            .map(|l| format!("{}:{}", l.file(), l.line()))
            .unwrap_or_default();
        LAST_PANIC_LOC.with(|c| *c.borrow_mut() = loc);
    }));
}

pub fn panic_msg(e: &Box<dyn std::any::Any + Send>) -> String {
    if let Some(s) = e.downcast_ref::<&str>() {
        s.to_string()
    } else if let Some(s) = e.downcast_ref::<String>() {
        s.clone()
    } else {
        "?".to_string()
    }
}

/// Run f; result {"r": value}; a panic is data: {"panic": msg, "at": file:line}
pub fn guarded<F: FnOnce() -> J>(f: F) -> J {
    match std::panic::catch_unwind(std::panic::AssertUnwindSafe(f)) {
        Ok(v) => json!({"r": v}),
        Err(e) => {
            let at = LAST_PANIC_LOC.with(|c| c.borrow().clone());
            let at = at.rsplit("/repo/").next().unwrap_or("").to_string();
            json!({"panic": panic_msg(&e), "at": at})
        }
    }
}

/// per-UTF-16-unit flag string: '1' where the char is alphabetic or an ASCII digit
pub fn alnum_flags(s: &str) -> String {
    let mut o = String::new();
    for c in s.chars() {
        let f = if c.is_alphabetic() || c.is_ascii_digit() { '1' } else { '0' };
        o.push(f);
        if c.len_utf16() == 2 {
            // second UTF-16 unit of the same char: same class; 'x' marks "continuation of a non-alphanumeric char"
            o.push(if f == '1' { '1' } else { 'x' });
        }
    }
    o
}

pub fn s(j: &J, k: &str) -> String {
    j[k].as_str().unwrap_or_else(|| panic!("case field {k} missing: {j}")).to_string()
}

/// Evaluate `$body` once per backend with the type alias `$b` bound to the
/// backend's builder type; result {"mysql":..,"pg":..,"sqlite":..}; panics are data.
#[macro_export]
macro_rules! per_backend {
    ($b:ident => $body:expr) => {{
        let mut o = serde_json::Map::new();
        {
            #[allow(dead_code)]
            type $b = sea_query::MysqlQueryBuilder;
            o.insert("mysql".to_string(), $crate::util::guarded(|| $body));
        }
        {
            #[allow(dead_code)]
            type $b = sea_query::PostgresQueryBuilder;
            o.insert("pg".to_string(), $crate::util::guarded(|| $body));
        }
        {
            #[allow(dead_code)]
            type $b = sea_query::SqliteQueryBuilder;
            o.insert("sqlite".to_string(), $crate::util::guarded(|| $body));
        }
        serde_json::Value::Object(o)
    }};
}

pub trait BName {
    const NAME: &'static str;
}
impl BName for sea_query::MysqlQueryBuilder {
    const NAME: &'static str = "mysql";
}
impl BName for sea_query::PostgresQueryBuilder {
    const NAME: &'static str = "pg";
}
impl BName for sea_query::SqliteQueryBuilder {
    const NAME: &'static str = "sqlite";
}
