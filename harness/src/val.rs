//! JSON <-> sea_query::Value.  {"t":"Int","v":"42"} ; {"t":"String","null":true} ; bytes as hex.
use sea_query::Value;
use serde_json::{json, Value as J};

pub fn unhex(h: &str) -> Vec<u8> {
    (0..h.len() / 2).map(|i| u8::from_str_radix(&h[2 * i..2 * i + 2], 16).unwrap()).collect()
}
pub fn hex(b: &[u8]) -> String {
    b.iter().map(|x| format!("{x:02X}")).collect()
}

pub fn to_value(j: &J) -> Value {
    let t = j["t"].as_str().expect("value.t");
    let null = j.get("null").and_then(|x| x.as_bool()).unwrap_or(false);
    let vs = || j["v"].as_str().map(|s| s.to_string()).unwrap_or_else(|| j["v"].to_string());
    macro_rules! num {
        ($var:ident, $ty:ty) => {
            if null { Value::$var(None) } else { Value::$var(Some(vs().parse::<$ty>().expect("num"))) }
        };
    }
    match t {
        "Bool" => if null { Value::Bool(None) } else { Value::Bool(Some(j["v"].as_bool().unwrap_or_else(|| vs() == "true"))) },
        "TinyInt" => num!(TinyInt, i8),
        "SmallInt" => num!(SmallInt, i16),
        "Int" => num!(Int, i32),
        "BigInt" => num!(BigInt, i64),
        "TinyUnsigned" => num!(TinyUnsigned, u8),
        "SmallUnsigned" => num!(SmallUnsigned, u16),
        "Unsigned" => num!(Unsigned, u32),
        "BigUnsigned" => num!(BigUnsigned, u64),
        "Float" => if null { Value::Float(None) } else {
            Value::Float(Some(match j.get("bits") { Some(b) => f32::from_bits(b.as_u64().unwrap() as u32), None => vs().parse().unwrap() })) },
        "Double" => if null { Value::Double(None) } else {
            Value::Double(Some(match j.get("bits") { Some(b) => f64::from_bits(b.as_str().unwrap().parse::<u64>().unwrap()), None => vs().parse().unwrap() })) },
        "String" => if null { Value::String(None) } else { Value::String(Some(Box::new(vs()))) },
        "Char" => if null { Value::Char(None) } else { Value::Char(Some(vs().chars().next().expect("char"))) },
        "Bytes" => if null { Value::Bytes(None) } else { Value::Bytes(Some(Box::new(unhex(&vs())))) },
        #[cfg(feature = "full")]
        "Json" => if null { Value::Json(None) } else { Value::Json(Some(Box::new(j["v"].clone()))) },
        _ => panic!("unknown value type {t}"),
    }
}

/// Typed dump of a bound value (what `build` returned), for the trace.
pub fn from_value(v: &Value) -> J {
    macro_rules! n {
        ($name:expr, $x:expr) => {
            match $x { Some(x) => json!({"t": $name, "v": x.to_string()}), None => json!({"t": $name, "null": true}) }
        };
    }
    match v {
        Value::Bool(x) => match x { Some(b) => json!({"t":"Bool","v": b}), None => json!({"t":"Bool","null":true}) },
        Value::TinyInt(x) => n!("TinyInt", x),
        Value::SmallInt(x) => n!("SmallInt", x),
        Value::Int(x) => n!("Int", x),
        Value::BigInt(x) => n!("BigInt", x),
        Value::TinyUnsigned(x) => n!("TinyUnsigned", x),
        Value::SmallUnsigned(x) => n!("SmallUnsigned", x),
        Value::Unsigned(x) => n!("Unsigned", x),
        Value::BigUnsigned(x) => n!("BigUnsigned", x),
        Value::Float(x) => match x { Some(f) => json!({"t":"Float","v": f.to_string()}), None => json!({"t":"Float","null":true}) },
        Value::Double(x) => match x { Some(f) => json!({"t":"Double","v": f.to_string()}), None => json!({"t":"Double","null":true}) },
        Value::String(x) => match x { Some(s) => json!({"t":"String","v": s.as_str()}), None => json!({"t":"String","null":true}) },
        Value::Char(x) => match x { Some(c) => json!({"t":"Char","v": c.to_string()}), None => json!({"t":"Char","null":true}) },
        Value::Bytes(x) => match x { Some(b) => json!({"t":"Bytes","v": hex(b)}), None => json!({"t":"Bytes","null":true}) },
        #[allow(unreachable_patterns)]
        other => json!({"t":"Other","v": format!("{other:?}")}),
    }
}
