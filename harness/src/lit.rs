//! C03: literals. Records value_to_string and the statement text for every
//! position where a value is inlined, for the case string and for the
//! reference string "REFSTR" (so the validator can see that nothing but the
//! literal token changes).
use crate::util::*;
use crate::val::*;
use crate::per_backend;
use sea_query::extension::postgres::Type;
use sea_query::*;
use serde_json::{json, Value as J};

const REF: &str = "REFSTR";

fn positions_for(text: &str) -> J {
    let t = text.to_string();
    let mut o = serde_json::Map::new();
    macro_rules! pos {
        ($name:expr, $b:ident => $body:expr) => {
            o.insert($name.to_string(), per_backend!($b => json!($body)));
        };
    }
    pos!("select_val", B => Query::select().expr(Expr::val(t.clone())).to_string(B::default()));
    pos!("select_const", B => Query::select().expr(SimpleExpr::Constant(t.clone().into())).to_string(B::default()));
    pos!("where_eq", B => Query::select().column(Alias::new("a")).from(Alias::new("t"))
        .and_where(Expr::col(Alias::new("a")).eq(t.clone())).and_where(Expr::col(Alias::new("b")).eq(7)).to_string(B::default()));
    pos!("in_list", B => Query::select().column(Alias::new("a")).from(Alias::new("t"))
        .and_where(Expr::col(Alias::new("a")).is_in(["k1".to_string(), t.clone(), "k2".to_string()])).to_string(B::default()));
    pos!("order_field", B => Query::select().column(Alias::new("a")).from(Alias::new("t"))
        .order_by(Alias::new("a"), Order::Field(Values(vec!["k1".into(), t.clone().into()]))).limit(3).to_string(B::default()));
    pos!("like_pattern", B => Query::select().column(Alias::new("a")).from(Alias::new("t"))
        .and_where(Expr::col(Alias::new("a")).like(LikeExpr::new(t.clone()).escape('|'))).to_string(B::default()));
    pos!("insert_value", B => Query::insert().into_table(Alias::new("t")).columns([Alias::new("a"), Alias::new("b")])
        .values_panic([t.clone().into(), 5.into()]).to_string(B::default()));
    pos!("update_set", B => Query::update().table(Alias::new("t")).value(Alias::new("a"), t.clone())
        .and_where(Expr::col(Alias::new("b")).eq(1)).to_string(B::default()));
    pos!("case_then", B => Query::select().expr(CaseStatement::new()
        .case(Expr::col(Alias::new("a")).eq(1), t.clone()).finally("z")).to_string(B::default()));
    pos!("cust_with_values", B => Query::select().expr(Expr::cust_with_values(
        if B::NAME == "pg" { "f($1, 3)" } else { "f(?, 3)" }, [t.clone()])).to_string(B::default()));
    pos!("column_default", B => Table::create().table(Alias::new("t"))
        .col(ColumnDef::new(Alias::new("a")).string().default(t.clone()).not_null())
        .col(ColumnDef::new(Alias::new("b")).integer()).to_string(B::default()));
    pos!("column_comment", B => Table::create().table(Alias::new("t"))
        .col(ColumnDef::new(Alias::new("a")).string().comment(t.clone()).not_null())
        .col(ColumnDef::new(Alias::new("b")).integer()).to_string(B::default()));
    pos!("table_comment", B => Table::create().table(Alias::new("t"))
        .col(ColumnDef::new(Alias::new("a")).string()).comment(t.clone()).to_string(B::default()));
    pos!("enum_label", B => Table::create().table(Alias::new("t"))
        .col(ColumnDef::new(Alias::new("a")).enumeration(Alias::new("ty"), [Alias::new("k1"), Alias::new(&t)]).not_null())
        .to_string(B::default()));
    pos!("alter_add_default", B => Table::alter().table(Alias::new("t"))
        .add_column(ColumnDef::new(Alias::new("a")).string().default(t.clone())).to_string(B::default()));
    // PostgreSQL type statements (labels go through prepare_value on a String writer)
    let mut pgo = serde_json::Map::new();
    pgo.insert("pg".into(), guarded(|| json!(Type::create().as_enum(Alias::new("ty"))
        .values([Alias::new("k1"), Alias::new(&t)]).to_string(PostgresQueryBuilder))));
    o.insert("pg_type_create_label".into(), J::Object(pgo));
    let mut pgo = serde_json::Map::new();
    pgo.insert("pg".into(), guarded(|| json!(Type::alter().name(Alias::new("ty")).add_value(Alias::new(&t))
        .before(Alias::new("k1")).to_string(PostgresQueryBuilder))));
    o.insert("pg_type_add_value".into(), J::Object(pgo));
    let mut pgo = serde_json::Map::new();
    pgo.insert("pg".into(), guarded(|| json!(Type::alter().name(Alias::new("ty"))
        .rename_value(Alias::new("k1"), Alias::new(&t)).to_string(PostgresQueryBuilder))));
    o.insert("pg_type_rename_value".into(), J::Object(pgo));
    // PostgreSQL array literal: every element is written as the backend's own literal
    #[cfg(feature = "full")]
    {
        let mut pgo = serde_json::Map::new();
        let t2 = t.clone();
        pgo.insert("pg".into(), guarded(move || json!(Query::select().expr(Expr::val(vec![t2.clone(), "k".to_string()])).to_string(PostgresQueryBuilder))));
        o.insert("pg_array_element".into(), J::Object(pgo));
    }
    J::Object(o)
}

pub fn lit(c: &J) -> J {
    let kind = c["kind"].as_str().unwrap_or("str");
    match kind {
        "str" => {
            let text = s(c, "s");
            let t = text.clone();
            let v2s = per_backend!(B => json!(B::default().value_to_string(&Value::String(Some(Box::new(t.clone()))))));
            let mut r = json!({"id": c["id"], "kind": "str", "s": text, "v2s": v2s});
            let mut it = text.chars();
            if let (Some(ch), None) = (it.next(), it.next()) {
                r["chr"] = per_backend!(B => json!(B::default().value_to_string(&Value::Char(Some(ch)))));
                r["chr_sel"] = per_backend!(B => json!(Query::select().expr(Expr::val(ch)).to_string(B::default())));
            }
            #[cfg(feature = "full")]
            {
                r["json"] = per_backend!(B => json!(B::default().value_to_string(&Value::Json(Some(Box::new(J::String(t.clone())))))));
                r["json_text"] = json!(J::String(t.clone()).to_string());
            }
            if c.get("pos").and_then(|x| x.as_bool()).unwrap_or(false) {
                r["pos"] = positions_for(&text);
            }
            r
        }
        "ref" => json!({"id": c["id"], "kind": "ref", "pos": positions_for(REF)}),
        "bytes" => {
            let h = s(c, "hex");
            let b = unhex(&h);
            let b2 = b.clone();
            let v2s = per_backend!(B => json!(B::default().value_to_string(&Value::Bytes(Some(Box::new(b.clone()))))));
            let sel = per_backend!(B => json!(Query::select().expr(Expr::val(b2.clone())).to_string(B::default())));
            json!({"id": c["id"], "kind": "bytes", "hex": h, "v2s": v2s, "sel": sel})
        }
        _ => panic!("lit kind"),
    }
}
