//! sqv — "dumb" executor + recorder.  Reads cases (ndjson), calls the public
//! sea-query API 1:1, writes raw observations (ndjson).  Interprets nothing.
use serde_json::{json, Value as J};
use std::io::{BufRead, BufReader, BufWriter, Write};

mod util;
mod simple;
mod val;
mod lit;
mod ident;
mod expr;
mod stmt;
mod render;
mod exprfam;
mod schemafam;
#[cfg(feature = "full")]
mod valfam;

pub type Handler = fn(&J) -> J;

fn main() {
    let args: Vec<String> = std::env::args().collect();
    if args.len() < 4 {
        eprintln!("usage: sqv <family> <in.ndjson> <out.ndjson>");
        std::process::exit(2);
    }
    util::silence_panics();
    let family = args[1].as_str();
    let h: Handler = match family {
        "tok" => simple::tok,
        "esc" => simple::esc,
        "lit" => lit::lit,
        "ident" => ident::ident,
        "expr" => exprfam::exprcase,
        "cond" => exprfam::condcase,
        "insert" => exprfam::inscase,
        "tpl" => exprfam::tplcase,
        "stmt" => exprfam::stmtcase,
        "hist" => exprfam::histcase,
        "schema" => schemafam::schemacase,
        #[cfg(feature = "full")]
        "value" => valfam::valcase,
        #[cfg(feature = "full")]
        "valeq" => valfam::eqcase,
        _ => {
            eprintln!("unknown family {family}");
            std::process::exit(2);
        }
    };
    let inp = BufReader::new(std::fs::File::open(&args[2]).expect("open input"));
    let mut out = BufWriter::new(std::fs::File::create(&args[3]).expect("create output"));
    // worker thread + watchdog: a case that does not return within the limit is
    // recorded as {"hang":true} (non-termination is data) and the run stops.
    let (tx_case, rx_case) = std::sync::mpsc::channel::<J>();
    let (tx_res, rx_res) = std::sync::mpsc::channel::<J>();
    std::thread::Builder::new()
        .stack_size(256 << 20)
        .spawn(move || {
            while let Ok(c) = rx_case.recv() {
                let r = match std::panic::catch_unwind(std::panic::AssertUnwindSafe(|| h(&c))) {
                    Ok(r) => r,
                    Err(e) => json!({"id": c["id"], "case": c, "harness_panic": util::panic_msg(&e)}),
                };
                if tx_res.send(r).is_err() {
                    break;
                }
            }
        })
        .unwrap();
    let limit = std::time::Duration::from_secs(20);
    for line in inp.lines() {
        let line = line.expect("read");
        if line.trim().is_empty() {
            continue;
        }
        let c: J = serde_json::from_str(&line).expect("case json");
        let id = c["id"].clone();
        tx_case.send(c.clone()).unwrap();
        match rx_res.recv_timeout(limit) {
            Ok(r) => {
                serde_json::to_writer(&mut out, &r).unwrap();
                out.write_all(b"\n").unwrap();
            }
            Err(_) => {
                serde_json::to_writer(&mut out, &json!({"id": id, "case": c, "hang": true})).unwrap();
                out.write_all(b"\n").unwrap();
                out.flush().unwrap();
                std::process::exit(0);
            }
        }
    }
    out.flush().unwrap();
}
