//! C12 (value round trips) and C18 (Eq / Hash coherence) families. Built with feature "full".
#![cfg(feature = "full")]
use sea_query::*;
use serde_json::{json, Value as J};
use std::fmt::Debug;

fn variant_of(v: &Value) -> String {
    let d = format!("{v:?}");
    let head = d.split('(').next().unwrap_or("").to_string();
    if head == "Array" {
        // Array(Int, Some([...])) -> "Array:Int"
        let inner = &d["Array(".len()..];
        return format!("Array:{}", inner.split(',').next().unwrap_or(""));
    }
    head
}

fn is_null(v: &Value) -> bool {
    format!("{v:?}").ends_with("(None)") || format!("{v:?}").ends_with(", None)")
}

/// payload pool of a source type, as (label, Value built through From<T>, debug of the payload)
macro_rules! pool {
    ($t:ty, [$($x:expr),* $(,)?]) => {{
        let xs: Vec<$t> = vec![$($x),*];
        xs.into_iter().map(|x| { let d = format!("{:?}", x); (Value::from(x), d) }).collect::<Vec<(Value, String)>>()
    }};
}

fn pools(ty: &str) -> Vec<(Value, String)> {
    use std::str::FromStr;
    match ty {
        "bool" => pool!(bool, [true, false]),
        "i8" => pool!(i8, [0, 1, -1, i8::MIN, i8::MAX]),
        "i16" => pool!(i16, [0, -1, i16::MIN, i16::MAX, 255, 256]),
        "i32" => pool!(i32, [0, -1, i32::MIN, i32::MAX, 65536]),
        "i64" => pool!(i64, [0, -1, i64::MIN, i64::MAX, 1 << 40]),
        "u8" => pool!(u8, [0, 1, 127, 128, u8::MAX]),
        "u16" => pool!(u16, [0, 255, 256, u16::MAX]),
        "u32" => pool!(u32, [0, 65535, 65536, u32::MAX]),
        "u64" => pool!(u64, [0, u64::MAX, 1 << 63, (1 << 63) - 1]),
        "f32" => pool!(f32, [0.0, -0.0, 1.5, f32::MAX, f32::MIN_POSITIVE, f32::INFINITY, f32::NEG_INFINITY]),
        "f64" => pool!(f64, [0.0, -0.0, 1.5, f64::MAX, f64::MIN_POSITIVE, f64::INFINITY, 1e-300]),
        "char" => pool!(char, ['a', '\0', '\'', 'é', 'Ł', '€', '😀', '\u{10FFFF}']),
        "String" => pool!(String, ["".to_string(), "a".to_string(), "it's".to_string(), "é€😀".to_string(), "x".repeat(5000), "\0".to_string()]),
        "Vec<u8>" => pool!(Vec<u8>, [vec![], vec![0], vec![255, 0, 65], (0..=255u8).collect::<Vec<u8>>()]),
        "Json" => pool!(serde_json::Value, [json!(null), json!({"a": 1, "b": [true, "x"]}), json!("s"), json!(1.5)]),
        "NaiveDate" => pool!(chrono::NaiveDate, [chrono::NaiveDate::from_ymd_opt(2020, 2, 29).unwrap(), chrono::NaiveDate::from_ymd_opt(1, 1, 1).unwrap()]),
        "NaiveTime" => pool!(chrono::NaiveTime, [chrono::NaiveTime::from_hms_opt(23, 59, 59).unwrap(), chrono::NaiveTime::from_hms_micro_opt(1, 2, 3, 456).unwrap()]),
        "NaiveDateTime" => pool!(chrono::NaiveDateTime, [chrono::NaiveDate::from_ymd_opt(2020, 2, 29).unwrap().and_hms_opt(1, 2, 3).unwrap()]),
        "DateTime<Utc>" => pool!(chrono::DateTime<chrono::Utc>, [chrono::DateTime::<chrono::Utc>::from_timestamp(1_600_000_000, 5).unwrap()]),
        "DateTime<Local>" => pool!(chrono::DateTime<chrono::Local>, [chrono::DateTime::<chrono::Local>::from(chrono::DateTime::<chrono::Utc>::from_timestamp(1_600_000_000, 5).unwrap()), chrono::DateTime::<chrono::Local>::from(chrono::DateTime::<chrono::Utc>::from_timestamp(-1, 0).unwrap())]),
        "DateTime<FixedOffset>" => pool!(chrono::DateTime<chrono::FixedOffset>, [chrono::DateTime::parse_from_rfc3339("2020-01-02T03:04:05+08:00").unwrap(),
            chrono::DateTime::parse_from_rfc3339("1969-12-31T20:29:59-03:30").unwrap(), chrono::DateTime::parse_from_rfc3339("2020-01-02T03:04:05+00:00").unwrap()]),
        "time::Date" => pool!(time::Date, [time::Date::from_calendar_date(2020, time::Month::February, 29).unwrap()]),
        "time::Time" => pool!(time::Time, [time::Time::from_hms(1, 2, 3).unwrap()]),
        "PrimitiveDateTime" => pool!(time::PrimitiveDateTime, [time::PrimitiveDateTime::new(time::Date::from_calendar_date(2020, time::Month::February, 29).unwrap(), time::Time::from_hms(1, 2, 3).unwrap())]),
        "OffsetDateTime" => pool!(time::OffsetDateTime, [time::OffsetDateTime::from_unix_timestamp(1_600_000_000).unwrap(),
            time::OffsetDateTime::from_unix_timestamp(1_600_000_000).unwrap().to_offset(time::UtcOffset::from_hms(8, 0, 0).unwrap()),
            time::OffsetDateTime::from_unix_timestamp(-1).unwrap().to_offset(time::UtcOffset::from_hms(-3, -30, 0).unwrap())]),
        "Decimal" => pool!(rust_decimal::Decimal, [rust_decimal::Decimal::new(12345, 2), rust_decimal::Decimal::new(-1, 0), rust_decimal::Decimal::new(100, 2)]),
        "BigDecimal" => pool!(bigdecimal::BigDecimal, [bigdecimal::BigDecimal::from_str("123.450").unwrap(), bigdecimal::BigDecimal::from_str("-0.001").unwrap()]),
        "Uuid" => pool!(uuid::Uuid, [uuid::Uuid::nil(), uuid::Uuid::from_u128(0x1234_5678_9abc_def0_1234_5678_9abc_def0)]),
        "IpNetwork" => pool!(ipnetwork::IpNetwork, [ipnetwork::IpNetwork::from_str("10.0.0.0/8").unwrap(), ipnetwork::IpNetwork::from_str("::1/128").unwrap()]),
        "MacAddress" => pool!(mac_address::MacAddress, [mac_address::MacAddress::new([1, 2, 3, 4, 5, 6])]),
        "Vector" => pool!(pgvector::Vector, [pgvector::Vector::from(vec![1.0f32, -2.5, 0.0]), pgvector::Vector::from(Vec::<f32>::new())]),
        "Vec<i32>" => pool!(Vec<i32>, [vec![], vec![1, -2, 3]]),
        "Vec<String>" => pool!(Vec<String>, [vec!["a".to_string(), "".to_string()]]),
        "Vec<f64>" => pool!(Vec<f64>, [vec![1.5, -0.0]]),
        _ => panic!("unknown source type {ty}"),
    }
}

fn null_of(ty: &str) -> Value {
    macro_rules! n { ($t:ty) => { <$t as Nullable>::null() }; }
    match ty {
        "bool" => n!(bool), "i8" => n!(i8), "i16" => n!(i16), "i32" => n!(i32), "i64" => n!(i64),
        "u8" => n!(u8), "u16" => n!(u16), "u32" => n!(u32), "u64" => n!(u64), "f32" => n!(f32), "f64" => n!(f64),
        "char" => n!(char), "String" => n!(String), "Vec<u8>" => n!(Vec<u8>), "Json" => n!(serde_json::Value),
        "NaiveDate" => n!(chrono::NaiveDate), "NaiveTime" => n!(chrono::NaiveTime), "NaiveDateTime" => n!(chrono::NaiveDateTime),
        "DateTime<Utc>" => n!(chrono::DateTime<chrono::Utc>), "DateTime<Local>" => n!(chrono::DateTime<chrono::Local>), "DateTime<FixedOffset>" => n!(chrono::DateTime<chrono::FixedOffset>),
        "time::Date" => n!(time::Date), "time::Time" => n!(time::Time), "PrimitiveDateTime" => n!(time::PrimitiveDateTime),
        "OffsetDateTime" => n!(time::OffsetDateTime), "Decimal" => n!(rust_decimal::Decimal), "BigDecimal" => n!(bigdecimal::BigDecimal),
        "Uuid" => n!(uuid::Uuid), "IpNetwork" => n!(ipnetwork::IpNetwork), "MacAddress" => n!(mac_address::MacAddress), "Vector" => n!(pgvector::Vector),
        "Vec<i32>" => n!(Vec<i32>), "Vec<String>" => n!(Vec<String>), "Vec<f64>" => n!(Vec<f64>),
        _ => panic!("unknown type {ty}"),
    }
}

fn out<T: ValueType + Debug>(v: Value) -> J {
    match <T as ValueType>::try_from(v) {
        Ok(x) => json!({"k": "ok", "d": format!("{:?}", x)}),
        Err(_) => json!({"k": "err"}),
    }
}
fn out_opt<T: ValueType + Nullable + Debug>(v: Value) -> J {
    match <Option<T> as ValueType>::try_from(v) {
        Ok(None) => json!({"k": "none"}),
        Ok(Some(x)) => json!({"k": "ok", "d": format!("{:?}", x)}),
        Err(_) => json!({"k": "err"}),
    }
}

fn extract(tgt: &str, opt: bool, v: Value) -> J {
    macro_rules! t { ($t:ty) => { if opt { out_opt::<$t>(v) } else { out::<$t>(v) } }; }
    match tgt {
        "bool" => t!(bool), "i8" => t!(i8), "i16" => t!(i16), "i32" => t!(i32), "i64" => t!(i64),
        "u8" => t!(u8), "u16" => t!(u16), "u32" => t!(u32), "u64" => t!(u64), "f32" => t!(f32), "f64" => t!(f64),
        "char" => t!(char), "String" => t!(String), "Vec<u8>" => t!(Vec<u8>), "Json" => t!(serde_json::Value),
        "NaiveDate" => t!(chrono::NaiveDate), "NaiveTime" => t!(chrono::NaiveTime), "NaiveDateTime" => t!(chrono::NaiveDateTime),
        "DateTime<Utc>" => t!(chrono::DateTime<chrono::Utc>), "DateTime<Local>" => t!(chrono::DateTime<chrono::Local>), "DateTime<FixedOffset>" => t!(chrono::DateTime<chrono::FixedOffset>),
        "time::Date" => t!(time::Date), "time::Time" => t!(time::Time), "PrimitiveDateTime" => t!(time::PrimitiveDateTime),
        "OffsetDateTime" => t!(time::OffsetDateTime), "Decimal" => t!(rust_decimal::Decimal), "BigDecimal" => t!(bigdecimal::BigDecimal),
        "Uuid" => t!(uuid::Uuid), "IpNetwork" => t!(ipnetwork::IpNetwork), "MacAddress" => t!(mac_address::MacAddress), "Vector" => t!(pgvector::Vector),
        "Vec<i32>" => t!(Vec<i32>), "Vec<String>" => t!(Vec<String>), "Vec<f64>" => t!(Vec<f64>),
        "Cow<str>" => if opt { json!({"k": "na"}) } else { out::<std::borrow::Cow<str>>(v) },
        _ => panic!("unknown target type {tgt}"),
    }
}

/// {"id","kind":"cell","src":T,"tgt":U,"opt":bool,"null":bool}: every payload of the pool of T converted
/// into a Value (or T's NULL), extracted as U / Option<U>.
pub fn valcase(c: &J) -> J {
    let kind = c["kind"].as_str().unwrap_or("cell");
    match kind {
        "cell" => {
            let src = c["src"].as_str().unwrap();
            let tgt = c["tgt"].as_str().unwrap();
            let opt = c["opt"].as_bool().unwrap_or(false);
            let null_case = c["null"].as_bool().unwrap_or(false);
            let mut obs = vec![];
            if null_case {
                let v = null_of(src);
                obs.push(json!({"in": "NULL", "variant": variant_of(&v), "isnull": is_null(&v), "out": extract(tgt, opt, v.clone()),
                                "as_null": variant_of(&v.as_null()), "dummy": variant_of(&v.dummy_value()), "dummy_isnull": is_null(&v.dummy_value())}));
            } else {
                for (v, d) in pools(src) {
                    obs.push(json!({"in": d, "variant": variant_of(&v), "isnull": is_null(&v), "out": extract(tgt, opt, v.clone()),
                                    "as_null": variant_of(&v.as_null()), "as_null_isnull": is_null(&v.as_null()),
                                    "dummy": variant_of(&v.dummy_value()), "dummy_isnull": is_null(&v.dummy_value())}));
                }
            }
            json!({"id": c["id"], "kind": "cell", "src": src, "tgt": tgt, "opt": opt, "null": null_case, "obs": obs})
        }
        "tuple" => {
            // arity n: a tuple of n distinct i32 tags -> ValueTuple -> back
            let n = c["n"].as_u64().unwrap() as usize;
            macro_rules! tup {
                ($($i:expr),+) => {{
                    let t = ($( (100 + $i) as i32 ),+);
                    let vt = t.clone().into_value_tuple();
                    let kind = match &vt { ValueTuple::One(_) => "One", ValueTuple::Two(..) => "Two", ValueTuple::Three(..) => "Three", ValueTuple::Many(_) => "Many" };
                    let items: Vec<String> = vt.clone().into_iter().map(|v| format!("{:?}", v)).collect();
                    fn rt<T: FromValueTuple + IntoValueTuple + PartialEq + Clone>(t: &T) -> bool {
                        let back: T = FromValueTuple::from_value_tuple(t.clone().into_value_tuple());
                        back == *t
                    }
                    let _ = &vt;
                    let same = rt(&t);
                    // a value tuple of another arity must be refused, not truncated or padded
                    fn canon(m: usize) -> ValueTuple {
                        let mut vs: Vec<Value> = (0..m).map(|i| Value::from(900 + i as i32)).collect();
                        match m {
                            1 => ValueTuple::One(vs.remove(0)),
                            2 => { let b = vs.remove(1); ValueTuple::Two(vs.remove(0), b) }
                            3 => { let c3 = vs.remove(2); let b = vs.remove(1); ValueTuple::Three(vs.remove(0), b, c3) }
                            _ => ValueTuple::Many(vs),
                        }
                    }
                    fn refuses<T: FromValueTuple>(_t: &T, vt: ValueTuple) -> bool {
                        std::panic::catch_unwind(std::panic::AssertUnwindSafe(|| { let _: T = FromValueTuple::from_value_tuple(vt); })).is_err()
                    }
                    let longer = refuses(&t, canon(items.len() + 1));
                    let shorter = items.len() == 1 || refuses(&t, canon(items.len() - 1));
                    json!({"kind": kind, "items": items, "same": same, "longer_refused": longer, "shorter_refused": shorter})
                }};
            }
            let r = match n {
                1 => tup!(1), 2 => tup!(1, 2), 3 => tup!(1, 2, 3), 4 => tup!(1, 2, 3, 4), 5 => tup!(1, 2, 3, 4, 5),
                6 => tup!(1, 2, 3, 4, 5, 6), 7 => tup!(1, 2, 3, 4, 5, 6, 7), 8 => tup!(1, 2, 3, 4, 5, 6, 7, 8),
                9 => tup!(1, 2, 3, 4, 5, 6, 7, 8, 9), 10 => tup!(1, 2, 3, 4, 5, 6, 7, 8, 9, 10),
                11 => tup!(1, 2, 3, 4, 5, 6, 7, 8, 9, 10, 11), 12 => tup!(1, 2, 3, 4, 5, 6, 7, 8, 9, 10, 11, 12),
                _ => panic!("arity"),
            };
            json!({"id": c["id"], "kind": "tuple", "n": n, "obs": r})
        }
        "sweep" => {
            // exhaustive / strided identity sweep over a numeric type: counts only the failures (bit-exact)
            let ty = c["ty"].as_str().unwrap();
            let stride = c["stride"].as_u64().unwrap_or(1);
            let mut n = 0u64;
            let mut bad: Vec<String> = vec![];
            macro_rules! sweep_int {
                ($t:ty, $lo:expr, $hi:expr) => {{
                    let mut x: i128 = $lo as i128;
                    while x <= $hi as i128 {
                        let v = x as $t;
                        let back = <$t as ValueType>::try_from(Value::from(v));
                        n += 1;
                        if back.ok() != Some(v) { bad.push(format!("{}", v)); }
                        x += stride as i128;
                    }
                }};
            }
            match ty {
                "i8" => sweep_int!(i8, i8::MIN, i8::MAX), "u8" => sweep_int!(u8, u8::MIN, u8::MAX),
                "i16" => sweep_int!(i16, i16::MIN, i16::MAX), "u16" => sweep_int!(u16, u16::MIN, u16::MAX),
                "i32" => sweep_int!(i32, i32::MIN, i32::MAX), "u32" => sweep_int!(u32, u32::MIN, u32::MAX),
                "f32" => {
                    let mut b: u64 = 0;
                    while b <= u32::MAX as u64 {
                        let f = f32::from_bits(b as u32);
                        let back = <f32 as ValueType>::try_from(Value::from(f));
                        n += 1;
                        if back.map(|x| x.to_bits()).ok() != Some(f.to_bits()) { bad.push(format!("{:#x}", b)); }
                        b += stride;
                    }
                }
                "char" => {
                    let mut u: u32 = 0;
                    while u <= 0x10FFFF {
                        if let Some(ch) = char::from_u32(u) {
                            let back = <char as ValueType>::try_from(Value::from(ch));
                            n += 1;
                            if back.ok() != Some(ch) { bad.push(format!("{:#x}", u)); }
                        }
                        u += stride as u32;
                    }
                }
                _ => panic!("sweep type"),
            }
            bad.truncate(5);
            json!({"id": c["id"], "kind": "sweep", "ty": ty, "stride": stride, "n": n, "bad": bad})
        }
        _ => panic!("value case kind"),
    }
}

// ---------------------------------------------------------------------------
// C18: pool of values; pairs / triples
// ---------------------------------------------------------------------------
fn eq_pool() -> Vec<(String, Value)> {
    use std::str::FromStr;
    let mut p: Vec<(String, Value)> = vec![];
    let mut add = |n: &str, v: Value| p.push((n.to_string(), v));
    add("Bool:null", Value::Bool(None)); add("Bool:t", true.into()); add("Bool:f", false.into());
    add("TinyInt:null", Value::TinyInt(None)); add("TinyInt:1", 1i8.into());
    add("SmallInt:null", Value::SmallInt(None)); add("SmallInt:1", 1i16.into());
    add("Int:null", Value::Int(None)); add("Int:1", 1i32.into()); add("Int:2", 2i32.into()); add("Int:1b", 1i32.into());
    add("BigInt:null", Value::BigInt(None)); add("BigInt:1", 1i64.into());
    add("TinyUnsigned:1", 1u8.into()); add("SmallUnsigned:1", 1u16.into()); add("Unsigned:1", 1u32.into()); add("BigUnsigned:1", 1u64.into());
    add("Float:null", Value::Float(None)); add("Float:+0", 0.0f32.into()); add("Float:-0", (-0.0f32).into()); add("Float:1", 1.0f32.into());
    add("Float:nan_a", f32::from_bits(0x7fc00000).into()); add("Float:nan_b", f32::from_bits(0x7fc00001).into()); add("Float:nan_neg", f32::from_bits(0xffc00000).into());
    add("Float:inf", f32::INFINITY.into()); add("Float:-inf", f32::NEG_INFINITY.into());
    add("Double:null", Value::Double(None)); add("Double:+0", 0.0f64.into()); add("Double:-0", (-0.0f64).into()); add("Double:1", 1.0f64.into());
    add("Double:nan_a", f64::from_bits(0x7ff8000000000000).into()); add("Double:nan_b", f64::from_bits(0x7ff8000000000001).into());
    add("Double:inf", f64::INFINITY.into()); add("Double:-inf", f64::NEG_INFINITY.into());
    add("String:null", Value::String(None)); add("String:empty", "".into()); add("String:a", "a".into()); add("String:a2", String::from("a").into()); add("String:1", "1".into());
    add("Char:null", Value::Char(None)); add("Char:a", 'a'.into()); add("Char:1", '1'.into());
    add("Bytes:null", Value::Bytes(None)); add("Bytes:empty", Vec::<u8>::new().into()); add("Bytes:a", vec![97u8].into());
    add("Json:null", Value::Json(None)); add("Json:jsonnull", json!(null).into());
    add("Json:ab", serde_json::from_str::<serde_json::Value>(r#"{"a":1,"b":2}"#).unwrap().into());
    add("Json:ba", serde_json::from_str::<serde_json::Value>(r#"{"b":2,"a":1}"#).unwrap().into());
    add("Json:str_a", json!("a").into()); add("Json:1", json!(1).into()); add("Json:1.0", json!(1.0).into());
    // JSON numbers that are equal as numbers but serialise differently (equality is on the serialisation)
    add("Json:f+0", json!(0.0).into()); add("Json:f-0", json!(-0.0).into());
    add("Json:arr+0", json!([0.0, {"z": 0.0}]).into()); add("Json:arr-0", json!([-0.0, {"z": -0.0}]).into());
    add("Json:i0", json!(0).into());
    add("ChronoDate:null", Value::ChronoDate(None)); add("ChronoDate:d1", chrono::NaiveDate::from_ymd_opt(2020, 1, 1).unwrap().into());
    add("TimeDate:null", Value::TimeDate(None)); add("TimeDate:d1", time::Date::from_calendar_date(2020, time::Month::January, 1).unwrap().into());
    add("ChronoDateTime:dt1", chrono::NaiveDate::from_ymd_opt(2020, 1, 1).unwrap().and_hms_opt(0, 0, 0).unwrap().into());
    add("ChronoDateTime:null", Value::ChronoDateTime(None));
    add("ChronoTime:null", Value::ChronoTime(None)); add("ChronoTime:t1", chrono::NaiveTime::from_hms_opt(1, 2, 3).unwrap().into());
    add("ChronoDateTimeUtc:null", Value::ChronoDateTimeUtc(None)); add("ChronoDateTimeUtc:u1", chrono::DateTime::<chrono::Utc>::from_timestamp(1_600_000_000, 0).unwrap().into());
    add("ChronoDateTimeLocal:null", Value::ChronoDateTimeLocal(None)); add("ChronoDateTimeLocal:l1", chrono::DateTime::<chrono::Local>::from(chrono::DateTime::<chrono::Utc>::from_timestamp(1_600_000_000, 0).unwrap()).into());
    // one instant written with two offsets, and a different instant
    add("ChronoDateTimeWithTimeZone:null", Value::ChronoDateTimeWithTimeZone(None));
    add("ChronoDateTimeWithTimeZone:z0", chrono::DateTime::parse_from_rfc3339("2020-01-02T12:00:00+00:00").unwrap().into());
    add("ChronoDateTimeWithTimeZone:z2", chrono::DateTime::parse_from_rfc3339("2020-01-02T14:00:00+02:00").unwrap().into());
    add("ChronoDateTimeWithTimeZone:z0b", chrono::DateTime::parse_from_rfc3339("2020-01-02T14:00:00+00:00").unwrap().into());
    add("TimeTime:null", Value::TimeTime(None)); add("TimeTime:t1", time::Time::from_hms(1, 2, 3).unwrap().into());
    add("TimeDateTime:null", Value::TimeDateTime(None));
    add("TimeDateTime:dt1", time::PrimitiveDateTime::new(time::Date::from_calendar_date(2020, time::Month::January, 2).unwrap(), time::Time::from_hms(12, 0, 0).unwrap()).into());
    add("TimeDateTimeWithTimeZone:null", Value::TimeDateTimeWithTimeZone(None));
    {
        let d = time::Date::from_calendar_date(2020, time::Month::January, 2).unwrap();
        let at = |h: u8, off: i8| time::PrimitiveDateTime::new(d, time::Time::from_hms(h, 0, 0).unwrap()).assume_offset(time::UtcOffset::from_hms(off, 0, 0).unwrap());
        add("TimeDateTimeWithTimeZone:z0", at(12, 0).into()); add("TimeDateTimeWithTimeZone:z2", at(14, 2).into()); add("TimeDateTimeWithTimeZone:z0b", at(14, 0).into());
    }
    add("BigDecimal:null", Value::BigDecimal(None)); add("IpNetwork:null", Value::IpNetwork(None)); add("MacAddress:null", Value::MacAddress(None));
    add("Decimal:null", Value::Decimal(None)); add("Decimal:1.0", rust_decimal::Decimal::new(10, 1).into()); add("Decimal:1.00", rust_decimal::Decimal::new(100, 2).into()); add("Decimal:2", rust_decimal::Decimal::new(2, 0).into());
    add("BigDecimal:1.0", bigdecimal::BigDecimal::from_str("1.0").unwrap().into()); add("BigDecimal:1.00", bigdecimal::BigDecimal::from_str("1.00").unwrap().into());
    add("Uuid:null", Value::Uuid(None)); add("Uuid:nil", uuid::Uuid::nil().into()); add("Uuid:x", uuid::Uuid::from_u128(7).into());
    add("IpNetwork:a", ipnetwork::IpNetwork::from_str("10.0.0.0/8").unwrap().into());
    add("MacAddress:a", mac_address::MacAddress::new([1, 2, 3, 4, 5, 6]).into());
    add("Vector:null", Value::Vector(None)); add("Vector:a", pgvector::Vector::from(vec![1.0f32, 2.0]).into());
    add("Vector:a2", pgvector::Vector::from(vec![1.0f32, 2.0]).into()); add("Vector:b", pgvector::Vector::from(vec![2.0f32, 1.0]).into());
    add("Vector:empty", pgvector::Vector::from(Vec::<f32>::new()).into());
    add("Array:int_null", Value::Array(ArrayType::Int, None)); add("Array:str_null", Value::Array(ArrayType::String, None));
    add("Array:int_empty", Vec::<i32>::new().into()); add("Array:str_empty", Vec::<String>::new().into());
    add("Array:int_12", vec![1i32, 2].into()); add("Array:int_12b", vec![1i32, 2].into()); add("Array:int_21", vec![2i32, 1].into());
    add("Array:f_nan", vec![f64::NAN].into()); add("Array:f_nan2", vec![f64::from_bits(0x7ff8000000000001)].into());
    add("Array:nested", Value::Array(ArrayType::Int, Some(Box::new(vec![Value::Array(ArrayType::Int, Some(Box::new(vec![1i32.into()])))]))));
    add("Array:nested_b", Value::Array(ArrayType::Int, Some(Box::new(vec![Value::Array(ArrayType::Int, Some(Box::new(vec![1i32.into()])))]))));
    p
}

fn hash_of(v: &Value) -> u64 {
    use std::hash::{Hash, Hasher};
    let mut h = std::collections::hash_map::DefaultHasher::new();
    v.hash(&mut h);
    h.finish()
}

/// {"id","kind":"pool"} -> names; {"kind":"row","i":k} -> equality and hash agreement of pool[k] with every element
pub fn eqcase(c: &J) -> J {
    let pool = eq_pool();
    match c["kind"].as_str().unwrap() {
        "pool" => json!({"id": c["id"], "kind": "pool", "names": pool.iter().map(|(n, _)| n.clone()).collect::<Vec<_>>(),
                         "variants": pool.iter().map(|(_, v)| variant_of(v)).collect::<Vec<_>>()}),
        "row" => {
            let i = c["i"].as_u64().unwrap() as usize;
            let (n, a) = &pool[i];
            let eqs: Vec<bool> = pool.iter().map(|(_, b)| a == b).collect();
            let eqs_rev: Vec<bool> = pool.iter().map(|(_, b)| b == a).collect();
            let hashes_equal: Vec<bool> = pool.iter().map(|(_, b)| hash_of(a) == hash_of(b)).collect();
            let mut set = std::collections::HashSet::new();
            set.insert(a.clone());
            let in_set: Vec<bool> = pool.iter().map(|(_, b)| set.contains(b)).collect();
            let cl = a.clone();
            // value tuples as keys
            let vt_eq: Vec<bool> = pool.iter().map(|(_, b)| ValueTuple::Two(a.clone(), 1i32.into()) == ValueTuple::Two(b.clone(), 1i32.into())).collect();
            // value tuples of the same content in their fixed-arity and in their Many representation, as keys
            let x: Value = 1i32.into(); let y: Value = "k".into();
            let forms = |v: &Value| -> Vec<(ValueTuple, ValueTuple)> { vec![
                (ValueTuple::One(a.clone()), ValueTuple::One(v.clone())),
                (ValueTuple::One(a.clone()), ValueTuple::Many(vec![v.clone()])),
                (ValueTuple::Two(a.clone(), x.clone()), ValueTuple::Many(vec![v.clone(), x.clone()])),
                (ValueTuple::Three(x.clone(), a.clone(), y.clone()), ValueTuple::Many(vec![x.clone(), v.clone(), y.clone()])),
                (ValueTuple::Many(vec![a.clone(), x.clone(), y.clone(), x.clone()]), ValueTuple::Many(vec![v.clone(), x.clone(), y.clone(), x.clone()])),
            ] };
            let th = |t: &ValueTuple| { use std::hash::{Hash, Hasher}; let mut h = std::collections::hash_map::DefaultHasher::new(); t.hash(&mut h); h.finish() };
            let vtx_eq: Vec<Vec<bool>> = pool.iter().map(|(_, b)| forms(b).iter().map(|(p, q)| p == q).collect()).collect();
            let vtx_hash: Vec<Vec<bool>> = pool.iter().map(|(_, b)| forms(b).iter().map(|(p, q)| th(p) == th(q)).collect()).collect();
            let vtx_set: Vec<Vec<bool>> = pool.iter().map(|(_, b)| forms(b).iter().map(|(p, q)| { let mut s = std::collections::HashSet::new(); s.insert(p.clone()); s.contains(q) }).collect()).collect();
            json!({"id": c["id"], "kind": "row", "i": i, "name": n, "eq": eqs, "eq_rev": eqs_rev, "hash_eq": hashes_equal, "in_set": in_set,
                   "clone_eq": *a == cl, "vt_eq": vt_eq, "vtx_eq": vtx_eq, "vtx_hash": vtx_hash, "vtx_set": vtx_set})
        }
        _ => panic!("eq case kind"),
    }
}
