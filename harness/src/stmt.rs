//! JSON call histories -> statements. One JSON record per public builder call.
use crate::expr::*;
use crate::val::to_value;
use sea_query::extension::mysql::{IndexHintScope, MySqlSelectStatementExt};
use sea_query::extension::postgres::PostgresSelectStatementExt;
use sea_query::*;
use serde_json::{json, Value as J};

pub fn table_ref(j: &J) -> TableRef {
    match j {
        J::String(s) => a(s).into_table_ref(),
        J::Array(v) if v.len() == 1 => a(v[0].as_str().unwrap()).into_table_ref(),
        J::Array(v) if v.len() == 2 => (a(v[0].as_str().unwrap()), a(v[1].as_str().unwrap())).into_table_ref(),
        J::Array(v) if v.len() == 3 => {
            (a(v[0].as_str().unwrap()), a(v[1].as_str().unwrap()), a(v[2].as_str().unwrap())).into_table_ref()
        }
        _ => panic!("bad table ref {j}"),
    }
}

pub fn order(j: &J) -> Order {
    match j {
        J::String(s) if s == "Asc" => Order::Asc,
        J::String(s) if s == "Desc" => Order::Desc,
        J::Object(o) if o.get("d").map(|d| d == "Asc").unwrap_or(false) => Order::Asc,
        J::Object(o) if o.get("d").map(|d| d == "Desc").unwrap_or(false) => Order::Desc,
        J::Object(o) if o.contains_key("field") => {
            Order::Field(Values(o["field"].as_array().unwrap().iter().map(to_value).collect()))
        }
        _ => panic!("bad order {j}"),
    }
}

pub fn nulls(j: &J) -> Option<NullOrdering> {
    match j.as_str() {
        Some("First") => Some(NullOrdering::First),
        Some("Last") => Some(NullOrdering::Last),
        _ => None,
    }
}

pub fn frame(j: &J) -> Frame {
    match j {
        J::String(s) => match s.as_str() {
            "UnboundedPreceding" => Frame::UnboundedPreceding,
            "CurrentRow" => Frame::CurrentRow,
            "UnboundedFollowing" => Frame::UnboundedFollowing,
            _ => panic!("frame"),
        },
        J::Object(o) if o.contains_key("b") => match o["b"].as_str().unwrap() {
            "UnboundedPreceding" => Frame::UnboundedPreceding,
            "CurrentRow" => Frame::CurrentRow,
            "UnboundedFollowing" => Frame::UnboundedFollowing,
            "Preceding" => Frame::Preceding(o["n"].as_u64().unwrap() as u32),
            "Following" => Frame::Following(o["n"].as_u64().unwrap() as u32),
            _ => panic!("frame"),
        },
        J::Object(o) => {
            if let Some(n) = o.get("Preceding") {
                Frame::Preceding(n.as_u64().unwrap() as u32)
            } else {
                Frame::Following(o["Following"].as_u64().unwrap() as u32)
            }
        }
        _ => panic!("frame"),
    }
}

/// the frame clause, through frame() or through the method the case names ("m": frame_start | frame_between)
fn set_frame(w: &mut WindowStatement, f: &J) {
    let ty = if f["type"] == "Range" { FrameType::Range } else { FrameType::Rows };
    let end = f.get("end").filter(|x| !x.is_null()).map(frame);
    match (f.get("m").and_then(|m| m.as_str()), end) {
        (None, end) => { w.frame(ty, frame(&f["start"]), end); }
        (Some("frame_start"), None) => { w.frame_start(ty, frame(&f["start"])); }
        (Some("frame_between"), Some(end)) => { w.frame_between(ty, frame(&f["start"]), end); }
        (Some(m), _) => panic!("case error: frame method {m} does not fit {f}"),
    }
}

pub fn window(j: &J) -> WindowStatement {
    let mut w = WindowStatement::new();
    if let Some(ps) = j.get("partition").and_then(|x| x.as_array()) {
        for p in ps {
            w.add_partition_by(expr(p));
        }
    }
    if let Some(os) = j.get("order").and_then(|x| x.as_array()) {
        for o in os {
            match nulls(&o["nulls"]) {
                Some(n) => w.order_by_expr_with_nulls(expr(&o["e"]), order(&o["o"]), n),
                None => w.order_by_expr(expr(&o["e"]), order(&o["o"])),
            };
        }
    }
    if let Some(f) = j.get("frame") {
        if !f.is_null() {
            set_frame(&mut w, f);
        }
    }
    w
}

/// one call on a WindowStatement builder (C15)
pub fn apply_window(w: &mut WindowStatement, c: &J) {
    match c["op"].as_str().unwrap() {
        "partition_by" => { w.add_partition_by(expr(&c["e"])); }
        "order_by" => {
            match nulls(&c["nulls"]) {
                Some(n) => w.order_by_expr_with_nulls(expr(&c["e"]), order(&c["o"]), n),
                None => w.order_by_expr(expr(&c["e"]), order(&c["o"])),
            };
        }
        "frame" => {
            let f = &c["f"];
            set_frame(w, f);
        }
        "clear_order_by" => { w.clear_order_by(); }
        other => panic!("unknown window op {other}"),
    }
}

pub fn with_clause(j: &J) -> WithClause {
    let mut w = WithClause::new();
    if j["recursive"].as_bool().unwrap_or(false) {
        w.recursive(true);
    }
    for c in j["ctes"].as_array().unwrap() {
        if c["from_select"].as_bool().unwrap_or(false) {
            // name and column list derived from the SELECT itself
            w.cte(CommonTableExpression::from_select(select(&c["q"])));
            continue;
        }
        let mut cte = CommonTableExpression::new();
        cte.table_name(a(&st(c, "name")));
        if let Some(cols) = c.get("cols").and_then(|x| x.as_array()) {
            for col in cols {
                cte.column(a(col.as_str().unwrap()));
            }
        }
        if let Some(m) = c.get("mat").and_then(|x| x.as_bool()) {
            cte.materialized(m);
        }
        match c["q"]["kind"].as_str().unwrap() {
            "select" => cte.query(select(&c["q"])),
            "insert" => cte.query(insert(&c["q"])),
            "update" => cte.query(update(&c["q"])),
            "delete" => cte.query(delete(&c["q"])),
            k => panic!("cte query kind {k}"),
        };
        w.cte(cte);
    }
    if let Some(s) = j.get("search").filter(|x| !x.is_null()) {
        let ord = if s["order"] == "DEPTH" { SearchOrder::DEPTH } else { SearchOrder::BREADTH };
        w.search(Search::new_from_order_and_expr(ord, SelectExpr { expr: expr(&s["e"]), alias: Some(a(&st(s, "set")).into_iden()), window: None }));
    }
    if let Some(c) = j.get("cycle").filter(|x| !x.is_null()) {
        w.cycle(Cycle::new_from_expr_set_using(expr(&c["e"]), a(&st(c, "set")), a(&st(c, "using"))));
    }
    w
}

fn union_type(s: &str) -> UnionType {
    match s {
        "All" => UnionType::All,
        "Distinct" => UnionType::Distinct,
        "Intersect" => UnionType::Intersect,
        "Except" => UnionType::Except,
        _ => panic!("union type"),
    }
}

fn join_type(s: &str) -> JoinType {
    match s {
        "Join" => JoinType::Join,
        "Cross" => JoinType::CrossJoin,
        "Inner" => JoinType::InnerJoin,
        "Left" => JoinType::LeftJoin,
        "Right" => JoinType::RightJoin,
        "FullOuter" => JoinType::FullOuterJoin,
        _ => panic!("join type"),
    }
}

fn lock_type(s: &str) -> LockType {
    match s {
        "Update" => LockType::Update,
        "NoKeyUpdate" => LockType::NoKeyUpdate,
        "Share" => LockType::Share,
        "KeyShare" => LockType::KeyShare,
        _ => panic!("lock type"),
    }
}

fn returning(j: &J) -> ReturningClause {
    if j == "all" || j.get("all").is_some() {
        Query::returning().all()
    } else if let Some(cols) = j.get("cols") {
        Query::returning().columns(cols.as_array().unwrap().iter().map(col_ref).collect::<Vec<_>>())
    } else {
        Query::returning().exprs(exprs(&j["exprs"]))
    }
}

/// the ValueTuple a Rust tuple of that arity converts into (One / Two / Three / Many)
pub fn value_tuple(mut vs: Vec<Value>) -> ValueTuple {
    match vs.len() {
        1 => ValueTuple::One(vs.remove(0)),
        2 => { let b = vs.remove(1); ValueTuple::Two(vs.remove(0), b) }
        3 => { let c3 = vs.remove(2); let b = vs.remove(1); ValueTuple::Three(vs.remove(0), b, c3) }
        _ => ValueTuple::Many(vs),
    }
}

fn order_col(c: &J) -> ColumnRef {
    assert!(c["e"]["k"] == "col", "case error: column-based order_by given a non-column expression");
    col_of(&c["e"])
}

/// the same calls through the equivalent "sugar" methods of SelectStatement
fn apply_select_via(s: &mut SelectStatement, c: &J, m: &str) {
    match m {
        "columns" => { s.columns([col_of(c)]); }
        "exprs" => { s.exprs([expr(&c["e"])]); }
        "left_join" | "right_join" | "inner_join" | "cross_join" | "full_outer_join" => {
            assert!(c.get("a").is_none(), "case error: sugar joins take no alias");
            let (t, on) = (table_ref(&c["t"]), cond(&c["on"]));
            match m {
                "left_join" => s.left_join(t, on),
                "right_join" => s.right_join(t, on),
                "inner_join" => s.inner_join(t, on),
                "cross_join" => s.cross_join(t, on),
                _ => s.full_outer_join(t, on),
            };
        }
        "group_by_columns" => { s.group_by_columns([col_of(c)]); }
        "order_by" => {
            match nulls(&c["nulls"]) {
                Some(n) => s.order_by_with_nulls(order_col(c), order(&c["o"]), n),
                None => s.order_by(order_col(c), order(&c["o"])),
            };
        }
        "order_by_columns" => {
            match nulls(&c["nulls"]) {
                Some(n) => s.order_by_columns_with_nulls([(order_col(c), order(&c["o"]), n)]),
                None => s.order_by_columns([(order_col(c), order(&c["o"]))]),
            };
        }
        "lock_shared" => { s.lock_shared(); }
        "lock_exclusive" => { s.lock_exclusive(); }
        "unions" => { s.unions([(union_type(&st(c, "type")), select(&c["q"]))]); }
        "and_where_option" => { s.and_where_option(Some(expr(&c["e"]))); }
        "conditions" => { let e = expr(&c["e"]); s.conditions(true, |q| { q.and_where(e); }, |_| {}); }
        "apply" => { let e = expr(&c["e"]); s.apply(|q| { q.and_where(e); }); }
        "apply_if" => { s.apply_if(Some(expr(&c["e"])), |q, v| { q.and_where(v); }); }
        other => panic!("case error: unknown select method {other}"),
    }
}

/// apply one builder call to a SelectStatement
pub fn apply_select(s: &mut SelectStatement, c: &J) {
    let op = c["op"].as_str().unwrap_or_else(|| panic!("op missing in {c}"));
    // "m": the call is made through an equivalent public method (spec/stmt_methods.json says what it stands for)
    if let Some(m) = c.get("m").and_then(|m| m.as_str()) {
        return apply_select_via(s, c, m);
    }
    match op {
        "column" => { s.column(col_of(c)); }
        "expr" => { s.expr(expr(&c["e"])); }
        "expr_as" => { s.expr_as(expr(&c["e"]), a(&st(c, "a"))); }
        "expr_window" => {
            match c.get("a").and_then(|x| x.as_str()) {
                Some(al) => s.expr_window_as(expr(&c["e"]), window(&c["w"]), a(al)),
                None => s.expr_window(expr(&c["e"]), window(&c["w"])),
            };
        }
        "expr_window_name" => {
            match c.get("a").and_then(|x| x.as_str()) {
                Some(al) => s.expr_window_name_as(expr(&c["e"]), a(&st(c, "w")), a(al)),
                None => s.expr_window_name(expr(&c["e"]), a(&st(c, "w"))),
            };
        }
        "distinct" => { s.distinct(); }
        "distinct_on" => { s.distinct_on(c["cols"].as_array().unwrap().iter().map(col_ref).collect::<Vec<_>>()); }
        "from" => { s.from(table_ref(&c["t"])); }
        "from_as" => { s.from_as(table_ref(&c["t"]), a(&st(c, "a"))); }
        "from_subquery" => {
            // "take": the sub-select is handed over with take() from a builder that is used again afterwards
            if c["take"].as_bool().unwrap_or(false) {
                let mut b = select(&c["q"]);
                s.from_subquery(b.take(), a(&st(c, "a")));
            } else {
                s.from_subquery(select(&c["q"]), a(&st(c, "a")));
            }
        }
        "from_values" => {
            let rows: Vec<ValueTuple> = c["rows"].as_array().unwrap().iter()
                .map(|r| value_tuple(r.as_array().unwrap().iter().map(to_value).collect())).collect();
            s.from_values(rows, a(&st(c, "a")));
        }
        "from_function" => { s.from_function(func(&st(c, "f"), exprs(&c["args"])), a(&st(c, "a"))); }
        "join" => {
            let jt = join_type(&st(c, "jt"));
            match c.get("a").and_then(|x| x.as_str()) {
                Some(al) => s.join_as(jt, table_ref(&c["t"]), a(al), cond(&c["on"])),
                None => s.join(jt, table_ref(&c["t"]), cond(&c["on"])),
            };
        }
        "join_subquery" => { s.join_subquery(join_type(&st(c, "jt")), select(&c["q"]), a(&st(c, "a")), cond(&c["on"])); }
        "join_lateral" => { s.join_lateral(join_type(&st(c, "jt")), select(&c["q"]), a(&st(c, "a")), cond(&c["on"])); }
        "and_where" => { s.and_where(expr(&c["e"])); }
        "and_where_option" => {
            let e = c.get("e").filter(|x| !x.is_null()).map(expr);
            s.and_where_option(e);
        }
        "cond_where" => { s.cond_where(cond(&c["c"])); }
        "and_having" => { s.and_having(expr(&c["e"])); }
        "cond_having" => { s.cond_having(cond(&c["c"])); }
        "group_by" => { s.add_group_by([expr(&c["e"])]); }
        "group_by_col" => { s.group_by_col(col_of(c)); }
        "order_by" => {
            match nulls(&c["nulls"]) {
                Some(n) => s.order_by_expr_with_nulls(expr(&c["e"]), order(&c["o"]), n),
                None => s.order_by_expr(expr(&c["e"]), order(&c["o"])),
            };
        }
        "limit" => { s.limit(c["n"].as_u64().unwrap()); }
        "offset" => { s.offset(c["n"].as_u64().unwrap()); }
        "reset_limit" => { s.reset_limit(); }
        "reset_offset" => { s.reset_offset(); }
        "clear_order_by" => { s.clear_order_by(); }
        "clear_selects" => { s.clear_selects(); }
        "from_clear" => { s.from_clear(); }
        "lock" => {
            let lt = lock_type(&st(c, "type"));
            let tables: Vec<TableRef> = c.get("tables").and_then(|x| x.as_array()).map(|v| v.iter().map(table_ref).collect()).unwrap_or_default();
            let beh = match c.get("behavior").and_then(|x| x.as_str()) {
                Some("Nowait") => Some(LockBehavior::Nowait),
                Some("SkipLocked") => Some(LockBehavior::SkipLocked),
                _ => None,
            };
            match (tables.is_empty(), beh) {
                (true, None) => s.lock(lt),
                (false, None) => s.lock_with_tables(lt, tables),
                (true, Some(b)) => s.lock_with_behavior(lt, b),
                (false, Some(b)) => s.lock_with_tables_behavior(lt, tables, b),
            };
        }
        "union" => { s.union(union_type(&st(c, "type")), select(&c["q"])); }
        "with_cte" => { s.with_cte(with_clause(&c["w"])); }
        "window" => { s.window(a(&st(c, "name")), window(&c["w"])); }
        "use_index" | "force_index" | "ignore_index" => {
            let scope = match c.get("scope").and_then(|x| x.as_str()) {
                Some("Join") => IndexHintScope::Join,
                Some("OrderBy") => IndexHintScope::OrderBy,
                Some("GroupBy") => IndexHintScope::GroupBy,
                _ => IndexHintScope::All,
            };
            match op {
                "use_index" => s.use_index(a(&st(c, "name")), scope),
                "force_index" => s.force_index(a(&st(c, "name")), scope),
                _ => s.ignore_index(a(&st(c, "name")), scope),
            };
        }
        "table_sample" => {
            let m = if c["method"] == "SYSTEM" { extension::postgres::SampleMethod::SYSTEM } else { extension::postgres::SampleMethod::BERNOULLI };
            s.table_sample(m, c["pct"].as_f64().unwrap(), c.get("rep").and_then(|x| x.as_f64()));
        }
        other => panic!("unknown select op {other}"),
    }
}

pub fn select(j: &J) -> SelectStatement {
    let mut s = Query::select();
    for c in j["calls"].as_array().unwrap() {
        apply_select(&mut s, c);
    }
    // "take": the finished statement is handed over with take() (the `Query::select()....take()` idiom) instead of by value
    if j["take"].as_bool().unwrap_or(false) { return s.take(); }
    s
}

pub fn on_conflict(j: &J) -> OnConflict {
    let mut oc = if let Some(cols) = j.get("cols").and_then(|x| x.as_array()) {
        OnConflict::columns(cols.iter().map(|c| a(c.as_str().unwrap())).collect::<Vec<_>>())
    } else {
        OnConflict::new()
    };
    if let Some(es) = j.get("exprs") {
        oc.exprs(exprs(es));
    }
    // the predicate setters have three spellings each; "tw_m" / "aw_m" pick one (the case says which)
    if let Some(w) = j.get("target_where").filter(|x| !x.is_null()) {
        match j.get("tw_m").and_then(|m| m.as_str()) {
            Some("and_where") => { oc.target_and_where(expr(w)); }
            Some("and_where_option") => { oc.target_and_where_option(Some(expr(w))); }
            _ => { oc.target_cond_where(cond(w)); }
        }
    }
    match &j["action"] {
        J::String(s) if s == "nothing" => { oc.do_nothing(); }
        J::Object(o) if o.contains_key("nothing") => { oc.do_nothing(); }
        J::Object(o) => {
            if let Some(cols) = o.get("nothing_on") {
                oc.do_nothing_on(cols.as_array().unwrap().iter().map(|c| a(c.as_str().unwrap())).collect::<Vec<_>>());
            }
            if let Some(cols) = o.get("update_cols") {
                oc.update_columns(cols.as_array().unwrap().iter().map(|c| a(c.as_str().unwrap())).collect::<Vec<_>>());
            }
            if let Some(vs) = o.get("values") {
                for p in vs.as_array().unwrap() {
                    oc.value(a(p[0].as_str().unwrap()), expr(&p[1]));
                }
            }
        }
        _ => {}
    }
    if let Some(w) = j.get("action_where").filter(|x| !x.is_null()) {
        match j.get("aw_m").and_then(|m| m.as_str()) {
            Some("and_where") => { oc.action_and_where(expr(w)); }
            Some("and_where_option") => { oc.action_and_where_option(Some(expr(w))); }
            _ => { oc.action_cond_where(cond(w)); }
        }
    }
    oc
}

/// apply one call to an InsertStatement; returns the call's observable result
pub fn apply_insert(s: &mut InsertStatement, c: &J) -> J {
    let op = c["op"].as_str().unwrap();
    match c.get("m").and_then(|m| m.as_str()) {
        Some("returning_all") => { s.returning_all(); return J::Null; }
        Some("returning_col") => { s.returning_col(col_ref(&c["r"]["cols"][0])); return J::Null; }
        Some(m) => panic!("case error: unknown insert method {m}"),
        None => {}
    }
    match op {
        "into_table" => { s.into_table(table_ref(&c["t"])); }
        "columns" => { s.columns(c["cols"].as_array().unwrap().iter().map(|x| a(x.as_str().unwrap())).collect::<Vec<_>>()); }
        "values" => {
            // "it": the shape of the iterator the row is passed as; the row it yields is always c["row"]
            let r = match c.get("it").and_then(|x| x.as_str()) {
                // size_hint upper bound exceeds the number of items yielded
                Some("filter") => s.values(exprs(&c["row"]).into_iter().map(Some).chain([None, None]).filter_map(|x| x)),
                // no size_hint at all
                Some("lazy") => { let mut it = exprs(&c["row"]).into_iter(); s.values(std::iter::from_fn(move || it.next())) }
                Some(o) => panic!("case error: unknown iterator shape {o}"),
                None => s.values(exprs(&c["row"])),
            };
            return match r {
                Ok(_) => json!({"ok": true}),
                Err(e) => match e {
                    error::Error::ColValNumMismatch { col_len, val_len } => json!({"ok": false, "col_len": col_len, "val_len": val_len, "msg": e.to_string()}),
                    #[allow(unreachable_patterns)]
                    _ => json!({"ok": false, "other": e.to_string()}),
                },
            };
        }
        "values_panic" => {
            match c.get("it").and_then(|x| x.as_str()) {
                Some("filter") => { s.values_panic(exprs(&c["row"]).into_iter().map(Some).chain([None, None]).filter_map(|x| x)); }
                Some("lazy") => { let mut it = exprs(&c["row"]).into_iter(); s.values_panic(std::iter::from_fn(move || it.next())); }
                Some(o) => panic!("case error: unknown iterator shape {o}"),
                None => { s.values_panic(exprs(&c["row"])); }
            }
        }
        "values_from_panic" => {
            let rows: Vec<Vec<SimpleExpr>> = c["rows"].as_array().unwrap().iter().map(exprs).collect();
            s.values_from_panic(rows);
        }
        "select_from" => {
            return match s.select_from(select(&c["q"])) {
                Ok(_) => json!({"ok": true}),
                Err(e) => match e {
                    error::Error::ColValNumMismatch { col_len, val_len } => json!({"ok": false, "col_len": col_len, "val_len": val_len, "msg": e.to_string()}),
                    #[allow(unreachable_patterns)]
                    _ => json!({"ok": false, "other": e.to_string()}),
                },
            };
        }
        "or_default_values" => { s.or_default_values(); }
        "or_default_values_many" => { s.or_default_values_many(c["n"].as_u64().unwrap() as u32); }
        "replace" => { s.replace(); }
        "on_conflict" => { s.on_conflict(on_conflict(&c["oc"])); }
        "returning" => { s.returning(returning(&c["r"])); }
        "with_cte" => { s.with_cte(with_clause(&c["w"])); }
        other => panic!("unknown insert op {other}"),
    }
    json!({"unit": true})
}

pub fn insert(j: &J) -> InsertStatement {
    let mut s = Query::insert();
    for c in j["calls"].as_array().unwrap() {
        apply_insert(&mut s, c);
    }
    s
}

/// the calls of UpdateStatement / DeleteStatement / InsertStatement through their equivalent methods ("m")
macro_rules! dml_via {
    ($s:expr, $c:expr, $m:expr) => {{
        let (s, c, m) = ($s, $c, $m);
        match m {
            "and_where_option" => { s.and_where_option(Some(expr(&c["e"]))); true }
            "order_by" => {
                match nulls(&c["nulls"]) {
                    Some(n) => s.order_by_with_nulls(order_col(c), order(&c["o"]), n),
                    None => s.order_by(order_col(c), order(&c["o"])),
                };
                true
            }
            "order_by_columns" => {
                match nulls(&c["nulls"]) {
                    Some(n) => s.order_by_columns_with_nulls([(order_col(c), order(&c["o"]), n)]),
                    None => s.order_by_columns([(order_col(c), order(&c["o"]))]),
                };
                true
            }
            "returning_all" => { s.returning_all(); true }
            "returning_col" => { s.returning_col(col_ref(&c["r"]["cols"][0])); true }
            _ => false,
        }
    }};
}

pub fn apply_update(s: &mut UpdateStatement, c: &J) {
    let op = c["op"].as_str().unwrap();
    if let Some(m) = c.get("m").and_then(|m| m.as_str()) {
        if m == "values" { s.values([(a(&st(c, "col")), expr(&c["e"]))]); return; }
        if dml_via!(&mut *s, c, m) { return; }
        panic!("case error: unknown update method {m}");
    }
    match op {
        "table" => { s.table(table_ref(&c["t"])); }
        "table_as" => { s.table(table_ref(&c["t"]).alias(a(&st(c, "a")))); }
        "from" => { s.from(table_ref(&c["t"])); }
        "value" => { s.value(a(&st(c, "col")), expr(&c["e"])); }
        "and_where" => { s.and_where(expr(&c["e"])); }
        "cond_where" => { s.cond_where(cond(&c["c"])); }
        "order_by" => {
            match nulls(&c["nulls"]) {
                Some(n) => s.order_by_expr_with_nulls(expr(&c["e"]), order(&c["o"]), n),
                None => s.order_by_expr(expr(&c["e"]), order(&c["o"])),
            };
        }
        "clear_order_by" => { s.clear_order_by(); }
        "limit" => { s.limit(c["n"].as_u64().unwrap()); }
        "returning" => { s.returning(returning(&c["r"])); }
        "with_cte" => { s.with_cte(with_clause(&c["w"])); }
        other => panic!("unknown update op {other}"),
    }
}

pub fn update(j: &J) -> UpdateStatement {
    let mut s = Query::update();
    for c in j["calls"].as_array().unwrap() {
        apply_update(&mut s, c);
    }
    s
}

pub fn apply_delete(s: &mut DeleteStatement, c: &J) {
    let op = c["op"].as_str().unwrap();
    if let Some(m) = c.get("m").and_then(|m| m.as_str()) {
        if dml_via!(&mut *s, c, m) { return; }
        panic!("case error: unknown delete method {m}");
    }
    match op {
        "from_table" => { s.from_table(table_ref(&c["t"])); }
        "and_where" => { s.and_where(expr(&c["e"])); }
        "cond_where" => { s.cond_where(cond(&c["c"])); }
        "order_by" => {
            match nulls(&c["nulls"]) {
                Some(n) => s.order_by_expr_with_nulls(expr(&c["e"]), order(&c["o"]), n),
                None => s.order_by_expr(expr(&c["e"]), order(&c["o"])),
            };
        }
        "clear_order_by" => { s.clear_order_by(); }
        "limit" => { s.limit(c["n"].as_u64().unwrap()); }
        "returning" => { s.returning(returning(&c["r"])); }
        "with_cte" => { s.with_cte(with_clause(&c["w"])); }
        other => panic!("unknown delete op {other}"),
    }
}

pub fn delete(j: &J) -> DeleteStatement {
    let mut s = Query::delete();
    for c in j["calls"].as_array().unwrap() {
        apply_delete(&mut s, c);
    }
    s
}

/// Any query statement, boxed behind the dynamic traits.
pub enum AnyStmt {
    Select(SelectStatement),
    Insert(InsertStatement),
    Update(UpdateStatement),
    Delete(DeleteStatement),
    With(WithQuery),
}

pub fn any(j: &J) -> AnyStmt {
    match j["kind"].as_str().unwrap() {
        "select" => AnyStmt::Select(select(j)),
        "insert" => AnyStmt::Insert(insert(j)),
        "update" => AnyStmt::Update(update(j)),
        "delete" => AnyStmt::Delete(delete(j)),
        "with" => {
            let w = with_clause(&j["w"]);
            let q = match any(&j["q"]) {
                AnyStmt::Select(s) => w.query(s),
                AnyStmt::Insert(s) => w.query(s),
                AnyStmt::Update(s) => w.query(s),
                AnyStmt::Delete(s) => w.query(s),
                AnyStmt::With(_) => panic!("nested with"),
            };
            AnyStmt::With(q)
        }
        k => panic!("stmt kind {k}"),
    }
}

pub fn any_eq(a: &AnyStmt, b: &AnyStmt) -> bool {
    match (a, b) {
        (AnyStmt::Select(x), AnyStmt::Select(y)) => x == y,
        (AnyStmt::Insert(x), AnyStmt::Insert(y)) => x == y,
        (AnyStmt::Update(x), AnyStmt::Update(y)) => x == y,
        (AnyStmt::Delete(x), AnyStmt::Delete(y)) => x == y,
        (AnyStmt::With(x), AnyStmt::With(y)) => x == y,
        _ => false,
    }
}
