//! C04: identifier positions. For a name n, renders every statement that can
//! carry an identifier in some position with n there; "REFID" gives the
//! reference rendering.
use crate::per_backend;
use crate::util::*;
use sea_query::extension::mysql::{IndexHintScope, MySqlSelectStatementExt};
use sea_query::extension::postgres::Type;
use sea_query::*;
use serde_json::{json, Value as J};

fn a(n: &str) -> Alias {
    Alias::new(n)
}

pub fn positions(n: &str) -> J {
    let mut o = serde_json::Map::new();
    macro_rules! pos {
        ($name:expr, $b:ident => $body:expr) => {
            o.insert($name.to_string(), per_backend!($b => json!($body)));
        };
    }
    macro_rules! only {
        ($name:expr, $bk:expr, $body:expr) => {{
            let mut m = serde_json::Map::new();
            m.insert($bk.to_string(), guarded(|| json!($body)));
            o.insert($name.to_string(), J::Object(m));
        }};
    }
    // ---- query statements ----
    pos!("select_column", B => Query::select().column(a(n)).from(a("t")).to_string(B::default()));
    pos!("from_table", B => Query::select().column(a("c")).from(a(n)).to_string(B::default()));
    pos!("from_schema", B => Query::select().column(a("c")).from((a(n), a("t"))).to_string(B::default()));
    pos!("from_schema_table", B => Query::select().column(a("c")).from((a("s"), a(n))).to_string(B::default()));
    pos!("col_table_prefix", B => Query::select().expr(Expr::col((a(n), a("c")))).from(a("t")).to_string(B::default()));
    pos!("col_with_table", B => Query::select().expr(Expr::col((a("t"), a(n)))).from(a("t")).to_string(B::default()));
    pos!("col_schema3", B => Query::select().expr(Expr::col((a(n), a("t"), a("c")))).from(a("t")).to_string(B::default()));
    pos!("table_asterisk", B => Query::select().column((a(n), Asterisk)).from(a("t")).to_string(B::default()));
    pos!("expr_alias", B => Query::select().expr_as(Expr::val(1), a(n)).to_string(B::default()));
    pos!("table_alias", B => Query::select().column(a("c")).from_as(a("t"), a(n)).to_string(B::default()));
    pos!("subquery_alias", B => Query::select().column(a("c"))
        .from_subquery(Query::select().column(a("c")).from(a("t")).to_owned(), a(n)).to_string(B::default()));
    pos!("join_table", B => Query::select().column(a("c")).from(a("t"))
        .left_join(a(n), Expr::col((a("t"), a("c"))).equals((a("u"), a("c")))).to_string(B::default()));
    pos!("join_alias", B => Query::select().column(a("c")).from(a("t"))
        .join_as(JoinType::InnerJoin, a("u"), a(n), Expr::col((a("t"), a("c"))).eq(1)).to_string(B::default()));
    pos!("where_column", B => Query::select().column(a("c")).from(a("t")).and_where(Expr::col(a(n)).eq(1)).to_string(B::default()));
    pos!("group_by", B => Query::select().column(a("c")).from(a("t")).group_by_col(a(n)).to_string(B::default()));
    pos!("order_by", B => Query::select().column(a("c")).from(a("t")).order_by(a(n), Order::Desc).to_string(B::default()));
    pos!("cte_name", B => {
        let cte = CommonTableExpression::new().query(Query::select().column(a("c")).from(a("t")).to_owned())
            .table_name(a(n)).column(a("c")).to_owned();
        Query::select().column(a("c")).from(a("x")).to_owned().with(WithClause::new().cte(cte).to_owned()).to_string(B::default())
    });
    pos!("cte_column", B => {
        let cte = CommonTableExpression::new().query(Query::select().column(a("c")).from(a("t")).to_owned())
            .table_name(a("w")).column(a(n)).to_owned();
        Query::select().column(a("c")).from(a("w")).to_owned().with(WithClause::new().cte(cte).to_owned()).to_string(B::default())
    });
    pos!("window_name_over", B => Query::select().from(a("t"))
        .expr_window_name_as(Expr::col(a("c")), a(n), a("x")).to_string(B::default()));
    pos!("window_name_def", B => Query::select().from(a("t")).column(a("c"))
        .window(a(n), WindowStatement::partition_by(a("c"))).to_string(B::default()));
    only!("mysql_index_hint", "mysql", Query::select().column(a("c")).from(a("t"))
        .use_index(a(n), IndexHintScope::All).to_string(MysqlQueryBuilder));
    pos!("lock_of_table", B => Query::select().column(a("c")).from(a("t"))
        .lock_with_tables(LockType::Update, [a(n)]).to_string(B::default()));
    only!("pg_distinct_on", "pg", Query::select().column(a("c")).from(a("t")).distinct_on([a(n)]).to_string(PostgresQueryBuilder));
    only!("pg_as_enum", "pg", Query::select().expr(Expr::val("v").as_enum(a(n))).to_string(PostgresQueryBuilder));
    pos!("insert_table", B => Query::insert().into_table(a(n)).columns([a("c")]).values_panic([1.into()]).to_string(B::default()));
    pos!("insert_column", B => Query::insert().into_table(a("t")).columns([a("c"), a(n)]).values_panic([1.into(), 2.into()]).to_string(B::default()));
    pos!("on_conflict_column", B => Query::insert().into_table(a("t")).columns([a("c")]).values_panic([1.into()])
        .on_conflict(OnConflict::column(a(n)).update_column(a("c")).to_owned()).to_string(B::default()));
    pos!("on_conflict_update_column", B => Query::insert().into_table(a("t")).columns([a("c")]).values_panic([1.into()])
        .on_conflict(OnConflict::column(a("c")).update_column(a(n)).to_owned()).to_string(B::default()));
    pos!("returning_column", B => Query::insert().into_table(a("t")).columns([a("c")]).values_panic([1.into()])
        .returning_col(a(n)).to_string(B::default()));
    pos!("update_table", B => Query::update().table(a(n)).value(a("c"), 1).to_string(B::default()));
    pos!("update_column", B => Query::update().table(a("t")).value(a(n), 1).to_string(B::default()));
    pos!("update_from_column", B => Query::update().table(a("t")).from(a("u")).value(a(n), 1)
        .and_where(Expr::col((a("t"), a("c"))).equals((a("u"), a("c")))).to_string(B::default()));
    pos!("delete_table", B => Query::delete().from_table(a(n)).and_where(Expr::col(a("c")).eq(1)).to_string(B::default()));
    // ---- schema statements ----
    pos!("create_table_name", B => Table::create().table(a(n)).col(ColumnDef::new(a("c")).integer()).to_string(B::default()));
    pos!("create_table_schema", B => Table::create().table((a(n), a("t"))).col(ColumnDef::new(a("c")).integer()).to_string(B::default()));
    pos!("create_column_name", B => Table::create().table(a("t")).col(ColumnDef::new(a(n)).integer().not_null()).to_string(B::default()));
    pos!("create_table_pk_column", B => Table::create().table(a("t")).col(ColumnDef::new(a("c")).integer())
        .primary_key(Index::create().col(a(n))).to_string(B::default()));
    pos!("create_table_index_name", B => Table::create().table(a("t")).col(ColumnDef::new(a("c")).integer())
        .index(Index::create().unique().name(n).col(a("c"))).to_string(B::default()));
    pos!("create_table_pk_name", B => Table::create().table(a("t")).col(ColumnDef::new(a("c")).integer())
        .primary_key(Index::create().name(n).col(a("c"))).to_string(B::default()));
    pos!("create_table_fk_name", B => Table::create().table(a("t")).col(ColumnDef::new(a("c")).integer())
        .foreign_key(ForeignKey::create().name(n).from(a("t"), a("c")).to(a("u"), a("d"))).to_string(B::default()));
    pos!("create_table_fk_column", B => Table::create().table(a("t")).col(ColumnDef::new(a("c")).integer())
        .foreign_key(ForeignKey::create().name("fk").from(a("t"), a(n)).to(a("u"), a("d"))).to_string(B::default()));
    pos!("create_table_fk_ref_table", B => Table::create().table(a("t")).col(ColumnDef::new(a("c")).integer())
        .foreign_key(ForeignKey::create().name("fk").from(a("t"), a("c")).to(a(n), a("d"))).to_string(B::default()));
    pos!("create_table_fk_ref_column", B => Table::create().table(a("t")).col(ColumnDef::new(a("c")).integer())
        .foreign_key(ForeignKey::create().name("fk").from(a("t"), a("c")).to(a("u"), a(n))).to_string(B::default()));
    pos!("index_create_name", B => Index::create().name(n).table(a("t")).col(a("c")).to_string(B::default()));
    pos!("index_create_table", B => Index::create().name("i").table(a(n)).col(a("c")).to_string(B::default()));
    pos!("index_create_column", B => Index::create().name("i").table(a("t")).col(a(n)).to_string(B::default()));
    pos!("index_drop_name", B => Index::drop().name(n).table(a("t")).to_string(B::default()));
    pos!("index_drop_table", B => Index::drop().name("i").table(a(n)).to_string(B::default()));
    pos!("fk_create_name", B => ForeignKey::create().name(n).from(a("t"), a("c")).to(a("u"), a("d")).to_string(B::default()));
    pos!("fk_create_table", B => ForeignKey::create().name("fk").from(a(n), a("c")).to(a("u"), a("d")).to_string(B::default()));
    pos!("fk_create_column", B => ForeignKey::create().name("fk").from(a("t"), a(n)).to(a("u"), a("d")).to_string(B::default()));
    pos!("fk_drop_name", B => ForeignKey::drop().name(n).table(a("t")).to_string(B::default()));
    pos!("fk_drop_table", B => ForeignKey::drop().name("fk").table(a(n)).to_string(B::default()));
    pos!("alter_table_name", B => Table::alter().table(a(n)).add_column(ColumnDef::new(a("c")).integer()).to_string(B::default()));
    pos!("alter_add_column", B => Table::alter().table(a("t")).add_column(ColumnDef::new(a(n)).integer()).to_string(B::default()));
    pos!("alter_rename_column_from", B => Table::alter().table(a("t")).rename_column(a(n), a("d")).to_string(B::default()));
    pos!("alter_rename_column_to", B => Table::alter().table(a("t")).rename_column(a("c"), a(n)).to_string(B::default()));
    pos!("alter_drop_column", B => Table::alter().table(a("t")).drop_column(a(n)).to_string(B::default()));
    pos!("alter_modify_column", B => Table::alter().table(a("t")).modify_column(ColumnDef::new(a(n)).big_integer()).to_string(B::default()));
    pos!("alter_drop_fk", B => Table::alter().table(a("t")).drop_foreign_key(a(n)).to_string(B::default()));
    pos!("alter_add_fk_name", B => Table::alter().table(a("t"))
        .add_foreign_key(TableForeignKey::new().name(n).from_tbl(a("t")).from_col(a("c")).to_tbl(a("u")).to_col(a("d"))).to_string(B::default()));
    pos!("rename_table_from", B => Table::rename().table(a(n), a("u")).to_string(B::default()));
    pos!("rename_table_to", B => Table::rename().table(a("t"), a(n)).to_string(B::default()));
    pos!("drop_table", B => Table::drop().table(a(n)).to_string(B::default()));
    pos!("truncate_table", B => Table::truncate().table(a(n)).to_string(B::default()));
    only!("pg_type_create_name", "pg", Type::create().as_enum(a(n)).values([a("k1")]).to_string(PostgresQueryBuilder));
    only!("pg_type_drop_name", "pg", Type::drop().name(a(n)).to_string(PostgresQueryBuilder));
    only!("pg_type_alter_name", "pg", Type::alter().name(a(n)).add_value(a("k2")).to_string(PostgresQueryBuilder));
    only!("pg_type_schema_name", "pg", Type::create().as_enum((a("s"), a(n))).values([a("k1")]).to_string(PostgresQueryBuilder));
    J::Object(o)
}

pub fn ident(c: &J) -> J {
    let n = s(c, "n");
    let mut r = json!({"id": c["id"], "n": n, "pos": positions(&n)});
    // Iden::quoted / prepare directly, for the three quote characters
    let al = Alias::new(&n);
    let mut q = serde_json::Map::new();
    for (name, ch) in [("backtick", b'`'), ("dquote", b'"'), ("bracket", b'[')] {
        let quote: Quote = if ch == b'[' { ('[', ']').into() } else { Quote::new(ch) };
        q.insert(name.to_string(), guarded(|| {
            let mut s = String::new();
            al.prepare(&mut s, quote);
            json!(s)
        }));
    }
    r["prepare"] = J::Object(q);
    r
}
