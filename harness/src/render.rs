//! Raw observations of a query statement: every public rendering entry point
//! on every backend, plus the write/push_param event stream obtained through
//! the public SqlWriter trait (no change to sea-query needed).
use crate::per_backend;
use crate::stmt::AnyStmt;
use crate::val::from_value;
use sea_query::*;
use serde_json::{json, Value as J};
use std::fmt::Write;

/// A SqlWriter that forwards to a real SqlWriterValues and logs the events.
pub struct RecordingWriter {
    inner: SqlWriterValues,
    pub events: Vec<J>,
    pending: String,
}

impl RecordingWriter {
    pub fn new(placeholder: &str, numbered: bool) -> Self {
        Self { inner: SqlWriterValues::new(placeholder, numbered), events: vec![], pending: String::new() }
    }
    fn flush(&mut self) {
        if !self.pending.is_empty() {
            let p = std::mem::take(&mut self.pending);
            self.events.push(json!({"w": p}));
        }
    }
    pub fn finish(mut self) -> (Vec<J>, String, Values) {
        self.flush();
        let (s, v) = self.inner.into_parts();
        (self.events, s, v)
    }
}

impl Write for RecordingWriter {
    fn write_str(&mut self, s: &str) -> std::fmt::Result {
        self.pending.push_str(s);
        self.inner.write_str(s)
    }
}

impl std::fmt::Display for RecordingWriter {
    fn fmt(&self, f: &mut std::fmt::Formatter<'_>) -> std::fmt::Result {
        write!(f, "{}", self.inner)
    }
}

impl SqlWriter for RecordingWriter {
    fn push_param(&mut self, value: Value, qb: &dyn QueryBuilder) {
        self.flush();
        let before = self.inner.to_string().len();
        self.inner.push_param(value.clone(), qb);
        let after = self.inner.to_string();
        self.events.push(json!({"p": from_value(&value), "mark": &after[before..]}));
    }
    fn as_writer(&mut self) -> &mut dyn Write {
        self as _
    }
}

fn vals(v: &Values) -> J {
    J::Array(v.0.iter().map(from_value).collect())
}

pub fn observe_one<S: QueryStatementWriter, B: QueryBuilder + Default>(s: &S, events: bool) -> J {
    let inline = s.to_string(B::default());
    let (sql, values) = s.build(B::default());
    let (sql_any, values_any) = s.build_any(&B::default());
    let (ph, numbered) = { let b = B::default(); let (p, n) = b.placeholder(); (p.to_string(), n) };
    let mut w1 = SqlWriterValues::new(ph.clone(), numbered);
    let collect_sql = s.build_collect(B::default(), &mut w1);
    let (_, collect_values) = w1.into_parts();
    let mut w2 = SqlWriterValues::new(ph.clone(), numbered);
    let collect_any_sql = s.build_collect_any(&B::default(), &mut w2);
    let mut w3 = String::new();
    let collect_string = s.build_collect(B::default(), &mut w3);
    let mut w4 = SqlWriterValues::new(ph.clone(), numbered);
    s.build_collect_any_into(&B::default(), &mut w4);
    let (into_sql, into_values) = w4.into_parts();
    let mut w5 = String::new();
    s.build_collect_any_into(&B::default(), &mut w5);
    let inline2 = s.to_string(B::default());
    let mut o = json!({
        "collect_any_into_sql": into_sql, "collect_any_into_values": vals(&into_values), "collect_any_into_string": w5,
        "inline": inline, "inline_again": inline2,
        "sql": sql, "values": vals(&values),
        "lits": values.0.iter().map(|v| B::default().value_to_string(v)).collect::<Vec<String>>(),
        "sql_any": sql_any, "values_any": vals(&values_any),
        "collect_sql": collect_sql, "collect_values": vals(&collect_values),
        "collect_any_sql": collect_any_sql, "collect_string": collect_string,
    });
    if events {
        let mut rw = RecordingWriter::new(&ph, numbered);
        s.build_collect_into(B::default(), &mut rw);
        let (ev, s2, v2) = rw.finish();
        o["events"] = J::Array(ev);
        o["events_sql"] = json!(s2);
        o["events_values"] = vals(&v2);
    }
    o
}

pub fn observe_stmt<S: QueryStatementWriter>(s: &S, events: bool) -> J {
    per_backend!(B => observe_one::<S, B>(s, events))
}

pub fn observe(s: &AnyStmt, events: bool) -> J {
    match s {
        AnyStmt::Select(x) => observe_stmt(x, events),
        AnyStmt::Insert(x) => observe_stmt(x, events),
        AnyStmt::Update(x) => observe_stmt(x, events),
        AnyStmt::Delete(x) => observe_stmt(x, events),
        AnyStmt::With(x) => observe_stmt(x, events),
    }
}

/// inline rendering only (cheap), per backend
pub fn inline_only<S: QueryStatementWriter>(s: &S) -> J {
    per_backend!(B => json!(s.to_string(B::default())))
}
