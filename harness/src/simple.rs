//! Families over plain strings: tokenizer (C16), escape/unescape (C17).
use crate::util::*;
use sea_query::*;
use serde_json::{json, Value as J};

pub fn tok(c: &J) -> J {
    let text = s(c, "s");
    let cap = text.chars().count() + 2;
    let obs = guarded(|| {
        let toks: Vec<Token> = Tokenizer::new(&text).iter().take(cap).collect();
        let list: Vec<J> = toks
            .iter()
            .map(|t| {
                let k = match t {
                    Token::Quoted(_) => "Quoted",
                    Token::Unquoted(_) => "Unquoted",
                    Token::Space(_) => "Space",
                    Token::Punctuation(_) => "Punctuation",
                };
                let u = t.unquote();
                json!({"k": k, "t": t.as_str(), "u": u.clone().unwrap_or_default(), "hu": u.is_some()})
            })
            .collect();
        json!({"toks": list})
    });
    json!({"id": c["id"], "s": text, "al": alnum_flags(&text), "obs": obs})
}

pub fn esc(c: &J) -> J {
    let text = s(c, "s");
    let mut o = serde_json::Map::new();
    for b in ["mysql", "pg", "sqlite"] {
        let r = guarded(|| {
            let (e, u) = match b {
                "mysql" => {
                    let e = MysqlQueryBuilder.escape_string(&text);
                    let u = MysqlQueryBuilder.unescape_string(&e);
                    (e, u)
                }
                "pg" => {
                    let e = PostgresQueryBuilder.escape_string(&text);
                    let u = PostgresQueryBuilder.unescape_string(&e);
                    (e, u)
                }
                _ => {
                    let e = SqliteQueryBuilder.escape_string(&text);
                    let u = SqliteQueryBuilder.unescape_string(&e);
                    (e, u)
                }
            };
            json!({"e": e, "u": u})
        });
        o.insert(b.to_string(), r);
    }
    json!({"id": c["id"], "s": text, "obs": J::Object(o)})
}
