//! C05 / C06 families: expressions and conditions placed in statements.
use crate::expr;
use crate::render::*;
use crate::stmt;
use crate::util::guarded;
use sea_query::*;
use serde_json::{json, Value as J};

/// C05: {"id", "e": Expr} -> Query::select().expr(e) rendered inline on 3 backends
pub fn exprcase(c: &J) -> J {
    let built = guarded(|| {
        let e = expr::expr(&c["e"]);
        let q = Query::select().expr(e).to_owned();
        inline_only(&q)
    });
    json!({"id": c["id"], "e": c["e"], "obs": built})
}

fn arg_of(call: &J) -> &J {
    if call.get("c").is_some() { &call["c"] } else { &call["e"] }
}

/// C06: {"id","stmt":"select"|"update"|"delete"|"having"|"join"|"case"|..., "calls":[{"op":"cond_where"|"and_where","c":..}]}
/// Applies the condition-adding calls one at a time, recording the rendering after each step.
pub fn condcase(c: &J) -> J {
    let place = c["stmt"].as_str().unwrap_or("select");
    let calls = c["calls"].as_array().unwrap();
    let mut steps: Vec<J> = vec![];
    let r = guarded(|| {
        match place {
            "select" | "having" | "having_plain" | "select_take" | "having_take" => {
                // *_take: every observation is made on the statement handed over by take() from a copy of the builder
                let taken = place.ends_with("_take");
                let place = place.trim_end_matches("_take");
                let obs_of = |s: &SelectStatement| if taken { inline_only(&s.clone().take()) } else { inline_only(s) };
                let mut s = Query::select();
                if place == "having_plain" {
                    // HAVING without GROUP BY (an aggregate query)
                    s.expr(Func::count(Expr::col(expr::a("id")))).from(expr::a("t"));
                } else {
                    s.column(expr::a("id")).from(expr::a("t"));
                }
                if place == "having" {
                    s.group_by_col(expr::a("id"));
                }
                steps.push(json!({"step": 0, "obs": obs_of(&s)}));
                for (i, call) in calls.iter().enumerate() {
                    let mut cc = call.clone();
                    if place != "select" {
                        let op = cc["op"].as_str().unwrap().replace("where", "having");
                        cc["op"] = json!(op);
                    }
                    stmt::apply_select(&mut s, &cc);
                    steps.push(json!({"step": i + 1, "obs": obs_of(&s)}));
                }
            }
            "update" | "update_from2" => {
                let mut s = Query::update();
                s.table(expr::a("t")).value(expr::a("x"), 1);
                if place == "update_from2" {
                    s.from(expr::a("u")).from(expr::a("v"));
                }
                steps.push(json!({"step": 0, "obs": inline_only(&s)}));
                for (i, call) in calls.iter().enumerate() {
                    stmt::apply_update(&mut s, call);
                    steps.push(json!({"step": i + 1, "obs": inline_only(&s)}));
                }
            }
            "delete" => {
                let mut s = Query::delete();
                s.from_table(expr::a("t"));
                steps.push(json!({"step": 0, "obs": inline_only(&s)}));
                for (i, call) in calls.iter().enumerate() {
                    stmt::apply_delete(&mut s, call);
                    steps.push(json!({"step": i + 1, "obs": inline_only(&s)}));
                }
            }
            "join" => {
                // a single supplied condition as JOIN ... ON
                for (i, call) in calls.iter().enumerate() {
                    let mut s = Query::select();
                    s.column(expr::a("id")).from(expr::a("t"));
                    s.join(JoinType::InnerJoin, expr::a("u"), expr::cond(arg_of(call)));
                    steps.push(json!({"step": i + 1, "single": true, "obs": inline_only(&s)}));
                }
            }
            "case" => {
                for (i, call) in calls.iter().enumerate() {
                    let cs = CaseStatement::new().case(expr::cond(arg_of(call)), 1).finally(0);
                    let mut s = Query::select();
                    s.expr(cs).from(expr::a("t"));
                    steps.push(json!({"step": i + 1, "single": true, "obs": inline_only(&s)}));
                }
            }
            "conflict" | "conflict_target" => {
                // the conditions of ON CONFLICT .. [WHERE target] DO UPDATE .. [WHERE action], call by call
                let mut oc = OnConflict::column(expr::a("id"));
                oc.update_column(expr::a("x"));
                let action = place == "conflict";
                let render = |oc: &OnConflict| {
                    let mut s = Query::insert();
                    s.into_table(expr::a("t")).columns([expr::a("id"), expr::a("x")]).values_panic([1.into(), 2.into()]).on_conflict(oc.clone());
                    inline_only(&s)
                };
                steps.push(json!({"step": 0, "obs": render(&oc)}));
                for (i, call) in calls.iter().enumerate() {
                    match (call["op"].as_str().unwrap(), action) {
                        ("and_where", true) => { oc.action_and_where(expr::expr(&call["e"])); }
                        ("and_where", false) => { oc.target_and_where(expr::expr(&call["e"])); }
                        ("and_where_option", true) => { oc.action_and_where_option(Some(expr::expr(&call["e"]))); }
                        ("and_where_option", false) => { oc.target_and_where_option(Some(expr::expr(&call["e"]))); }
                        ("cond_where", true) => { oc.action_cond_where(expr::cond(&call["c"])); }
                        ("cond_where", false) => { oc.target_cond_where(expr::cond(&call["c"])); }
                        (o, _) => panic!("case error: unknown on-conflict call {o}"),
                    }
                    steps.push(json!({"step": i + 1, "obs": render(&oc)}));
                }
            }
            _ => panic!("place"),
        }
        J::Null
    });
    let mut out = json!({"id": c["id"], "stmt": place, "calls": c["calls"], "steps": steps});
    if r.get("panic").is_some() {
        out["panic"] = r;
    }
    out
}

/// C10: {"id","calls":[insert ops]} applied one at a time on Query::insert().into_table(t);
/// per step: the call's Result (or panic), whether the statement still equals the clone
/// taken before the call, and the three inline renderings (or panic).
pub fn inscase(c: &J) -> J {
    let calls = c["calls"].as_array().unwrap();
    let mut s = Query::insert();
    s.into_table(expr::a("t"));
    let mut steps: Vec<J> = vec![];
    for (i, call) in calls.iter().enumerate() {
        let before = s.clone();
        let res = guarded(|| stmt::apply_insert(&mut s, call));
        let unchanged = s == before;
        steps.push(json!({"step": i + 1, "res": res, "unchanged": unchanged, "obs": inline_only(&s)}));
    }
    json!({"id": c["id"], "calls": c["calls"], "steps": steps})
}

/// C11: {"id","tpl": string, "vals":[Value]} -> cust_with_values rendered inline and
/// parameterised on 3 backends, the literal of every value, and inject_parameters of the build.
pub fn tplcase(c: &J) -> J {
    use crate::per_backend;
    use crate::util::alnum_flags;
    use crate::val::{from_value, to_value};
    let tpl = c["tpl"].as_str().unwrap().to_string();
    if let Some(es) = c.get("exprs").and_then(|x| x.as_array()) {
        // cust_with_expr / cust_with_exprs with value-free expressions; their stand-alone renderings are the literals
        let es: Vec<SimpleExpr> = es.iter().map(expr::expr).collect();
        let lits = {
            let es = es.clone();
            per_backend!(B => json!(es.iter().map(|e| {
                let s = Query::select().expr(e.clone()).to_string(B::default());
                s.strip_prefix("SELECT ").unwrap_or(&s).to_string()
            }).collect::<Vec<String>>()))
        };
        let (t2, e2) = (tpl.clone(), es.clone());
        let single = c["single"].as_bool().unwrap_or(false) && es.len() == 1;
        let obs = per_backend!(B => {
            let ce = if single { Expr::cust_with_expr(t2.clone(), e2[0].clone()) } else { Expr::cust_with_exprs(t2.clone(), e2.clone()) };
            let q = Query::select().expr(ce).to_owned();
            let inline = q.to_string(B::default());
            let (sql, values) = q.build(B::default());
            let inj = guarded(|| json!(inject_parameters(&sql, values.0.clone(), &B::default())));
            json!({"inline": inline, "sql": sql, "al_sql": alnum_flags(&sql),
                   "values": values.0.iter().map(from_value).collect::<Vec<J>>(), "inject": inj})
        });
        return json!({"id": c["id"], "tpl": tpl, "al": alnum_flags(&tpl), "vals": [], "mode": "exprs", "nexprs": es.len(), "exprs": c["exprs"], "single": single, "lits": lits, "obs": obs});
    }
    let vals: Vec<Value> = c["vals"].as_array().unwrap().iter().map(to_value).collect();
    let lits = {
        let vals = vals.clone();
        per_backend!(B => json!(vals.iter().map(|v| B::default().value_to_string(v)).collect::<Vec<String>>()))
    };
    let t2 = tpl.clone();
    let v2 = vals.clone();
    let obs = per_backend!(B => {
        let q = Query::select().expr(Expr::cust_with_values(t2.clone(), v2.clone())).to_owned();
        let inline = q.to_string(B::default());
        let (sql, values) = q.build(B::default());
        let inj = guarded(|| json!(inject_parameters(&sql, values.0.clone(), &B::default())));
        json!({"inline": inline, "sql": sql, "al_sql": alnum_flags(&sql),
               "values": values.0.iter().map(from_value).collect::<Vec<J>>(), "inject": inj})
    });
    json!({"id": c["id"], "tpl": tpl, "al": alnum_flags(&tpl), "vals": c["vals"], "mode": "values", "nexprs": 0, "lits": lits, "obs": obs})
}

/// C01/C02/C07/C08/C09: {"id","stmt":{kind,calls}} -> every rendering entry point on every
/// backend, the SqlWriter event stream, inject_parameters, `==` before/after rendering.
pub fn stmtcase(c: &J) -> J {
    use crate::render::observe;
    let built = guarded(|| {
        let s = stmt::any(&c["stmt"]);
        let before = stmt::any(&c["stmt"]);
        let mut o = observe(&s, true);
        o["eq_after"] = json!(stmt::any_eq(&s, &before));
        // statement unchanged by rendering; inject_parameters of the build
        for b in ["mysql", "pg", "sqlite"] {
            if let Some(r) = o[b].get_mut("r") {
                let sql = r["sql"].as_str().unwrap_or("").to_string();
                let vals: Vec<Value> = r["values"].as_array().map(|v| v.iter().map(crate::val::to_value).collect()).unwrap_or_default();
                let inj = guarded(|| match b {
                    "mysql" => json!(inject_parameters(&sql, vals.clone(), &MysqlQueryBuilder)),
                    "pg" => json!(inject_parameters(&sql, vals.clone(), &PostgresQueryBuilder)),
                    _ => json!(inject_parameters(&sql, vals.clone(), &SqliteQueryBuilder)),
                });
                r["inject"] = inj;
            }
        }
        o
    });
    json!({"id": c["id"], "stmt": c["stmt"], "obs": built})
}

/// C15: two registers of SelectStatement. {"id","calls":[call...], "refs": {step: [calls]}}; a call may carry
/// "reg": 2 to address the second register; special ops: take (s2 = s1.take()), clone (s2 = s1.clone()).
/// A builder that offers take / clone / clear operations (C15).
pub trait Reg: Clone + PartialEq {
    fn fresh() -> Self;
    fn apply(&mut self, c: &J);
    fn take_(&mut self) -> Self;
    fn render(&self) -> J;
}
impl Reg for SelectStatement {
    fn fresh() -> Self { SelectStatement::new() }
    fn apply(&mut self, c: &J) { stmt::apply_select(self, c) }
    fn take_(&mut self) -> Self { self.take() }
    fn render(&self) -> J { inline_only(self) }
}
impl Reg for UpdateStatement {
    fn fresh() -> Self { UpdateStatement::new() }
    fn apply(&mut self, c: &J) { stmt::apply_update(self, c) }
    fn take_(&mut self) -> Self { panic!("UpdateStatement has no take()") }
    fn render(&self) -> J { inline_only(self) }
}
impl Reg for DeleteStatement {
    fn fresh() -> Self { DeleteStatement::new() }
    fn apply(&mut self, c: &J) { stmt::apply_delete(self, c) }
    fn take_(&mut self) -> Self { panic!("DeleteStatement has no take()") }
    fn render(&self) -> J { inline_only(self) }
}
impl Reg for WindowStatement {
    fn fresh() -> Self { WindowStatement::new() }
    fn apply(&mut self, c: &J) { stmt::apply_window(self, c) }
    fn take_(&mut self) -> Self { self.take() }
    fn render(&self) -> J {
        inline_only(Query::select().expr_window(Func::sum(Expr::col(Alias::new("a"))), self.clone()).from(Alias::new("t1")))
    }
}

pub fn histcase(c: &J) -> J {
    match c.get("kind").and_then(|k| k.as_str()).unwrap_or("select") {
        "select" => hist_of::<SelectStatement>(c, "select"),
        "update" => hist_of::<UpdateStatement>(c, "update"),
        "delete" => hist_of::<DeleteStatement>(c, "delete"),
        "window" => hist_of::<WindowStatement>(c, "window"),
        k => panic!("hist kind {k}"),
    }
}

fn hist_of<R: Reg>(c: &J, kind: &str) -> J {
    let calls = c["calls"].as_array().unwrap();
    let mut s1 = R::fresh();
    let mut s2 = R::fresh();
    let mut steps: Vec<J> = vec![];
    let r = guarded(|| {
        for (i, call) in calls.iter().enumerate() {
            let op = call["op"].as_str().unwrap();
            let snap1 = s1.clone();
            let snap2 = s2.clone();
            let mut o = json!({"step": i + 1, "op": op});
            match op {
                "take" => {
                    let pre = s1.clone();
                    let pre_r = pre.render();
                    let taken = s1.take_();
                    o["taken_eq_pre"] = json!(taken == pre);
                    o["left_eq_new"] = json!(s1 == R::fresh());
                    o["render_pre"] = pre_r;
                    o["render_taken"] = taken.render();
                    s2 = taken;
                }
                "clone" => {
                    s2 = s1.clone();
                    o["clone_eq"] = json!(s2 == s1);
                }
                _ => {
                    if call["reg"].as_u64() == Some(2) {
                        s2.apply(call);
                        o["other_unchanged"] = json!(s1 == snap1);
                    } else {
                        s1.apply(call);
                        o["other_unchanged"] = json!(s2 == snap2);
                    }
                }
            }
            o["r1"] = s1.render();
            o["r2"] = s2.render();
            o["eq12"] = json!(s1 == s2);
            if let Some(refcalls) = c["refs"].get((i + 1).to_string()) {
                let mut rs = R::fresh();
                for rc in refcalls.as_array().unwrap() {
                    rs.apply(rc);
                }
                o["ref"] = rs.render();
                o["ref_eq"] = json!(rs == s1);
            }
            steps.push(o);
        }
        J::Null
    });
    let mut out = json!({"id": c["id"], "kind": kind, "calls": c["calls"], "refs": c["refs"], "steps": steps});
    if r.get("panic").is_some() {
        out["panic"] = r;
    }
    out
}
