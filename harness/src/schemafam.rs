//! C13 / C14 (and take() of schema statements for C15): JSON declarations -> schema statement builders.
use crate::expr::{a, expr, st};
use crate::per_backend;
use crate::util::guarded;
use crate::val::to_value;
use sea_query::extension::postgres::Type;
use sea_query::*;
use serde_json::{json, Value as J};

pub fn column_type(j: &J) -> ColumnType {
    let k = j["k"].as_str().unwrap();
    let n = |f: &str| j.get(f).and_then(|x| x.as_u64()).map(|x| x as u32);
    match k {
        "Char" => ColumnType::Char(n("n")),
        "String" => ColumnType::String(match n("n") { Some(x) => StringLen::N(x), None => if j["max"].as_bool().unwrap_or(false) { StringLen::Max } else { StringLen::None } }),
        "Text" => ColumnType::Text,
        "Blob" => ColumnType::Blob,
        "TinyInteger" => ColumnType::TinyInteger,
        "SmallInteger" => ColumnType::SmallInteger,
        "Integer" => ColumnType::Integer,
        "BigInteger" => ColumnType::BigInteger,
        "TinyUnsigned" => ColumnType::TinyUnsigned,
        "SmallUnsigned" => ColumnType::SmallUnsigned,
        "Unsigned" => ColumnType::Unsigned,
        "BigUnsigned" => ColumnType::BigUnsigned,
        "Float" => ColumnType::Float,
        "Double" => ColumnType::Double,
        "Decimal" => ColumnType::Decimal(match (n("p"), n("s")) { (Some(p), Some(s)) => Some((p, s)), _ => None }),
        "DateTime" => ColumnType::DateTime,
        "Timestamp" => ColumnType::Timestamp,
        "TimestampWithTimeZone" => ColumnType::TimestampWithTimeZone,
        "Time" => ColumnType::Time,
        "Date" => ColumnType::Date,
        "Year" => ColumnType::Year,
        "Binary" => ColumnType::Binary(n("n").unwrap_or(1)),
        "VarBinary" => ColumnType::VarBinary(match n("n") { Some(x) => StringLen::N(x), None => StringLen::None }),
        "Bit" => ColumnType::Bit(n("n")),
        "VarBit" => ColumnType::VarBit(n("n").unwrap_or(1)),
        "Boolean" => ColumnType::Boolean,
        "Money" => ColumnType::Money(match (n("p"), n("s")) { (Some(p), Some(s)) => Some((p, s)), _ => None }),
        "Json" => ColumnType::Json,
        "JsonBinary" => ColumnType::JsonBinary,
        "Uuid" => ColumnType::Uuid,
        "Custom" => ColumnType::custom(j["name"].as_str().unwrap()),
        "Enum" => ColumnType::Enum { name: a(j["name"].as_str().unwrap()).into_iden(), variants: j["variants"].as_array().unwrap().iter().map(|v| a(v.as_str().unwrap()).into_iden()).collect() },
        "Array" => ColumnType::Array(std::sync::Arc::new(column_type(&j["elem"])).into_rc_or_arc()),
        "Cidr" => ColumnType::Cidr,
        "Inet" => ColumnType::Inet,
        "MacAddr" => ColumnType::MacAddr,
        "LTree" => ColumnType::LTree,
        "Interval" => ColumnType::Interval(None, n("n")),
        "Vector" => ColumnType::Vector(n("n")),
        other => panic!("column type {other}"),
    }
}

trait IntoRcOrArc {
    fn into_rc_or_arc(self) -> RcOrArc<ColumnType>;
}
impl IntoRcOrArc for std::sync::Arc<ColumnType> {
    fn into_rc_or_arc(self) -> RcOrArc<ColumnType> {
        RcOrArc::new((*self).clone())
    }
}

fn column_type_method(c: &mut ColumnDef, m: &str, t: &J) {
    let n = |f: &str| t.get(f).and_then(|x| x.as_u64()).map(|x| x as u32);
    let must = |f: &str| n(f).unwrap_or_else(|| panic!("case error: method {m} needs {f}"));
    match m {
        "char_len" => { c.char_len(must("n")); } "char" => { c.char(); }
        "string_len" => { c.string_len(must("n")); } "string" => { c.string(); } "text" => { c.text(); }
        "tiny_integer" => { c.tiny_integer(); } "small_integer" => { c.small_integer(); } "integer" => { c.integer(); } "big_integer" => { c.big_integer(); }
        "tiny_unsigned" => { c.tiny_unsigned(); } "small_unsigned" => { c.small_unsigned(); } "unsigned" => { c.unsigned(); } "big_unsigned" => { c.big_unsigned(); }
        "float" => { c.float(); } "double" => { c.double(); }
        "decimal_len" => { c.decimal_len(must("p"), must("s")); } "decimal" => { c.decimal(); }
        "date_time" => { c.date_time(); } "interval" => { c.interval(None, n("n")); }
        "timestamp" => { c.timestamp(); } "timestamp_with_time_zone" => { c.timestamp_with_time_zone(); }
        "time" => { c.time(); } "date" => { c.date(); } "year" => { c.year(); }
        "binary_len" => { c.binary_len(must("n")); } "binary" => { c.binary(); } "var_binary" => { c.var_binary(must("n")); }
        "bit" => { c.bit(n("n")); } "varbit" => { c.varbit(must("n")); } "blob" => { c.blob(); } "boolean" => { c.boolean(); }
        "money_len" => { c.money_len(must("p"), must("s")); } "money" => { c.money(); }
        "json" => { c.json(); } "json_binary" => { c.json_binary(); } "uuid" => { c.uuid(); }
        "custom" => { c.custom(a(t["name"].as_str().unwrap())); }
        "enumeration" => { c.enumeration(a(t["name"].as_str().unwrap()), t["variants"].as_array().unwrap().iter().map(|v| a(v.as_str().unwrap())).collect::<Vec<_>>()); }
        "array" => { c.array(column_type(&t["elem"])); }
        "cidr" => { c.cidr(); } "inet" => { c.inet(); } "mac_address" => { c.mac_address(); } "ltree" => { c.ltree(); }
        other => panic!("case error: unknown ColumnDef method {other}"),
    }
}

pub fn column_def(j: &J) -> ColumnDef {
    let mut c = match (j.get("type"), j.get("m").and_then(|m| m.as_str())) {
        // "m": set the type through the named ColumnDef method, with the declared type's parameters as arguments
        (Some(t), Some(m)) if !t.is_null() => { let mut c = ColumnDef::new(a(&st(j, "name"))); column_type_method(&mut c, m, t); c }
        (Some(t), None) if !t.is_null() => ColumnDef::new_with_type(a(&st(j, "name")), column_type(t)),
        _ => ColumnDef::new(a(&st(j, "name"))),
    };
    for s in j["specs"].as_array().map(|v| v.as_slice()).unwrap_or(&[]) {
        match s["k"].as_str().unwrap() {
            "NotNull" => { c.not_null(); }
            "Null" => { c.null(); }
            "Default" => { c.default(to_value(&s["v"])); }
            "DefaultExpr" => { c.default(expr(&s["e"])); }
            "AutoIncrement" => { c.auto_increment(); }
            "Unique" => { c.unique_key(); }
            "PrimaryKey" => { c.primary_key(); }
            "Check" => { c.check(expr(&s["e"])); }
            "Comment" => { c.comment(st(s, "s")); }
            "Generated" => { c.generated(expr(&s["e"]), s["stored"].as_bool().unwrap_or(true)); }
            other => panic!("column spec {other}"),
        }
    }
    c
}

fn index_col(i: &mut IndexCreateStatement, c: &J) {
    let n = a(c["n"].as_str().unwrap());
    let p = c.get("p").and_then(|x| x.as_u64()).map(|x| x as u32);
    match (c.get("o").and_then(|x| x.as_str()), p) {
        (Some("Asc"), None) => { i.col((n, IndexOrder::Asc)); }
        (Some("Desc"), None) => { i.col((n, IndexOrder::Desc)); }
        (Some("Asc"), Some(p)) => { i.col((n, p, IndexOrder::Asc)); }
        (Some("Desc"), Some(p)) => { i.col((n, p, IndexOrder::Desc)); }
        (_, Some(p)) => { i.col((n, p)); }
        _ => { i.col(n); }
    }
}

pub fn index_create(j: &J) -> IndexCreateStatement {
    let mut i = Index::create();
    if let Some(n) = j.get("name").and_then(|x| x.as_str()) { i.name(n); }
    if let Some(t) = j.get("table").and_then(|x| x.as_str()) { i.table(a(t)); }
    for c in j["cols"].as_array().unwrap() { index_col(&mut i, c); }
    if j["unique"].as_bool().unwrap_or(false) { i.unique(); }
    if j["primary"].as_bool().unwrap_or(false) { i.primary(); }
    if j["if_not_exists"].as_bool().unwrap_or(false) { i.if_not_exists(); }
    if j["full_text"].as_bool().unwrap_or(false) { i.full_text(); }
    if j["nulls_not_distinct"].as_bool().unwrap_or(false) { i.nulls_not_distinct(); }
    for c in j.get("include").and_then(|x| x.as_array()).map(|v| v.as_slice()).unwrap_or(&[]) { i.include(a(c.as_str().unwrap())); }
    // "wheres": the predicate given in several and_where calls ("where" is their conjunction)
    if let Some(ws) = j.get("wheres").and_then(|x| x.as_array()) { for w in ws { i.and_where(expr(w)); } }
    else if let Some(w) = j.get("where").filter(|x| !x.is_null()) { i.and_where(expr(w)); }
    match j.get("index_type").and_then(|x| x.as_str()) {
        Some("BTree") => { i.index_type(IndexType::BTree); }
        Some("Hash") => { i.index_type(IndexType::Hash); }
        Some("FullText") => { i.index_type(IndexType::FullText); }
        _ => {}
    }
    i
}

fn fk_action(s: &str) -> ForeignKeyAction {
    match s {
        "Restrict" => ForeignKeyAction::Restrict, "Cascade" => ForeignKeyAction::Cascade, "SetNull" => ForeignKeyAction::SetNull,
        "NoAction" => ForeignKeyAction::NoAction, "SetDefault" => ForeignKeyAction::SetDefault, _ => panic!("fk action"),
    }
}

pub fn fk_create(j: &J) -> ForeignKeyCreateStatement {
    let mut f = ForeignKey::create();
    if let Some(n) = j.get("name").and_then(|x| x.as_str()) { f.name(n); }
    f.from_tbl(a(&st(j, "from_table")));
    for c in j["from_cols"].as_array().unwrap() { f.from_col(a(c.as_str().unwrap())); }
    f.to_tbl(a(&st(j, "to_table")));
    for c in j["to_cols"].as_array().unwrap() { f.to_col(a(c.as_str().unwrap())); }
    if let Some(x) = j.get("on_delete").and_then(|x| x.as_str()) { f.on_delete(fk_action(x)); }
    if let Some(x) = j.get("on_update").and_then(|x| x.as_str()) { f.on_update(fk_action(x)); }
    f
}

fn table_fk(j: &J) -> TableForeignKey {
    let mut f = TableForeignKey::new();
    if let Some(n) = j.get("name").and_then(|x| x.as_str()) { f.name(n); }
    f.from_tbl(a(&st(j, "from_table")));
    for c in j["from_cols"].as_array().unwrap() { f.from_col(a(c.as_str().unwrap())); }
    f.to_tbl(a(&st(j, "to_table")));
    for c in j["to_cols"].as_array().unwrap() { f.to_col(a(c.as_str().unwrap())); }
    if let Some(x) = j.get("on_delete").and_then(|x| x.as_str()) { f.on_delete(fk_action(x)); }
    if let Some(x) = j.get("on_update").and_then(|x| x.as_str()) { f.on_update(fk_action(x)); }
    f
}

pub fn table_create(j: &J) -> TableCreateStatement {
    let mut t = Table::create();
    t.table(a(&st(j, "table")));
    if j["if_not_exists"].as_bool().unwrap_or(false) { t.if_not_exists(); }
    if j["temporary"].as_bool().unwrap_or(false) { t.temporary(); }
    // columns alternately by value and through `&mut ColumnDef` (which goes through ColumnDef::take)
    for (k, c) in j["cols"].as_array().unwrap().iter().enumerate() {
        if k % 2 == 0 { t.col(&mut column_def(c)); } else { t.col(column_def(c)); }
    }
    for i in j.get("indexes").and_then(|x| x.as_array()).map(|v| v.as_slice()).unwrap_or(&[]) {
        let mut ic = index_create(i);
        if i["primary"].as_bool().unwrap_or(false) { t.primary_key(&mut ic); } else { t.index(&mut ic); }
    }
    for f in j.get("fks").and_then(|x| x.as_array()).map(|v| v.as_slice()).unwrap_or(&[]) { t.foreign_key(&mut fk_create(f)); }
    for c in j.get("checks").and_then(|x| x.as_array()).map(|v| v.as_slice()).unwrap_or(&[]) { t.check(expr(c)); }
    if let Some(c) = j.get("comment").and_then(|x| x.as_str()) { t.comment(c); }
    if let Some(c) = j.get("engine").and_then(|x| x.as_str()) { t.engine(c); }
    if let Some(c) = j.get("collate").and_then(|x| x.as_str()) { t.collate(c); }
    if let Some(c) = j.get("character_set").and_then(|x| x.as_str()) { t.character_set(c); }
    t
}

pub fn table_alter(j: &J) -> TableAlterStatement {
    let mut t = Table::alter();
    t.table(a(&st(j, "table")));
    for o in j["ops"].as_array().unwrap() {
        match o["k"].as_str().unwrap() {
            "add_column" => { t.add_column(column_def(&o["col"])); }
            "add_column_if_not_exists" => { t.add_column_if_not_exists(column_def(&o["col"])); }
            "modify_column" => { t.modify_column(column_def(&o["col"])); }
            "rename_column" => { t.rename_column(a(&st(o, "from")), a(&st(o, "to"))); }
            "drop_column" => { t.drop_column(a(&st(o, "name"))); }
            "add_fk" => { t.add_foreign_key(&table_fk(&o["fk"])); }
            "drop_fk" => { t.drop_foreign_key(a(&st(o, "name"))); }
            other => panic!("alter op {other}"),
        }
    }
    t
}

/// One schema statement as {"stmt": kind, ...}; rendered on the three backends (panics are data); for the
/// builders that have take(): the taken statement's Debug and renderings against the statement before.
pub fn render_schema(j: &J) -> J {
    macro_rules! obs {
        ($build:expr) => {{
            let r = per_backend!(B => json!($build.to_string(B::default())));
            r
        }};
    }
    macro_rules! obs_take {
        ($build:expr) => {{
            let r = per_backend!(B => json!($build.to_string(B::default())));
            let tk = guarded(|| {
                let mut s = $build;
                let pre_dbg = format!("{:?}", s);
                let taken = s.take();
                let taken_dbg = format!("{:?}", taken);
                let same_render = per_backend!(B => json!(taken.to_string(B::default())));
                json!({"dbg_equal": pre_dbg == taken_dbg, "render_taken": same_render})
            });
            (r, tk)
        }};
    }
    match j["stmt"].as_str().unwrap() {
        "table_create" => {
            let (r, tk) = obs_take!(table_create(j));
            // ColumnDef::take: the taken definition equals the one before
            let cols = guarded(|| {
                let mut all = true;
                for c in j["cols"].as_array().unwrap() {
                    let mut cd = column_def(c);
                    let pre = format!("{:?}", cd);
                    let taken = cd.take();
                    all &= pre == format!("{:?}", taken);
                }
                json!(all)
            });
            json!({"r": r, "take": tk, "coldef_take": cols})
        }
        "table_alter" => { let (r, tk) = obs_take!(table_alter(j)); json!({"r": r, "take": tk}) }
        "index_create" => { let (r, tk) = obs_take!(index_create(j)); json!({"r": r, "take": tk}) }
        "fk_create" => { let (r, tk) = obs_take!(fk_create(j)); json!({"r": r, "take": tk}) }
        "table_rename" => { let (r, tk) = obs_take!(Table::rename().table(a(&st(j, "from")), a(&st(j, "to"))).to_owned()); json!({"r": r, "take": tk}) }
        "table_drop" => {
            let mk = || { let mut d = Table::drop(); for t in j["tables"].as_array().unwrap() { d.table(a(t.as_str().unwrap())); } if j["if_exists"].as_bool().unwrap_or(false) { d.if_exists(); } if j["cascade"].as_bool().unwrap_or(false) { d.cascade(); } d };
            let (r, tk) = obs_take!(mk()); json!({"r": r, "take": tk})
        }
        "table_truncate" => { let (r, tk) = obs_take!(Table::truncate().table(a(&st(j, "table"))).to_owned()); json!({"r": r, "take": tk}) }
        "index_drop" => {
            let mk = || { let mut d = Index::drop(); d.name(st(j, "name")); if let Some(t) = j.get("table").and_then(|x| x.as_str()) { match j.get("schema").and_then(|x| x.as_str()) { Some(sc) => { d.table((a(sc), a(t))); } None => { d.table(a(t)); } } } if j["if_exists"].as_bool().unwrap_or(false) { d.if_exists(); } d };
            json!({"r": obs!(mk())})
        }
        "fk_drop" => json!({"r": obs!(ForeignKey::drop().name(st(j, "name")).table(a(&st(j, "table"))).to_owned())}),
        "type_create" => {
            let mk = || { let mut t = Type::create(); t.as_enum(a(&st(j, "name"))); t.values(j["values"].as_array().unwrap().iter().map(|v| a(v.as_str().unwrap())).collect::<Vec<_>>()); t };
            let mut m = serde_json::Map::new();
            m.insert("pg".into(), guarded(|| json!(mk().to_string(PostgresQueryBuilder))));
            json!({"r": J::Object(m)})
        }
        "type_drop" => {
            let mut m = serde_json::Map::new();
            m.insert("pg".into(), guarded(|| { let mut t = Type::drop(); t.name(a(&st(j, "name"))); if j["if_exists"].as_bool().unwrap_or(false) { t.if_exists(); } if j["cascade"].as_bool().unwrap_or(false) { t.cascade(); } json!(t.to_string(PostgresQueryBuilder)) }));
            json!({"r": J::Object(m)})
        }
        "extension_create" => {
            use sea_query::extension::postgres::Extension;
            let mut m = serde_json::Map::new();
            m.insert("pg".into(), guarded(|| {
                let mut e = Extension::create();
                e.name(st(j, "name"));
                if let Some(x) = j.get("schema").and_then(|x| x.as_str()) { e.schema(x); }
                if let Some(x) = j.get("version").and_then(|x| x.as_str()) { e.version(x); }
                if j["cascade"].as_bool().unwrap_or(false) { e.cascade(); }
                if j["if_not_exists"].as_bool().unwrap_or(false) { e.if_not_exists(); }
                json!(e.to_string(PostgresQueryBuilder))
            }));
            json!({"r": J::Object(m)})
        }
        "extension_drop" => {
            use sea_query::extension::postgres::Extension;
            let mut m = serde_json::Map::new();
            m.insert("pg".into(), guarded(|| {
                let mut e = Extension::drop();
                e.name(st(j, "name"));
                if j["if_exists"].as_bool().unwrap_or(false) { e.if_exists(); }
                if j["cascade"].as_bool().unwrap_or(false) { e.cascade(); }
                if j["restrict"].as_bool().unwrap_or(false) { e.restrict(); }
                json!(e.to_string(PostgresQueryBuilder))
            }));
            json!({"r": J::Object(m)})
        }
        "type_alter" => {
            let mut m = serde_json::Map::new();
            m.insert("pg".into(), guarded(|| {
                let t = Type::alter().name(a(&st(j, "name")));
                let s = match j["op"].as_str().unwrap() {
                    "add_value" => {
                        // IF NOT EXISTS is declared before or after the placement ("ine_first")
                        let ine = j["if_not_exists"].as_bool().unwrap_or(false);
                        let first = j["ine_first"].as_bool().unwrap_or(false);
                        let mut x = t.add_value(a(&st(j, "value")));
                        if ine && first { x = x.if_not_exists(); }
                        if let Some(b) = j.get("before").and_then(|x| x.as_str()) { x = x.before(a(b)); }
                        if let Some(b) = j.get("after").and_then(|x| x.as_str()) { x = x.after(a(b)); }
                        if ine && !first { x = x.if_not_exists(); }
                        x.to_string(PostgresQueryBuilder)
                    }
                    "rename_to" => t.rename_to(a(&st(j, "value"))).to_string(PostgresQueryBuilder),
                    "rename_value" => t.rename_value(a(&st(j, "value")), a(&st(j, "to"))).to_string(PostgresQueryBuilder),
                    other => panic!("type alter op {other}"),
                };
                json!(s)
            }));
            json!({"r": J::Object(m)})
        }
        other => panic!("schema stmt {other}"),
    }
}

/// {"id","history":[schema statements]} -> per statement the renderings
pub fn schemacase(c: &J) -> J {
    let hist = c["history"].as_array().unwrap();
    let steps: Vec<J> = hist.iter().map(|s| guarded(|| render_schema(s))).collect();
    json!({"id": c["id"], "history": c["history"], "steps": steps})
}
