#!/bin/bash
# usage: lib/run_all.sh [quick|thorough] [ID ...]   — runs the checks sequentially, one summary line each
cd /verif
TIER=${1:-quick}; shift
IDS="$@"; [ -z "$IDS" ] && IDS="C01 C02 C03 C04 C05 C06 C07 C08 C09 C10 C11 C12 C13 C14 C15 C16 C17 C18 C19"
OUT=/verif/.work/run_all_$TIER.txt; : > $OUT
for id in $IDS; do
  s=$(date +%s)
  ./check $id --tier $TIER > /verif/.work/run_all_${TIER}_$id.log 2>&1; rc=$?
  echo "$id rc=$rc wall=$(( $(date +%s) - s ))s violations=$(grep -c '^VIOLATION' /verif/.work/run_all_${TIER}_$id.log) known=$(grep -c '^KNOWN-FINDING' /verif/.work/run_all_${TIER}_$id.log)" >> $OUT
done
echo ALLDONE >> $OUT
