"""Shared infrastructure for the /verif checks: TLC runner, harness runner,
evidence writer, known-findings matcher.  Python 3 stdlib only."""
import json, os, re, subprocess, sys, time, hashlib, shutil

ROOT = os.path.dirname(os.path.dirname(os.path.abspath(__file__)))
WORK = os.path.join(ROOT, ".work")
SPEC = os.path.join(ROOT, "spec")
HARNESS = os.path.join(ROOT, "harness")
REPO = os.environ.get("VERIF_REPO", "/repo")
JAR = "/opt/veriftools/tla/tla2tools.jar:/opt/veriftools/tla/CommunityModules-deps.jar"

class ToolError(Exception):
    pass

def log(*a):
    print(*a, flush=True)

def seed():
    try:
        return int(os.environ.get("VERIF_SEED", "1"))
    except ValueError:
        return 1

def workdir(name):
    d = os.path.join(WORK, name)
    if os.path.isdir(d):
        shutil.rmtree(d, ignore_errors=True)
    os.makedirs(d, exist_ok=True)
    return d

# --------------------------------------------------------------------------
# TLC
# --------------------------------------------------------------------------
_LINE = re.compile(r'^<<"([A-Z]+)", (".*")>>$')

def decode_tla_string(lit):
    """A TLA+ string literal as printed by TLC uses the escapes \\" \\\\ \\t \\n
    \\r \\f, all of which are JSON escapes too."""
    return json.loads(lit)

class TlcResult:
    def __init__(self):
        self.lines = {}      # tag -> list of decoded payload strings
        self.generated = 0
        self.distinct = 0
        self.init_states = 0
        self.depth = 0
        self.ok = False
        self.violation = None
        self.raw_tail = []
        self.wall = 0.0
        self.coverage = {}
    def payloads(self, tag):
        return self.lines.get(tag, [])
    def json_payloads(self, tag):
        return [json.loads(x) for x in self.payloads(tag)]

def run_tlc(module, cfg, wd, env=None, workers=1, heap="2g", timeout=1800,
            simulate=None, depth=None, extra=None, coverage=False, young="64m",
            tseed=None, dfs=False):
    """Run TLC on spec/<module>.tla with config file cfg (absolute path or
    text).  Output lines of the form <<"TAG", "payload">> are collected."""
    os.makedirs(wd, exist_ok=True)
    if "\n" in cfg or not os.path.exists(cfg):
        cfgp = os.path.join(wd, module + ".cfg")
        with open(cfgp, "w") as f:
            f.write(cfg)
    else:
        cfgp = cfg
    java = ["java", "-XX:+UseSerialGC" if workers == 1 else "-XX:+UseParallelGC",
            "-Xms" + heap, "-Xmx" + heap, "-Xss512m",
            "-Dfile.encoding=UTF-8", "-Dstdout.encoding=UTF-8", "-Dsun.stdout.encoding=UTF-8",
            "-Djava.io.tmpdir=" + os.path.join(wd, "jtmp")]
    shutil.rmtree(os.path.join(wd, "jtmp"), ignore_errors=True)
    os.makedirs(os.path.join(wd, "jtmp"), exist_ok=True)
    if young:
        java.append("-Xmn" + young)
    if dfs:
        java.append("-Dtlc2.tool.queue.IStateQueue=StateDeque")
    java += ["-cp", JAR, "tlc2.TLC", "-workers", str(workers),
             "-metadir", os.path.join(wd, "states"), "-cleanup", "-noGenerateSpecTE",
             "-config", cfgp]
    if coverage:
        java += ["-coverage", "1"]
    if simulate:
        java += ["-simulate", simulate]
        if depth:
            java += ["-depth", str(depth)]
    if tseed is not None:
        java += ["-seed", str(tseed)]
    if extra:
        java += extra
    java.append(os.path.join(SPEC, module + ".tla"))
    e = dict(os.environ)
    e.pop("JAVA_TOOL_OPTIONS", None)
    if env:
        e.update({k: str(v) for k, v in env.items()})
    t0 = time.time()
    res = TlcResult()
    outp = os.path.join(wd, module + ".out")
    with open(outp, "w") as out:
        try:
            p = subprocess.run(java, cwd=SPEC, env=e, stdout=out, stderr=subprocess.STDOUT, timeout=timeout)
        except subprocess.TimeoutExpired:
            raise ToolError("TLC timed out on %s after %ds" % (module, timeout))
    res.wall = time.time() - t0
    shutil.rmtree(os.path.join(wd, "jtmp"), ignore_errors=True)
    tail = []
    with open(outp, encoding="utf-8", errors="replace") as f:
        for line in f:
            line = line.rstrip("\n")
            m = _LINE.match(line)
            if m:
                try:
                    res.lines.setdefault(m.group(1), []).append(decode_tla_string(m.group(2)))
                except Exception:
                    raise ToolError("undecodable TLC line: " + line[:200])
                continue
            tail.append(line)
            if len(tail) > 400:
                tail = tail[-300:]
            m = re.match(r'^(\d+) states generated, (\d+) distinct states found', line)
            if m:
                res.generated, res.distinct = int(m.group(1)), int(m.group(2))
            m = re.match(r'^Finished computing initial states: (\d+) distinct state', line)
            if m:
                res.init_states = int(m.group(1))
            m = re.match(r'^The depth of the complete state graph search is (\d+)', line)
            if m:
                res.depth = int(m.group(1))
            if "Model checking completed. No error has been found" in line:
                res.ok = True
            if line.startswith("Error:") and res.violation is None:
                res.violation = line
            m = re.match(r'^<(\w+) line \d+, col \d+ to line \d+, col \d+ of module (\w+)>: (\d+):(\d+)', line)
            if m:
                res.coverage[m.group(2) + "!" + m.group(1)] = int(m.group(4))
    res.raw_tail = tail
    res.returncode = p.returncode
    if simulate and p.returncode == 0:
        res.ok = True
    return res

def tlc_must_pass(res, what):
    if not res.ok:
        raise ToolError("%s: TLC did not complete cleanly (rc=%s): %s\n%s" % (
            what, getattr(res, "returncode", "?"), res.violation, "\n".join(res.raw_tail[-40:])))

# --------------------------------------------------------------------------
# Harness
# --------------------------------------------------------------------------
_built = {}

def build_harness(flavour="base"):
    """(Re)build the harness against /repo's current working tree."""
    if flavour in _built:
        return _built[flavour]
    lock = os.path.join(HARNESS, "Cargo.lock")
    if not os.path.exists(lock):
        shutil.copy(os.path.join(REPO, "Cargo.lock"), lock)
    tdir = os.path.join(HARNESS, "target", flavour)
    cmd = ["cargo", "build", "--offline", "--target-dir", tdir]
    if flavour == "full":
        cmd += ["--features", "full"]
    elif flavour == "exact":
        cmd += ["--features", "exact"]
    elif flavour == "paren":
        cmd += ["--features", "paren"]
    e = dict(os.environ)
    e["CARGO_NET_OFFLINE"] = "true"
    t0 = time.time()
    p = subprocess.run(cmd, cwd=HARNESS, env=e, stdout=subprocess.PIPE, stderr=subprocess.STDOUT, text=True)
    if p.returncode != 0:
        raise ToolError("harness build failed (%s):\n%s" % (flavour, p.stdout[-4000:]))
    exe = os.path.join(tdir, "debug", "sqv")
    _built[flavour] = exe
    log("[build] harness(%s) %.1fs" % (flavour, time.time() - t0))
    return exe

def run_harness(exe, family, inp, outp, timeout=1800, extra=None):
    cmd = [exe, family, inp, outp] + (extra or [])
    t0 = time.time()
    try:
        p = subprocess.run(cmd, stdout=subprocess.PIPE, stderr=subprocess.PIPE, text=True, timeout=timeout)
    except subprocess.TimeoutExpired:
        raise ToolError("harness %s timed out" % family)
    if p.returncode != 0:
        raise ToolError("harness %s failed rc=%d: %s" % (family, p.returncode, p.stderr[-3000:]))
    return time.time() - t0

def write_ndjson(path, records):
    with open(path, "w", encoding="utf-8") as f:
        for r in records:
            f.write(json.dumps(r, ensure_ascii=True, separators=(",", ":")))
            f.write("\n")

def read_ndjson(path):
    out = []
    with open(path, encoding="utf-8") as f:
        for line in f:
            line = line.strip()
            if line:
                out.append(json.loads(line))
    return out

# --------------------------------------------------------------------------
# Known findings, verdicts, evidence
# --------------------------------------------------------------------------
def load_known():
    p = os.path.join(ROOT, "known_findings.json")
    if not os.path.exists(p):
        return []
    with open(p) as f:
        return json.load(f)["findings"]

class Verdict:
    """Collects failing records (property-level) and decides the exit status."""
    def __init__(self, pid, tier):
        self.pid = pid
        self.tier = tier
        self.failing = []      # (key, record)
        self.notes = []
        self.known = load_known()
    def fail(self, key, record):
        self.failing.append((key, record))
    def note(self, s):
        self.notes.append(s)
        log(s)
    def finish(self):
        """Returns (exit_code, n_violations, known_hit).  Prints the
        KNOWN-FINDING / VIOLATION lines."""
        open_keys = {}
        for k in self.known:
            if k["property"] == self.pid and k["status"] == "open":
                open_keys[k["key"]] = k
        hit = {}
        viol = {}
        for key, rec in self.failing:
            if key in open_keys:
                hit.setdefault(key, []).append(rec)
            else:
                viol.setdefault(key, []).append(rec)
        for key in sorted(hit):
            log("KNOWN-FINDING: property=%s %s [%s] (%d records)" % (self.pid, open_keys[key]["what"], key, len(hit[key])))
        for key in sorted(open_keys):
            if key not in hit and open_keys[key].get("tier", "quick") in ("quick", self.tier):
                log("NOTE: known finding %s did not reproduce in this run (entry may be retired)" % key)
        code = 0
        if viol:
            rdir = os.path.join(WORK, "replays")
            os.makedirs(rdir, exist_ok=True)
            for key in sorted(viol):
                recs = viol[key][:20]
                h = hashlib.sha1((self.pid + key).encode()).hexdigest()[:10]
                path = os.path.join(rdir, "%s-%s.json" % (self.pid, h))
                with open(path, "w") as f:
                    json.dump({"property": self.pid, "key": key, "seed": seed(), "tier": self.tier,
                               "count": len(viol[key]), "records": recs}, f, indent=1, ensure_ascii=True)
                log("VIOLATION property=%s replay=%s key=%s count=%d" % (self.pid, path, key, len(viol[key])))
            code = 1
        return code, sum(len(v) for v in viol.values()), sorted(hit)

def write_evidence(pid, tier, t0, coverage, assumptions, violations, level="model_checking"):
    os.makedirs(os.path.join(ROOT, "evidence"), exist_ok=True)
    ev = {"property_id": pid, "tier": tier, "seed": seed(), "level": level,
          "coverage": coverage, "assumptions": assumptions,
          "wall_s": round(time.time() - t0, 2), "violations": violations}
    with open(os.path.join(ROOT, "evidence", pid + ".json"), "w") as f:
        json.dump(ev, f, indent=1, ensure_ascii=True)
    return ev
