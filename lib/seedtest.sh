#!/bin/sh
# usage: seedtest.sh <patch.diff> <ID> [tier]   — applies the patch to /repo, runs the check, reverts.
set -u
P="$1"; ID="$2"; TIER="${3:-quick}"
cd /repo || exit 2
git diff --quiet || { echo "repo dirty"; exit 2; }
git apply "$P" || { echo "patch does not apply"; exit 2; }
cp /verif/evidence/$ID.json /verif/.work/evidence_$ID.bak 2>/dev/null
cd /verif && ./check "$ID" --tier "$TIER" > /verif/.work/seedtest_$ID.log 2>&1
RC=$?
# the evidence file must describe the unchanged tree: put the previous one back
cp /verif/.work/evidence_$ID.bak /verif/evidence/$ID.json 2>/dev/null
git -C /repo checkout -- .
echo "seed=$P check=$ID tier=$TIER exit=$RC"
grep -E "^VIOLATION|TOOL-ERROR" /verif/.work/seedtest_$ID.log | cut -c1-220 | head -8
grep -cE "^KNOWN" /verif/.work/seedtest_$ID.log | sed 's/^/known_findings_printed=/'
exit 0
