"""String case generation shared by C03 / C17: TLC enumerates words over the
escape alphabets (MCEscape), the driver adds seeded random Unicode strings."""
import json, os, random
from common import *

def mc_escape(wd, alpha_file, maxlen, check_decode=True, workers=6):
    cfg = ("SPECIFICATION Spec\nCONSTANT MaxLen = %d\nCONSTANT AlphaFile = \"%s\"\nCONSTANT CheckDecode = %s\n"
           "INVARIANT RoundTrip DecodesBack Emit\nCHECK_DEADLOCK FALSE\n" % (maxlen, alpha_file, "TRUE" if check_decode else "FALSE"))
    r = run_tlc("MCEscape", cfg, wd, workers=workers, heap="4g", young=None, timeout=3000)
    tlc_must_pass(r, "MCEscape(%s,%d)" % (alpha_file, maxlen))
    alpha = json.load(open(os.path.join(SPEC, alpha_file)))
    words = r.json_payloads("CASE")
    return ["".join(alpha[i - 1] for i in w) for w in words], r

RAND_POOL = (list("'\"\\%_`abzZ0nrtx ;-/*()$?") + ["\u0000", "\b", "\t", "\n", "\r", "\u001a", "\u001b", "\u007f",
             "é", "ß", "€", "中", "Ł", " ", " ", "😀", "𝒜", "\\'", "\\\\", "''", "\\0", "\\z", "\\Z", "--", "/*", "*/"]
             + [chr(i) for i in range(1, 32)] + list("0123456789abcdefABCDEFxXuU{}"))

def rand_strings(rng, n, maxlen=64):
    out = []
    for _ in range(n):
        k = rng.randint(1, maxlen if rng.random() < 0.15 else 10)
        out.append("".join(rng.choice(RAND_POOL) for _ in range(k)))
    return out
