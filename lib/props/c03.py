"""C03 — inlined text and binary literals decode to exactly the supplied value."""
import json, os, random, sqlite3, time
from common import *
from pipeline import *
import strgen

def sqlite_decode(conn, lit):
    """What the real SQLite engine says `SELECT <lit>` denotes: ('ok', value) or ('err', msg)."""
    try:
        row = conn.execute("SELECT " + lit).fetchone()
        return ("ok", row[0])
    except Exception as e:
        return ("err", str(e))

def run(tier, replay_path=None):
    t0 = time.time(); pid = "C03"
    wd = workdir(pid); rng = random.Random(seed()); V = Verdict(pid, tier)
    states = gen = 0
    if replay_path:
        rep = json.load(open(replay_path))
        cases = []
        for r in rep["records"]:
            c = dict(r["case"]); c["id"] = len(cases); cases.append(c)
    else:
        fl, cl = (2, 5) if tier == "quick" else (3, 6)
        s1, r1 = strgen.mc_escape(os.path.join(wd, "mc_full"), "esc_alpha_full.json", fl)
        s2, r2 = strgen.mc_escape(os.path.join(wd, "mc_core"), "esc_alpha_core.json", cl)
        states, gen = r1.distinct + r2.distinct, r1.generated + r2.generated
        log("[C03] MC: %d + %d strings; DecodesBack holds on the model" % (len(s1), len(s2)))
        rnd = strgen.rand_strings(rng, 2000 if tier == "quick" else 40000)
        strings = list(dict.fromkeys(s1 + s2 + rnd))
        alpha = json.load(open(os.path.join(SPEC, "esc_alpha_full.json")))
        # strings that are also placed in every inlining position
        pos_set = set([""] + alpha + [a + b for a in alpha for b in alpha] if tier == "thorough" else
                      [""] + alpha + sample([a + b for a in alpha for b in alpha], 120, rng)
                      + ["it's", "a\\", "\\'", "x' OR 1=1 --", "'); DROP TABLE t; --"])
        pos_set |= set(rnd[:50 if tier == "quick" else 600])
        # long texts (beyond any length limit a dialect puts on comments or names), ending in characters that need escaping
        pos_set |= {"y" * 2047 + "'", "ab\\" * 700 + "'"}
        strings = list(dict.fromkeys(strings + sorted(pos_set)))
        cases = [{"id": i, "kind": "str", "s": s, "pos": s in pos_set} for i, s in enumerate(strings)]
        # byte strings: all of length <= 1 (quick) / <= 2 (thorough) + boundary lengths + random
        bl = [""] + ["%02X" % b for b in range(256)]
        if tier == "thorough":
            bl += ["%02X%02X" % (a, b) for a in range(0, 256, 5) for b in range(0, 256, 3)]
        bl += ["".join("%02X" % rng.randrange(256) for _ in range(n)) for n in (2, 3, 7, 16, 64, 255, 256) for _ in range(5)]
        for h in dict.fromkeys(bl):
            cases.append({"id": len(cases), "kind": "bytes", "hex": h})
    refc = [{"id": 0, "kind": "ref"}]
    refrec, _ = replay("lit", refc, wd, flavour="full", name="ref")
    refp = os.path.join(wd, "ref.json")
    json.dump(refrec[0], open(refp, "w"))
    recs, dt = replay("lit", cases, wd, flavour="full")
    log("[C03] replayed %d cases in %.1fs" % (len(recs), dt))
    verdicts, vt = validate("LitTrace", recs, os.path.join(wd, "tv"), jvms=10, env={"REFFILE": refp})
    byid = {r["id"]: r for r in recs}
    casebyid = {c["id"]: c for c in cases}
    conn = sqlite3.connect(":memory:")
    nontriv = 0; drift = 0; undecided = 0; gaps = 0; engine_checked = 0; npos = 0
    for v in verdicts:
        r = byid[v["id"]]
        keys = set(v["keys"])
        # SQLite: the real engine is the authority for what the literal denotes
        if r["kind"] == "str" and "\u0000" not in r["s"] and "r" in r["v2s"]["sqlite"]:
            st, val = sqlite_decode(conn, r["v2s"]["sqlite"]["r"])
            engine_checked += 1
            eng_ok = st == "ok" and val == r["s"]
            mod_keys = {k for k in keys if k.startswith("C03/v2s/sqlite/")}
            if eng_ok and mod_keys:
                gaps += 1; keys -= mod_keys
                V.note("MODEL-GAP: C03 sqlite lexer model rejects %r but the engine decodes it correctly" % r["v2s"]["sqlite"]["r"])
            elif not eng_ok and not mod_keys:
                gaps += 1
                V.note("MODEL-GAP: C03 sqlite engine disagrees with the model on %r (%s)" % (r["v2s"]["sqlite"]["r"], st))
                keys.add("C03/v2s/sqlite/engine_" + ("rejects" if st == "err" else "decodes_differently"))
        if r["kind"] == "bytes" and "r" in r["v2s"]["sqlite"]:
            st, val = sqlite_decode(conn, r["v2s"]["sqlite"]["r"])
            engine_checked += 1
            if not (st == "ok" and bytes(val).hex().upper() == r["hex"]):
                keys.add("C03/bytes/sqlite/engine_" + ("rejects" if st == "err" else "decodes_differently"))
        for k in sorted(keys):
            V.fail(k, {"case": casebyid[r["id"]], "s": r.get("s", r.get("hex")), "v2s": r.get("v2s")})
        nontriv += 1 if v["nt"] else 0
        undecided += 1 if v["undecided"] else 0
        npos += 1 if "pos" in r else 0
        if not v["exact"]:
            drift += 1
            if drift <= 5:
                V.note("DRIFT: C03 value_to_string differs from the impl-level model on %r" % (r.get("s", r.get("hex")),))
    cov = {"states": max(states, 1), "transitions": max(gen, 1), "traces_validated_against_impl": len(verdicts),
           "evaluations": len(verdicts), "distinct_nontrivial": nontriv,
           "rule": "values = TLC-enumerated words over the escape alphabets + random Unicode strings + byte strings; each rendered by value_to_string on 3 backends (String, Char when one char, Json, Bytes) and a subset placed in 19 inlining positions of query and schema statements; validated by the engine lexers in TLA+ (single token, decodes to the value, no other token changes) and by the real SQLite engine; non-trivial = value contains a character the backend must escape (all byte strings count)",
           "samples": [{"s": r.get("s", r.get("hex")), "v2s": r["v2s"]} for r in recs[:: max(1, len(recs) // 4)][:4]],
           "positions_cases": npos, "sqlite_engine_checked": engine_checked, "model_gaps": gaps, "undecided": undecided,
           "impl_model_exact": drift == 0, "drift": drift, "exhaustive": False}
    return std_finish(pid, tier, t0, V, cov,
                      ["MySQL and PostgreSQL lexical rules transcribed from the manuals (no engine in the sandbox); NO_BACKSLASH_ESCAPES off, standard_conforming_strings on",
                       "SQLite 3.40.1 (python3 sqlite3) is the authority for the SQLite dialect",
                       "NUL is outside the domain on PostgreSQL and SQLite"])
