"""C05 — rendered expressions re-parse to the expression tree that was built."""
import json, os, random, sqlite3, time
from common import *
from pipeline import *

COLS = ["a", "b", "d", "f", "g", "h"]

def sqlite_eval(conn, text):
    try:
        return ("ok", conn.execute("SELECT " + text + " FROM t ORDER BY rowid").fetchall())
    except Exception as e:
        return ("err", str(e))

def mk_conn(rng):
    conn = sqlite3.connect(":memory:")
    conn.execute("CREATE TABLE t (%s)" % ", ".join('"%s" INTEGER' % c for c in COLS))
    pool = [None, 0, 1, 2, 3, 5, 7, -1, 10]
    rows = [tuple(rng.choice(pool) for _ in COLS) for _ in range(60)]
    rows += [tuple(1 for _ in COLS), tuple(0 for _ in COLS), tuple(None for _ in COLS)]
    conn.executemany("INSERT INTO t VALUES (%s)" % ",".join("?" * len(COLS)), rows)
    return conn

# ---- random deeper trees (beyond TLC's bounds), same JSON shape as TLC's ----
BIN = ["And", "Or", "Equal", "NotEqual", "SmallerThan", "GreaterThan", "SmallerThanOrEqual", "GreaterThanOrEqual",
       "Add", "Sub", "Mul", "Div", "Mod", "BitAnd", "BitOr", "LShift", "RShift", "Is", "IsNot"]
PG = ["PgConcatenate", "PgContains", "PgContained", "PgSimilarity", "PgMatches", "PgRegex", "PgGetJsonField", "PgOverlap"]
LITE = ["SqliteGlob", "SqliteMatch", "SqliteGetJsonField", "SqliteCastJsonField"]
def rand_tree(rng, depth, flavour):
    if depth == 0 or rng.random() < 0.15:
        if rng.random() < 0.6:
            return {"k": "col", "n": rng.choice(COLS)}
        return {"k": "val", "v": {"t": "Int", "v": str(rng.choice([0, 1, 2, 3, 5, 7]))}}
    r = rng.random()
    sub = lambda: rand_tree(rng, depth - 1, flavour)
    if r < 0.55:
        ops = BIN + (PG if flavour == "pg" else LITE if flavour == "sqlite" else [])
        return {"k": "bin", "op": rng.choice(ops if rng.random() < 0.25 else BIN), "l": sub(), "r": sub()}
    if r < 0.65: return {"k": "not", "e": sub()}
    if r < 0.75: return {"k": "between", "neg": rng.random() < 0.3, "e": sub(), "a": sub(), "b": sub()}
    if r < 0.82:
        d = {"k": "like", "neg": rng.random() < 0.3, "ci": False, "e": sub(), "p": "x%"}
        if rng.random() < 0.5: d["esc"] = "|"
        return d
    if r < 0.89: return {"k": "in", "neg": rng.random() < 0.3, "e": sub(), "vs": [sub() for _ in range(rng.randint(0, 3))]}
    if r < 0.93: return {"k": "isnull", "neg": rng.random() < 0.5, "e": sub()}
    if r < 0.96: return {"k": "cast", "e": sub(), "ty": "integer"}
    if r < 0.98: return {"k": "fn", "f": rng.choice(["Max", "Abs", "Coalesce"]), "args": [sub()]}
    return {"k": "case", "whens": [{"c": sub(), "r": sub()}], "else": sub()}

def run(tier, replay_path=None):
    t0 = time.time(); pid = "C05"
    wd = workdir(pid); rng = random.Random(seed()); V = Verdict(pid, tier)
    states = gen = 0; mv = []
    if replay_path:
        trees = [r["e"] for r in json.load(open(replay_path))["records"]]
    else:
        depth = 2 if tier == "quick" else 3
        cfg = "SPECIFICATION Spec\nCONSTANT Depth = %d\nINVARIANT Check Emit\nCHECK_DEADLOCK FALSE\n" % depth
        mc = run_tlc("MCExpr", cfg, os.path.join(wd, "mc"), workers=8, heap="6g", young=None, timeout=3000)
        tlc_must_pass(mc, "MCExpr")
        states, gen = mc.distinct, mc.generated
        trees = mc.json_payloads("CASE")
        mv = mc.json_payloads("MV")
        log("[C05] MC: %d trees (depth %d), %d model-level counterexamples of Impl => R" % (len(trees), depth, len(mv)))
        for fl in ("mysql", "pg", "sqlite"):
            for _ in range(400 if tier == "quick" else 6000):
                trees.append(rand_tree(rng, rng.randint(2, 5), fl))
    # binary nodes are built through the named builder methods (eq, lte, modulo, left_shift, concat, glob, ...)
    # that spec/expr_methods.json maps to the operator; a fifth stays on the generic binary()
    import exprmeth
    if not replay_path:
        for e in trees: exprmeth.annotate(e, rng, 0.8)
    cases = [{"id": i, "e": e} for i, e in enumerate(trees)]
    results = {}
    # option-more-parentheses: the whole space in the thorough tier, a sample of it in the quick tier
    paren_cases = cases if tier == "thorough" else sample(cases, 1500, rng)
    flavours = [("base", "0", cases)] + ([("paren", "1", paren_cases)] if not replay_path else [])
    if replay_path and any(r.get("flavour") == "paren" for r in json.load(open(replay_path))["records"]):
        flavours = [("paren", "1", cases)]
    conn = mk_conn(rng)
    total = nontriv = drift = engine_checked = gaps = 0
    mv_set = set(json.dumps(m["e"], sort_keys=True) for m in mv)
    mv_confirmed = 0
    for fl, mp, fcases in flavours:
        recs, dt = replay("expr", fcases, wd, flavour=fl, name="cases_" + fl)
        verdicts, vt = validate("ExprTrace", recs, os.path.join(wd, "tv_" + fl), jvms=10, env={"MOREPAREN": mp})
        log("[C05] %s: replayed %d trees in %.1fs, validated in %.1fs" % (fl, len(recs), dt, vt))
        byid = {r["id"]: r for r in recs}
        for v in verdicts:
            r = byid[v["id"]]
            keys = set(v["keys"])
            total += 1
            # real SQLite: evaluate the rendering and the fully parenthesised reference
            if v["sql"] and v["ref"] and v["sql"].startswith("SELECT "):
                a = sqlite_eval(conn, v["sql"][7:]); b = sqlite_eval(conn, v["ref"])
                c = sqlite_eval(conn, v["pref"]) if v["pref"] else ("none", None)
                if b[0] == "ok":
                    engine_checked += 1
                    mk = {k for k in keys if k.startswith("C05/sqlite/")}
                    diag = (sorted(keys)[0].split("/")[-1]) if keys else "general"
                    if a[0] == "err" and "syntax error" in a[1] or a[0] == "err" and "unrecognized token" in a[1]:
                        if not mk:
                            gaps += 1; V.note("MODEL-GAP: C05 sqlite engine rejects %r (%s) accepted by the model" % (v["sql"], a[1]))
                            keys.add("C05/sqlite/engine_rejects/" + diag)
                    elif a[0] == "ok" and c[0] == "ok" and a[1] != c[1]:
                        # the engine does not group the text the way the model parsed it: the engine decides
                        gaps += 1; keys -= mk
                        V.note("MODEL-GAP: C05 sqlite precedence model misparses %r" % v["sql"])
                        if a[1] != b[1]:
                            keys.add("C05/sqlite/engine_rows_differ/" + diag)
                    elif a[0] == "ok" and a[1] != b[1] and not mk:
                        gaps += 1; V.note("MODEL-GAP: C05 sqlite engine evaluates %r differently from %r" % (v["sql"], v["ref"]))
                        keys.add("C05/sqlite/engine_rows_differ/" + diag)
            if any(k.startswith("?") for k in keys):
                raise ToolError("C05: case %d: %s" % (v["id"], sorted(keys)))
            for k in sorted(keys):
                V.fail(k, {"e": r["e"], "obs": r["obs"], "flavour": fl})
            if keys and json.dumps(r["e"], sort_keys=True) in mv_set:
                mv_confirmed += 1
            nontriv += 1 if v["nt"] else 0
            if not v["exact"]:
                drift += 1
                if drift <= 5: V.note("DRIFT: C05 rendering differs from the impl-level model for %s" % json.dumps(r["e"])[:300])
    cov = {"states": max(states, 1), "transitions": max(gen, 1), "traces_validated_against_impl": total,
           "evaluations": total * 3, "distinct_nontrivial": nontriv,
           "rule": "trees = TLC-enumerated: every single operator, every (outer, inner, operand position) pair over all %d constructors incl. PG/SQLite extension operators and the BETWEEN / LIKE-ESCAPE / IN / IS / CAST encodings%s; + seeded random trees of depth <= 5; each built through the expression API, rendered by 3 backends%s, re-parsed in TLA+ with the engine's precedence table and compared with the tree built; non-trivial = at least two operators" % (55, ", and all three-operator chains/forks over a 17-constructor representative set" if tier == "thorough" else "", " x option-more-parentheses" if len(flavours) > 1 else ""),
           "samples": [{"e": c["e"]} for c in cases[:: max(1, len(cases) // 4)][:4]],
           "model_level_counterexamples": len(mv), "model_counterexamples_confirmed_on_code": mv_confirmed,
           "sqlite_engine_checked": engine_checked, "model_gaps": gaps, "impl_model_exact": drift == 0, "drift": drift}
    return std_finish(pid, tier, t0, V, cov,
                      ["operator precedence / associativity tables of the three engines as documented (Appendix C.2); MySQL's finer yacc operand classes are not modelled",
                       "SQLite 3.40.1 decides for the SQLite dialect when it and the model disagree about the same text",
                       "subqueries are opaque to the expression parser"])
