"""C18 — Value equality and hashing are coherent (hashable-value)."""
import json, os, random, time
from common import *
from pipeline import *

def run(tier, replay_path=None):
    t0 = time.time(); pid = "C18"
    wd = workdir(pid); V = Verdict(pid, tier)
    pool, _ = replay("valeq", [{"id": 0, "kind": "pool"}], wd, flavour="full", name="pool")
    names = pool[0]["names"]; variants = pool[0]["variants"]
    json.dump(names, open(os.path.join(SPEC, "valeq_pool.json"), "w"))
    cfg = "SPECIFICATION Spec\nINVARIANT Reflexive Symmetric Transitive VariantsNeverEqual EqualHashEqually\nCHECK_DEADLOCK FALSE\n"
    mc = run_tlc("MCValueEq", cfg, os.path.join(wd, "mc"), workers=8, heap="4g", young=None)
    tlc_must_pass(mc, "MCValueEq")
    log("[C18] MC: %d triples over a pool of %d values; equivalence and hash laws hold on the model" % (mc.distinct, len(names)))
    cases = [{"id": i + 1, "kind": "row", "i": i} for i in range(len(names))]
    recs, dt = replay("valeq", cases, wd, flavour="full")
    for r in recs:
        r["names"] = names; r["variants"] = variants
    recs.append({"id": len(recs) + 1, "kind": "matrix", "m": [r["eq"] for r in recs]})
    verdicts, vt = validate("ValEqTrace", recs, os.path.join(wd, "tv"), jvms=4)
    nontriv = drift = 0
    for v in verdicts:
        for k in sorted(set(v["keys"])):
            V.fail(k, {"row": v["id"], "name": names[v["id"] - 1] if v["id"] <= len(names) else "matrix"})
        nontriv += 1 if v["nt"] else 0
        if not v["exact"]:
            drift += 1
            if drift <= 3: V.note("DRIFT: C18 equality of %s differs from the payload classes of ValueEq.tla on a pair the property leaves open" % names[v["id"] - 1])
    cov = {"states": mc.distinct, "transitions": mc.generated, "traces_validated_against_impl": len(verdicts),
           "evaluations": len(names) * len(names), "distinct_nontrivial": nontriv,
           "rule": "pool = %d values: every variant (core + json, chrono, time, decimal, bigdecimal, uuid, ipnetwork, mac address, arrays) with NULLs, +0/-0, three NaN payloads, infinities, JSON objects differing in key order, decimals differing in scale, equal and reversed arrays, nested arrays, NaN inside arrays; TLC checks reflexivity / symmetry / transitivity / variant separation / Eq => equal hash key on all %d triples of the model and validates the real ==, Hash (DefaultHasher), HashSet membership and ValueTuple equality of every pair; symmetry and transitivity also on the recorded matrix; non-trivial = row with an equal partner other than itself" % (len(names), mc.distinct),
           "samples": [{"name": names[i], "equal_to": [names[j] for j, e in enumerate(recs[i]["eq"]) if e]} for i in (9, 19, 45)], "exhaustive": True, "impl_model_exact": drift == 0, "drift": drift}
    return std_finish(pid, tier, t0, V, cov, ["payload classes of the pool as named in ValueEq.tla (OrderedFloat, serialised JSON, numeric decimal equality)", "vector components are compared as f32 bit patterns by the crate (no NaN components in the pool)"])
