"""C15 — take, clone and clear behave as value operations on builders."""
import json, os, random, time
from common import *
from pipeline import *

def run(tier, replay_path=None):
    t0 = time.time(); pid = "C15"
    wd = workdir(pid); rng = random.Random(seed()); V = Verdict(pid, tier)
    states = gen = 0
    if replay_path:
        cases = [{"id": i, "kind": r.get("kind", "select"), "calls": r["calls"], "refs": r.get("refs", {})} for i, r in enumerate(json.load(open(replay_path))["records"])]
    else:
        hs = []
        for kind, n in (("select", 3), ("update", 3), ("delete", 3), ("window", 4 if tier == "quick" else 5)):
            cfg = ("SPECIFICATION Spec\nCONSTANT MaxCalls = %d\nCONSTANT Kind = \"%s\"\nINVARIANT HistoriesRebuild TakeLeavesNew CloneEqual Emit\n"
                   "PROPERTY NonInterference ClearOnlyThatClause\nCHECK_DEADLOCK FALSE\n" % (n, kind))
            mc = run_tlc("MCTake", cfg, os.path.join(wd, "mc_" + kind), workers=10, heap="8g", young=None, timeout=3400)
            tlc_must_pass(mc, "MCTake(%s)" % kind)
            states += mc.distinct; gen += mc.generated
            got = mc.json_payloads("CASE")
            log("[C15] MC %s: %d states (all histories of <= %d steps on two registers), %.0fs" % (kind, mc.distinct, n, mc.wall))
            keep = [h for h in got if len(h["calls"]) <= 2]
            long_ = [h for h in got if len(h["calls"]) > 2]
            # of the long ones prefer those containing take / clone / clear
            special = [h for h in long_ if any(c["op"] in ("take", "clone", "clear_selects", "from_clear", "reset_limit", "reset_offset", "clear_order_by") for c in h["calls"])]
            quota = {"select": 700, "update": 250, "delete": 200, "window": 300}[kind]
            hs += keep + sample(special, quota if tier == "quick" else quota * 40, rng)
        # longer histories: every field set, then take / clone / clear at a random position, then more calls
        menu = json.load(open(os.path.join(SPEC, "take_menu.json")))["select"]
        clears = {"clear_selects": ("column", "expr", "expr_as", "expr_window", "expr_window_name"), "from_clear": ("from", "from_as", "from_subquery", "from_values"),
                  "reset_limit": ("limit",), "reset_offset": ("offset",), "clear_order_by": ("order_by",)}
        for _ in range(80 if tier == "quick" else 4000):
            calls = []; h1 = []; refs = []
            body = rng.sample(menu, rng.randint(6, len(menu)))
            pos = sorted(rng.sample(range(len(body) + 1), 2))
            for i, c in enumerate(body + [None]):
                while pos and pos[0] == i:
                    pos.pop(0)
                    op = rng.choice(["take", "clone"] + list(clears))
                    calls.append({"op": op})
                    if op == "take": h1 = []
                    elif op in clears:
                        h1 = [x for x in h1 if x["op"] not in clears[op]]
                        refs.append({"step": len(calls), "calls": list(h1)})
                if c is not None:
                    if rng.random() < 0.25:
                        calls.append(dict(c, reg=2))
                    else:
                        calls.append(c); h1.append(c)
            hs.append({"kind": "select", "calls": calls, "refs": refs})
        cases = [{"id": i, "kind": h["kind"], "calls": h["calls"], "refs": {str(r["step"]): r["calls"] for r in h["refs"]}, "refl": h["refs"]} for i, h in enumerate(hs)]
    recs, dt = replay("hist", cases, wd)
    for r, c in zip(recs, cases):
        r["refs"] = c.get("refl", [])
    verdicts, vt = validate("TakeTrace", recs, os.path.join(wd, "tv"), jvms=12)
    log("[C15] replayed %d histories in %.1fs, validated in %.1fs" % (len(recs), dt, vt))
    byid = {r["id"]: r for r in recs}
    nontriv = drift = badrefs = 0
    for v in verdicts:
        r = byid[v["id"]]
        for k in sorted(set(v["keys"])):
            V.fail(k, {"kind": r["kind"], "calls": r["calls"], "refs": {str(x["step"]): x["calls"] for x in r["refs"]}})
        if not v["refs_valid"]:
            badrefs += 1
        nontriv += 1 if v["nt"] else 0
        if not v["exact"]:
            drift += 1
            if drift <= 3: V.note("DRIFT: C15 renderings differ from the Stmt.tla model for %s" % json.dumps(r["calls"])[:300])
    if badrefs:
        raise ToolError("C15: %d reference histories are not what the model's clear operation means (generator error)" % badrefs)
    # take() of the schema statement builders (TableCreate/Alter/Rename/Drop/Truncate, IndexCreate, ForeignKeyCreate)
    schema_n = 0
    if not replay_path:
        import schemapipe
        # take() does not depend on the follow-up statements: the capped sample also serves the thorough tier (C13 / C14 walk the full space)
        sf, sst = schemapipe.collect_schema("C15", "quick", None, ["C15/"], os.path.join(wd, "schema"), rng, quick_cap=700 if tier == "quick" else 6000)
        for k, rec in sf: V.fail(k, rec)
        schema_n = sst["evals"]
    cov = {"states": max(states, 1), "transitions": max(gen, 1), "traces_validated_against_impl": len(verdicts),
           "evaluations": sum(len(r["steps"]) for r in recs), "distinct_nontrivial": nontriv,
           "rule": "histories = TLC state spaces of the two-register machines (Take.tla) for SelectStatement, UpdateStatement, DeleteStatement (clone, clear_order_by) and WindowStatement (take, clone, clear_order_by; <= 4 steps over partitions, orders, two frame forms); for SelectStatement: every sequence of <= 3 steps over one representative call per field (19 calls covering all 16 fields incl. index hints), the same calls on the second register, take, clone and the five clear / reset operations; + random histories setting 6..19 fields with take / clone / clear inserted at random positions; per step the real ==, the renderings of both registers on 3 backends, and for clear operations the statement rebuilt without that clause; non-trivial = history contains take, clone or a clear operation",
           "samples": [{"calls": r["calls"]} for r in recs[:: max(1, len(recs) // 3)][:3]],
           "schema_statements_taken": schema_n, "impl_model_exact": drift == 0, "drift": drift}
    return std_finish(pid, tier, t0, V, cov, ["SelectStatement is replayed call by call; for the schema statement builders take() is checked on every statement of the C13/C14 declaration space (Debug text and renderings of the taken statement equal those before)",
                                             "equality of statements is the crate's own PartialEq"])
