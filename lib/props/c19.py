"""C19 — derived identifiers spell the documented names; the generated fast path quotes like the general path."""
import json, os, random, time
from common import *
from pipeline import *
import derivegen

NONE = {"k": "none", "s": ""}
def CFG(mode, maxlen, maxv, alpha, invs):
    return ("SPECIFICATION Spec\nCONSTANTS Mode = \"%s\" MaxLen = %d MaxV = %d AlphaFile = \"%s\" MenuFile = \"derive_menu.json\"\n"
            "INVARIANT %s\nCHECK_DEADLOCK FALSE\n" % (mode, maxlen, maxv, alpha, invs))

def sweep_types(words, rng, per=24):
    """pack TLC-enumerated identifiers into enums (variant names) and unit structs (type names)"""
    ok = [w["ident"] for w in words if w["ok"]]
    cases = []
    for i in range(0, len(ok), per):
        chunk = ok[i:i + per]
        tname = ok[(i // per * 7 + 3) % len(ok)]
        vs = [{"n": "Table", "shape": "unit", "attr": NONE}] + [{"n": n, "shape": "unit", "attr": NONE} for n in chunk]
        d = {"kind": "enum", "name": tname, "derive": "IdenStatic" if (i // per) % 2 else "Iden", "crename": NONE, "vs": vs}
        cases.append({"def": d, "plan": {"ty": tname, "vals": [v["n"] for v in vs]}})
    return cases, ok

def run(tier, replay_path=None):
    t0 = time.time(); pid = "C19"
    wd = workdir(pid); rng = random.Random(seed()); V = Verdict(pid, tier)
    states = gen = 0
    if replay_path:
        cases = [{"def": r["def"], "plan": r["plan"]} for r in json.load(open(replay_path))["records"]]
        nwords = 0
    else:
        q = tier == "quick"
        mc1 = run_tlc("MCDerive", CFG("words", 4 if q else 6, 0, "derive_alpha_ident.json", "HeckAgrees SnakeIdem SnakeShape FastSound FastTight EmitWord"),
                      os.path.join(wd, "words"), workers=8, heap="4g", young=None)
        tlc_must_pass(mc1, "MCDerive(words)")
        mc2 = run_tlc("MCDerive", CFG("words", 3 if q else 5, 0, "derive_alpha_name.json", "HeckAgrees SnakeIdem FastSound FastTight"),
                      os.path.join(wd, "names"), workers=8, heap="4g", young=None)
        tlc_must_pass(mc2, "MCDerive(names)")
        mc3 = run_tlc("MCDerive", CFG("types", 0, 1 if q else 2, "derive_alpha_name.json", "TypeSound EmitType"),
                      os.path.join(wd, "types"), workers=8, heap="6g", young=None, timeout=3000)
        tlc_must_pass(mc3, "MCDerive(types)")
        sim = run_tlc("MCDerive", CFG("types", 0, 4, "derive_alpha_name.json", "TypeSound EmitType"), os.path.join(wd, "sim"), workers=2, heap="2g", young=None,
                      simulate="num=%d" % (500 if q else 6000), depth=8, tseed=seed())
        states = mc1.distinct + mc2.distinct + mc3.distinct; gen = mc1.generated + mc2.generated + mc3.generated
        words = mc1.json_payloads("CASE")
        nwords = len(words)
        sw, okwords = sweep_types(words, rng)
        # every short identifier also as the name of a unit struct
        units = [{"def": {"kind": "unit", "name": n, "derive": "IdenStatic" if i % 2 else "Iden", "crename": NONE}, "plan": {"ty": n, "vals": [n]}}
                 for i, n in enumerate(okwords) if len(n) <= (3 if q else 4)]
        ty = [{"def": c["def"], "plan": c["plan"]} for c in mc3.json_payloads("CASE")]
        ty1 = [c for c in ty if c["def"]["kind"] != "enum" or len(c["def"]["vs"]) <= 1]
        ty2 = [c for c in ty if not (c["def"]["kind"] != "enum" or len(c["def"]["vs"]) <= 1)]
        simc = [{"def": c["def"], "plan": c["plan"]} for c in sim.json_payloads("CASE")]
        # quick: every single-variant definition over two of the five variant names (all attribute forms,
        # shapes, container renames, both derives), a seeded sample of the others
        keep = [c for c in ty1 if c["def"]["kind"] != "enum" or c["def"]["vs"][0]["n"] in ("Table", "XMLHttp2Request")]
        rest = [c for c in ty1 if not (c["def"]["kind"] != "enum" or c["def"]["vs"][0]["n"] in ("Table", "XMLHttp2Request"))]
        # thorough: rustc needs ~50 ms per type; 6 000 types keep the compile under ten minutes
        cases = sw + units + (keep + sample(rest, 300, rng) if q else sample(ty1, 2500, rng)) + sample(ty2, 3000 if q else 2000, rng) + (simc if q else sample(simc, 600, rng))
        seen = set(); uniq = []
        for c in cases:
            k = json.dumps(c["def"], sort_keys=True)
            if k not in seen: seen.add(k); uniq.append(c)
        cases = uniq
        log("[C19] MC: %d words (heck scanner = stated boundaries, fast path sound and tight), %d name strings, %d finished type definitions; %d types to compile"
            % (nwords, mc2.distinct, len(ty), len(cases)))
    for i, c in enumerate(cases): c["id"] = i
    recs, failed = derivegen.build_and_run(os.path.join(wd, "crate"), cases, os.path.join(wd, "obs.ndjson"))
    byid = {c["id"]: c for c in cases}
    for cid, msg in sorted(failed.items()):
        d = byid[cid]["def"]
        V.fail("C19/%s/generated_code_does_not_compile" % d["kind"], {"def": d, "plan": byid[cid]["plan"], "rustc": msg})
    full = [{"id": r["id"], "def": byid[r["id"]]["def"], "plan": byid[r["id"]]["plan"], "obs": r["obs"]} for r in recs]
    verdicts, vt = validate("DeriveTrace", full, os.path.join(wd, "tv"), jvms=12)
    nvals = sum(len(r["obs"]) for r in full)
    log("[C19] compiled and observed %d types (%d values); validated in %.1fs" % (len(full), nvals, vt))
    rows = {}; drift = nontriv = fast = 0
    fb = {r["id"]: r for r in full}
    for v in verdicts:
        for k in sorted(v["keys"]):
            V.fail(k, fb[v["id"]])
        for rw in v["rows"]: rows[rw] = rows.get(rw, 0) + 1
        nontriv += 1 if v["nt"] else 0
        fast += 1 if v["fast"] else 0
        if v["skipped"]:
            raise ToolError("C19: observation plan not followed for type %d: %s" % (v["id"], v["skipped"]))
        if not v["exact"]:
            drift += 1
            if drift <= 3: V.note("DRIFT: C19 implementation-level model (heck transcription / fast-path predicate) differs from the observation for %s" % json.dumps(fb[v["id"]]["def"])[:300])
    cov = {"states": max(states, 1), "transitions": max(gen, 1), "traces_validated_against_impl": len(verdicts),
           "evaluations": nvals, "distinct_nontrivial": nontriv,
           "rule": "types = (a) every identifier of length <= %s over {A B a 1 _} as an enum variant and, for the short ones, as a unit-struct name, (b) every type definition TLC builds from the menu (3 type names x container renames x derive Iden/IdenStatic; variants from 5 names x 11 attribute forms incl. #[iden = ..], #[iden(rename = ..)], #[method = ..], #[iden(method = ..)], #[iden(flatten)] x unit/tuple/named shapes; unit structs incl. names with quote characters and braces; enum_def with prefix/suffix/table_name options), exhaustively up to %d variants plus simulated walks up to 4; each is compiled with the real macros against /repo and every value's to_string, prepare under ` \" [] and as_str/as_ref is compared by TLC with the attribute table over the stated word boundaries and with the general quoting; non-trivial = type takes the generated fast path or has a name the fast path would quote differently" % ("4" if tier == "quick" else "6", 1 if tier == "quick" else 2),
           "attribute_table_rows": rows, "types_on_fast_path": fast, "identifier_words": nwords,
           "samples": [{"def": r["def"], "obs": r["obs"][:2]} for r in full[:: max(1, len(full) // 4)][:4]],
           "impl_model_exact": drift == 0, "drift": drift}
    return std_finish(pid, tier, t0, V, cov, ["identifiers are ASCII (heck is built without its unicode feature; non-ASCII identifiers are outside the generated patterns)",
                                             "raw identifiers (r#type) are outside the domain",
                                             "a type whose generated code does not compile counts as a violation when the same source compiles on the unchanged tree"])
