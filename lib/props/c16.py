"""C16 — the SQL tokenizer is lossless and always terminates."""
import json, os, random, time
from common import *
from pipeline import *

ALPHA = json.load(open(os.path.join(SPEC, "tok_alphabet.json")))
# concretisations of the model alphabet used for additional replays
WS = ["\u00a0", "\u3000", "\u2028", "\u2029", "\x0c", "\x0b", "\u1680", "\u2003", "\u0085"]   # whitespace the tokenizer does not class as space
REPS = {"a": ["a", "Z", "é", "ß", "中", "𝒜"], "1": ["1", "0", "9"], " ": [" ", "\t", "\n", "\r"] + WS,
        "?": ["?", "(", ",", "%", " ", "٣", "😀", "\u0000"]}
POOL = list(" \t\n\r") + WS + list("aZ09_$?'\"`[]\\(),.;:%*=<>-+/") + ["é", "ß", "中", " ", "٣", "😀", "𝒜", "\u0000", "\u001a", "''", '""', "``", "\\'", "\\\\", "??", "$1", "$$"]

def rand_string(rng, maxlen):
    n = rng.randint(0, maxlen)
    return "".join(rng.choice(POOL) for _ in range(n))

def run(tier, replay_path=None):
    t0 = time.time()
    pid = "C16"
    wd = workdir(pid)
    rng = random.Random(seed())
    V = Verdict(pid, tier)
    maxlen = 4 if tier == "quick" else 5
    # (A)+(B): design check + generation
    cfg = ("SPECIFICATION Spec\nCONSTANT MaxLen = %d\n"
           "INVARIANT LosslessSoFar NonEmpty NeverStuck AbsWhenDone FunctionalEq StepBound ScannerAdvances Emit\n"
           "PROPERTY Progress Terminates\nCHECK_DEADLOCK FALSE\n" % maxlen)
    if replay_path:
        rep = json.load(open(replay_path))
        cases = [{"id": i, "s": r["s"]} for i, r in enumerate(rep["records"])]
        mc = None
    else:
        mc = run_tlc("MCTokenizer", cfg, os.path.join(wd, "mc"), workers=8, heap="6g", young=None, timeout=3000)
        tlc_must_pass(mc, "MCTokenizer")
        # unbounded: losslessness and termination of the iterator from the scanner's progress (TLAPS)
        import shutil, subprocess, re
        pd = os.path.join(wd, "tlaps"); shutil.rmtree(pd, ignore_errors=True); os.makedirs(pd)
        shutil.copy(os.path.join(SPEC, "TokenizerProof.tla"), pd)
        pr = subprocess.run(["tlapm", "--threads", "8", "--cleanfp", "TokenizerProof.tla"], cwd=pd, stdout=subprocess.PIPE, stderr=subprocess.STDOUT, text=True, timeout=900)
        mo = re.search(r"All (\d+) obligations proved", pr.stdout)
        if not mo:
            raise ToolError("tlapm did not prove TokenizerProof.tla:\n" + pr.stdout[-2000:])
        tlaps_n = int(mo.group(1))
        log("[C16] TokenizerProof.tla: %d obligations proved by TLAPS (lossless + terminating for every input length, given ScannerAdvances)" % tlaps_n)
        words = mc.json_payloads("CASE")
        chars = [a["c"] for a in ALPHA]
        cases = []
        seen = set()
        def add(s, src):
            if s not in seen:
                seen.add(s)
                cases.append({"id": len(cases), "s": s, "src": src})
        for w in words:
            add("".join(chars[i - 1] for i in w), "tlc")
        log("[C16] MC: %d distinct states, %d generated, %d behaviours in %.1fs" % (mc.distinct, mc.generated, len(words), mc.wall))
        # concretised variants of the enumerated strings (other class representatives)
        base = [c["s"] for c in cases]
        nvar = 3000 if tier == "quick" else 60000
        for _ in range(nvar):
            s0 = rng.choice(base)
            add("".join(rng.choice(REPS.get(ch, [ch])) for ch in s0), "variant")
        # characters that text-processing code likes to treat specially (byte order mark, zero-width and no-break spaces,
        # line and paragraph separators) at the start, in the middle and at the end of some of the strings
        SPECIAL = ["\ufeff", "\u200b", "\u00a0", "\u2028", "\u2029", "\u0085", "\u000b", "\u000c"]
        for sp in SPECIAL:
            for s0 in ["", "SELECT 1", "a", "'q'", "? ", "\"i\" = ?", "x--y", "[b]"]:
                add(sp + s0, "special"); add(s0 + sp, "special"); add(s0[:1] + sp + s0[1:], "special"); add(sp + sp + s0, "special")
        nrand = 2000 if tier == "quick" else 50000
        for _ in range(nrand):
            add(rand_string(rng, 200 if rng.random() < 0.1 else 24), "random")
        if tier == "quick" and len(cases) > 30000:
            keep = [c for c in cases if c["src"] != "tlc" or len(c["s"]) <= 3]
            rest = [c for c in cases if c["src"] == "tlc" and len(c["s"]) > 3]
            cases = keep + sample(rest, 12000, rng)
            for i, c in enumerate(cases):
                c["id"] = i
    recs, dt = replay("tok", cases, wd)
    log("[C16] replayed %d cases in %.1fs" % (len(recs), dt))
    good = []
    for r in recs:
        if r.get("hang"):
            V.fail("C16/non_termination", r)
        elif "harness_panic" in r or "panic" in r.get("obs", {}):
            V.fail("C16/panic", r)
        else:
            good.append(r)
    verdicts, vt = validate("TokTrace", good, os.path.join(wd, "tv"), jvms=8 if tier == "thorough" else 6)
    byid = {r["id"]: r for r in good}
    nontriv = set()
    drift = 0
    for v in verdicts:
        r = byid[v["id"]]
        for k in v["keys"]:
            V.fail(k, {"s": r["s"], "obs": r["obs"]})
        if v["nt"]:
            nontriv.add(r["s"])
        if not v["exact"]:
            drift += 1
            if drift <= 5:
                V.note("DRIFT: C16 real tokenizer differs from impl-level model on %r" % r["s"])
    cov = {
        "states": mc.distinct if mc else 1, "transitions": mc.generated if mc else 1,
        "traces_validated_against_impl": len(verdicts),
        "evaluations": len(verdicts), "distinct_nontrivial": len(nontriv),
        "rule": "inputs = all strings of length <= %d over the 12-symbol token alphabet (TLC state space, one behaviour per string, one action per Tokenizer::next call) + class-representative variants + seeded random Unicode strings (len <= 200); non-trivial = contains a quote delimiter, placeholder mark or backslash" % maxlen,
        "samples": [{"s": r["s"], "toks": r["obs"].get("toks")} for r in good[:: max(1, len(good) // 5)][:5]],
        "exhaustive": False, "impl_model_exact": drift == 0, "drift": drift,
        "tlaps_obligations_proved": tlaps_n if mc else 0,
        "unbounded": "TokenizerProof.tla (TLAPS): for every input length, if each scanner call ends strictly beyond its start (ScannerAdvances, checked by TLC on all bounded strings) the emitted tokens concatenate to the consumed prefix, none is empty and the iterator terminates",
        "mc_invariants": "LosslessSoFar NonEmpty NeverStuck AbsWhenDone FunctionalEq StepBound; PROPERTY Progress Terminates (WF)",
        "tlc_mc_wall_s": round(mc.wall, 1) if mc else 0, "tlc_validate_wall_s": round(vt, 1),
    }
    return std_finish(pid, tier, t0, V, cov,
                      ["TLC 1.8 and the CommunityModules JSON reader are correct",
                       "char::is_alphabetic flags recorded by the harness are those the tokenizer consults",
                       "non-termination is observed through a 20 s per-case watchdog"])
