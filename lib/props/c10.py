"""C10 — INSERT rows always match the column list; mismatches are reported."""
import json, os, random, time
from common import *
from pipeline import *

def intv(n): return {"k": "val", "v": {"t": "Int", "v": str(n)}}
def rand_hist(rng, n):
    calls = []
    for step in range(1, n + 1):
        x = rng.random()
        row = lambda r, m: [intv(step * 100 + r * 10 + j) for j in range(1, m + 1)]
        if x < 0.25: calls.append({"op": "columns", "cols": ["c%d" % i for i in range(1, rng.randint(0, 4) + 1)]})
        elif x < 0.55: calls.append({"op": "values", "row": row(1, rng.randint(0, 5))})
        elif x < 0.7: calls.append({"op": "values_panic", "row": row(1, rng.randint(0, 4))})
        elif x < 0.8:
            k = rng.randint(0, 3)
            calls.append({"op": "select_from", "q": {"kind": "select", "width": k, "calls": [{"op": "expr", "e": intv(900 + i)} for i in range(1, k + 1)]}})
        elif x < 0.88: calls.append({"op": "or_default_values"} if rng.random() < 0.5 else {"op": "or_default_values_many", "n": rng.randint(1, 3)})
        else: calls.append({"op": "values_from_panic", "rows": [row(r, rng.randint(1, 3)) for r in range(1, rng.randint(1, 3) + 1)]})
    return calls

def run(tier, replay_path=None):
    t0 = time.time(); pid = "C10"
    wd = workdir(pid); rng = random.Random(seed()); V = Verdict(pid, tier)
    states = gen = mvs = 0
    if replay_path:
        hists = [r["calls"] for r in json.load(open(replay_path))["records"]]
    else:
        n = 3 if tier == "quick" else 4
        cfg = "SPECIFICATION Spec\nCONSTANT MaxCalls = %d\nINVARIANT ResultAgrees Check Emit\nPROPERTY RejectLeavesNoTrace\nCHECK_DEADLOCK FALSE\n" % n
        mc = run_tlc("MCInsert", cfg, os.path.join(wd, "mc"), workers=10, heap="8g", young=None, timeout=3400)
        tlc_must_pass(mc, "MCInsert")
        states, gen, mvs = mc.distinct, mc.generated, len(mc.payloads("MV"))
        hists = mc.json_payloads("CASE")
        log("[C10] MC: %d states (all histories of <= %d calls over 30 actions), %d model-level counterexamples, %.0fs" % (mc.distinct, n, mvs, mc.wall))
        if tier == "quick":
            hists = [h for h in hists if len(h) <= 2] + sample([h for h in hists if len(h) > 2], 3000, rng)
        else:
            hists = [h for h in hists if len(h) <= 3] + sample([h for h in hists if len(h) > 3], 40000, rng)
        for _ in range(500 if tier == "quick" else 8000):
            hists.append(rand_hist(rng, rng.randint(4, 8)))
    if not replay_path:
        # the row is handed over as a Vec, as an iterator whose size_hint overestimates, or as one without a size_hint
        hists = [[dict(c, it=rng.choice(["filter", "lazy"])) if c["op"] in ("values", "values_panic") and rng.random() < 0.3 else c for c in h] for h in hists]
    cases = [{"id": i, "calls": h} for i, h in enumerate(hists)]
    recs, dt = replay("insert", cases, wd)
    verdicts, vt = validate("InsertTrace", recs, os.path.join(wd, "tv"), jvms=12)
    log("[C10] replayed %d histories in %.1fs, validated in %.1fs" % (len(recs), dt, vt))
    byid = {r["id"]: r for r in recs}
    nontriv = drift = 0
    for v in verdicts:
        r = byid[v["id"]]
        for k in sorted(set(v["keys"])):
            # one key per cause: backend is dropped for the known cross-backend defects
            parts = k.split("/")
            key = k
            if len(parts) >= 3 and parts[1] in ("mysql", "pg", "sqlite"):
                key = "C10/" + "/".join(parts[2:])
            V.fail(key, {"calls": r["calls"], "steps": r["steps"][-1:], "full_key": k})
        nontriv += 1 if v["nt"] else 0
        if not v["exact"]:
            drift += 1
            if drift <= 5: V.note("DRIFT: C10 rendering differs from the impl-level model for %s" % json.dumps(r["calls"])[:300])
    cov = {"states": max(states, 1), "transitions": max(gen, 1), "traces_validated_against_impl": len(verdicts),
           "evaluations": sum(len(r["steps"]) for r in recs), "distinct_nontrivial": nontriv,
           "rule": "histories = every sequence of <= %d calls over columns(0..3) / values(0..4 cells) / values_panic(0..3) / select_from(0..3) / or_default_values / or_default_values_many(2) / values_from_panic(2 rows of 1..2 cells) — the TLC state space of the Insert state machine (invariant ResultAgrees, action property RejectLeavesNoTrace, rendering vs accepted rows) — plus random histories of length 4..8; replayed step by step on the real InsertStatement with the Result, `stmt == clone` and three renderings recorded per step; non-trivial = history contains a row-adding call" % (3 if tier == "quick" else 4),
           "samples": [{"calls": r["calls"], "last": r["steps"][-1]} for r in recs[:: max(1, len(recs) // 3)][:3]],
           "model_level_counterexamples": mvs, "impl_model_exact": drift == 0, "drift": drift}
    return std_finish(pid, tier, t0, V, cov, ["the INSERT parser in Insert.tla (column list, VALUES rows, DEFAULT VALUES, SELECT)", "a later select_from / values call replaces the other kind of source (last kind wins)"])
