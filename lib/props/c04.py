"""C04 — identifiers are quoted so that they decode to exactly the supplied name."""
import json, os, random, sqlite3, time
from common import *
from pipeline import *

RAND = list("ab`\"'\\ .[]()-;*,?$_0") + ["é", "中", "😀", "``", '""', "--", "/*", " "]

def run(tier, replay_path=None):
    t0 = time.time(); pid = "C04"
    wd = workdir(pid); rng = random.Random(seed()); V = Verdict(pid, tier)
    states = gen = 0
    alpha = json.load(open(os.path.join(SPEC, "ident_alpha.json")))
    if replay_path:
        names = [r["n"] for r in json.load(open(replay_path))["records"]]
    else:
        maxlen = 3 if tier == "quick" else 4
        cfg = "SPECIFICATION Spec\nCONSTANT MaxLen = %d\nINVARIANT QuotedDecodes Emit\nCHECK_DEADLOCK FALSE\n" % maxlen
        mc = run_tlc("MCIdent", cfg, os.path.join(wd, "mc"), workers=6, heap="4g", young=None)
        tlc_must_pass(mc, "MCIdent")
        states, gen = mc.distinct, mc.generated
        allnames = ["".join(alpha[i - 1] for i in w) for w in mc.json_payloads("CASE")]
        log("[C04] MC: %d names (<=%d symbols): Iden::prepare decodes back on 3 engines (model)" % (len(allnames), maxlen))
        short = [n for n in allnames if len(n) <= 2]
        rest = [n for n in allnames if len(n) > 2]
        names = short + sample(rest, 150 if tier == "quick" else 1600, rng)
        for _ in range(60 if tier == "quick" else 800):
            names.append("".join(rng.choice(RAND) for _ in range(rng.randint(1, 12))))
        names = list(dict.fromkeys(n for n in names if n and "\u0000" not in n))
    refrec, _ = replay("ident", [{"id": 0, "n": "REFID"}], wd, name="ref")
    refp = os.path.join(wd, "ref.json"); json.dump(refrec[0], open(refp, "w"))
    cases = [{"id": i, "n": n} for i, n in enumerate(names)]
    recs, dt = replay("ident", cases, wd)
    npos = len(refrec[0]["pos"])
    log("[C04] replayed %d names x %d positions in %.1fs" % (len(recs), npos, dt))
    verdicts, vt = validate("IdentTrace", recs, os.path.join(wd, "tv"), jvms=12, env={"REFFILE": refp})
    byid = {r["id"]: r for r in recs}
    conn = sqlite3.connect(":memory:")
    nontriv = drift = engine_checked = 0
    for v in verdicts:
        r = byid[v["id"]]
        keys = set(v["keys"])
        # real SQLite: the alias position read back through cursor.description
        o = r["pos"]["expr_alias"]["sqlite"]
        if "r" in o:
            engine_checked += 1
            try:
                got = conn.execute(o["r"]).description[0][0]
                ok = got == r["n"]
            except Exception as e:
                ok = False
            mk = {k for k in keys if k.startswith("C04/expr_alias/sqlite/")}
            if ok and mk:
                keys -= mk; V.note("MODEL-GAP: C04 sqlite model rejects alias %r accepted by the engine" % r["n"])
            elif not ok and not mk:
                keys.add("C04/expr_alias/sqlite/engine_decodes_differently")
        for k in sorted(keys):
            pos = k.split("/")[1]
            V.fail(k, {"n": r["n"], "pos": pos, "sql": r["pos"].get(pos)})
        nontriv += 1 if v["nt"] else 0
        if not v["exact"]:
            drift += 1
            if drift <= 3: V.note("DRIFT: C04 Iden::prepare differs from the model for %r" % r["n"])
    cov = {"states": max(states, 1), "transitions": max(gen, 1), "traces_validated_against_impl": len(verdicts),
           "evaluations": len(verdicts) * npos, "distinct_nontrivial": nontriv,
           "rule": "names = TLC-enumerated words over {a \" ` ' \\ space e-acute . ] [} (all of length <= 2, seeded sample of longer ones) + random names; each placed in %d identifier positions of query and schema statements on 3 backends; validated in TLA+ by the engine lexers (one quoted-identifier token decoding to the name, no other token changes); non-trivial = name contains a quote character" % npos,
           "samples": [{"n": r["n"], "index_create_name": r["pos"]["index_create_name"]} for r in recs[:: max(1, len(recs) // 4)][:4]],
           "positions": npos, "sqlite_engine_checked": engine_checked, "impl_model_exact": drift == 0, "drift": drift}
    return std_finish(pid, tier, t0, V, cov, ["MySQL/PostgreSQL identifier lexical rules from the manuals", "empty names and NUL are outside the domain",
                                             "PG as_enum names ending in [] denote an array type by design and are outside the domain of that position"])
