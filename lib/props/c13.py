"""C13 — SQLite schema statements create exactly the declared schema (and, with the same recordings, C14 / schema take of C15 through schemapipe)."""
from schemapipe import run_schema
def run(tier, replay_path=None):
    return run_schema("C13", tier, replay_path, ["C13/"])
