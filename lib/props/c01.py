"""C01 — placeholders and bound values correspond one-to-one, in order."""
from stmtpipe import run_prop
RULE = ("statements = TLC state space of MCStmt: per statement kind (SELECT / INSERT / UPDATE / DELETE) the pairwise-complete product of clause options "
        "(subqueries, joins, conditions, unions, CTEs, CASE, window frames, FIELD order, NULLS ordering, LIMIT/OFFSET, upsert, RETURNING, UPDATE..FROM) with distinct value tags, "
        "+ TLC -simulate walks over the full product + random nested statements; each built on the real crate and rendered on 3 backends; "
        "checked: Writer event discipline, placeholder count / numbering under the engine lexer, bound values = values given in the dialect's clause order; non-trivial = at least two bound values")
def run(tier, replay_path=None):
    return run_prop("C01", tier, replay_path, ["C01/"], RULE,
                    ["clause order of value-carrying clauses per dialect as in DESIGN.md Appendix C.3", "raw SQL supplied by the caller is opaque"])
