"""C01 — placeholders and bound values correspond one-to-one, in order."""
from stmtpipe import run_prop
RULE = ("statements = TLC state space of MCStmt: per statement kind (SELECT / INSERT / UPDATE / DELETE) the pairwise-complete product of clause options "
        "(subqueries, joins, conditions, unions, CTEs, CASE, window frames, FIELD order, NULLS ordering, LIMIT/OFFSET, upsert, RETURNING, UPDATE..FROM) with distinct value tags, "
        "+ TLC -simulate walks over the full product + random nested statements; each built on the real crate and rendered on 3 backends; "
        "checked: Writer event discipline, placeholder count / numbering under the engine lexer, bound values = values given in the dialect's clause order; non-trivial = at least two bound values")
import os, re, shutil, subprocess
from common import *

def writer_checks():
    """the writer automaton: bounded by TLC (Writer.tla, both placeholder styles) and unbounded by TLAPS (WriterProof.tla)"""
    wd = workdir("C01w")
    st = 0
    for numbered, mark in (("TRUE", "$"), ("FALSE", "?")):
        cfg = ("SPECIFICATION Spec\nCONSTANTS Numbered = %s Mark = \"%s\" Frags = {\"SELECT \", \", \", \"'?'\"} Vals = {\"v1\", \"v2\"} MaxLen = 6\n"
               "INVARIANT WriterInv MarksInOrder\nPROPERTY ValuesAppendOnly\nCHECK_DEADLOCK FALSE\n" % (numbered, mark))
        r = run_tlc("Writer", cfg, os.path.join(wd, "tlc_" + numbered), workers=4, heap="2g", young=None)
        tlc_must_pass(r, "Writer.tla")
        st += r.distinct
    pd = os.path.join(wd, "tlaps"); shutil.rmtree(pd, ignore_errors=True); os.makedirs(pd)
    shutil.copy(os.path.join(SPEC, "WriterProof.tla"), pd)
    p = subprocess.run(["tlapm", "--threads", "8", "--cleanfp", "WriterProof.tla"], cwd=pd, stdout=subprocess.PIPE, stderr=subprocess.STDOUT, text=True, timeout=900)
    m = re.search(r"All (\d+) obligations proved", p.stdout)
    if not m:
        raise ToolError("tlapm did not prove WriterProof.tla:\n" + p.stdout[-2000:])
    log("[C01] Writer.tla: %d states (TLC, both placeholder styles); WriterProof.tla: %s obligations proved by TLAPS (unbounded)" % (st, m.group(1)))
    return {"writer_states": st, "tlaps_obligations_proved": int(m.group(1)),
            "unbounded": "the C01(a) invariant of the writer automaton (counter = #values, i-th placeholder numbered i) is proved inductive by TLAPS for any fragments, values and build length"}

def run(tier, replay_path=None):
    return run_prop("C01", tier, replay_path, ["C01/"], RULE,
                    ["clause order of value-carrying clauses per dialect as in DESIGN.md Appendix C.3", "raw SQL supplied by the caller is opaque"],
                    extra_cov=None if replay_path else writer_checks)
