"""C02 — inline rendering and parameterised rendering are the same statement."""
import stmtgen, sqlitefx
from stmtpipe import run_prop
RULE = ("statements as for C01 plus typed-value statements (text needing escapes, chars, bytes, bools, NULLs, negative and 64-bit integers, doubles); checked per backend: token sequence of to_string = token sequence of build with the i-th placeholder replaced by the tokens of the backend literal of values[i]; "
        "build / build_any / build_collect / build_collect_any agree, to_string twice and build_collect(String) agree, statement == clone after rendering; on the real SQLite both forms are executed and must return the same rows / table contents; non-trivial = at least two bound values")

POOL = [{"t": "String", "v": "it's"}, {"t": "String", "v": "back\\slash"}, {"t": "String", "v": "q\"d"}, {"t": "String", "v": "x1"}, {"t": "String", "v": "é€😀"},
        {"t": "String", "v": "line\nbreak\ttab"}, {"t": "String", "v": "%_"}, {"t": "String", "null": True}, {"t": "Int", "null": True}, {"t": "Int", "v": "-5"},
        {"t": "BigInt", "v": "9223372036854775807"}, {"t": "BigInt", "v": "-9223372036854775808"}, {"t": "Bool", "v": True}, {"t": "Bool", "v": False},
        {"t": "Char", "v": "Ł"}, {"t": "Char", "v": "'"}, {"t": "Bytes", "v": "00FF41"}, {"t": "Bytes", "v": ""}, {"t": "Double", "v": "1.5"}, {"t": "Double", "v": "-0.25"},
        {"t": "TinyInt", "v": "-128"}, {"t": "BigUnsigned", "v": "18446744073709551615"}, {"t": "SmallUnsigned", "v": "65535"}]

def typed_stmts(rng, tier):
    out = []
    n = 250 if tier == "quick" else 4000
    def v(): return {"k": "val", "v": dict(rng.choice(POOL))}
    for i in range(n):
        k = i % 4
        if k == 0:
            out.append({"kind": "select", "calls": [{"op": "column", "n": "id"}, {"op": "expr_as", "e": v(), "a": "v"}, {"op": "from", "t": ["t1"]},
                        {"op": "and_where", "e": {"k": "bin", "op": "Or", "l": {"k": "bin", "op": "Equal", "l": {"k": "col", "n": "c"}, "r": v()}, "r": {"k": "bin", "op": "NotEqual", "l": v(), "r": v()}}},
                        {"op": "order_by", "e": {"k": "col", "n": "id"}, "o": {"d": "Asc"}}]})
        elif k == 1:
            out.append({"kind": "insert", "calls": [{"op": "into_table", "t": ["t1"]}, {"op": "columns", "cols": ["a", "c"]}, {"op": "values_panic", "row": [v(), v()]}, {"op": "values_panic", "row": [v(), v()]}]})
        elif k == 2:
            out.append({"kind": "update", "calls": [{"op": "table", "t": ["t1"]}, {"op": "value", "col": "c", "e": v()}, {"op": "and_where", "e": {"k": "in", "neg": False, "e": {"k": "col", "n": "c"}, "vs": [v(), v(), v()]}}]})
        else:
            out.append({"kind": "select", "calls": [{"op": "expr", "e": {"k": "case", "whens": [{"c": {"k": "bin", "op": "Equal", "l": v(), "r": v()}, "r": v()}], "else": v()}},
                        {"op": "expr", "e": {"k": "fn", "f": "Coalesce", "args": [v(), v()]}}]})
    return out

_engine = {"n": 0, "ok": 0}
def engine_record(r, v):
    o = r["obs"].get("r", {}).get("sqlite", {}).get("r")
    if not o: return []
    ordered = " ORDER BY " in o["inline"]
    a = sqlitefx.execute(o["inline"], None, ordered)
    try:
        params = [sqlitefx.pyval(x) for x in o["values"]]
    except Exception:
        return []
    if any(isinstance(p, int) and not (-2**63 <= p < 2**63) for p in params):
        return []          # not bindable as a SQLite INTEGER through python3 sqlite3
    b = sqlitefx.execute(o["sql"], params, ordered)
    _engine["n"] += 1
    if a[0] == "ok" and b[0] == "ok":
        _engine["ok"] += 1
        if a[1] != b[1] or a[2] != b[2]:
            return ["C02/sqlite/engine_rows_differ_between_inline_and_parameterised"]
        return []
    if a[0] != b[0]:
        return ["C02/sqlite/engine_accepts_only_one_form"]
    return []          # both rejected (the statement itself is not executable here): C07's concern

def run(tier, replay_path=None):
    return run_prop("C02", tier, replay_path, ["C02/"], RULE,
                    ["engine lexers of EngineLex.tla", "numeric literals compared as text", "SQLite 3.40.1 executes both forms over the fixed fixture"],
                    extra_stmts=typed_stmts, per_record=engine_record,
                    extra_cov=lambda: {"sqlite_engine_pairs_executed": _engine["n"], "sqlite_engine_pairs_both_ok": _engine["ok"]})
