"""C08 — MySQL/Postgres statements carry every clause given, in grammar order."""
from stmtpipe import run_prop
RULE = ("statements as for C01 (pairwise-complete clause product per statement kind from TLC, simulated deeper combinations, random nested statements); "
        "for MySQL and PostgreSQL the inline rendering is parsed by the dialect's clause-level grammar written in TLA+ (EngineGrammar) and must equal Expected(B, builder state): "
        "every supported clause once, in grammar position, items in call order, expressions as the trees built, dialect substitutions applied; non-trivial = at least two bound values")
def run(tier, replay_path=None):
    return run_prop("C08", tier, replay_path, ["C08/"], RULE,
                    ["MySQL 8.0 / PostgreSQL >= 15 clause grammars for the emitted subset as transcribed in EngineGrammar.tla (no engine in the sandbox); deliberately permissive",
                     "builder features a dialect does not have are outside the domain (GrammarLaw!Unsupported)"], grammar=True)
