"""C11 — custom SQL templates and inject_parameters replace exactly the placeholders."""
import json, os, random, time
from common import *
from pipeline import *

ITEMS = json.load(open(os.path.join(SPEC, "tpl_items.json")))
VALPOOL = [{"t": "Int", "v": "-3"}, {"t": "BigInt", "v": "-9000000000"}, {"t": "Double", "v": "-1.5"}, {"t": "Int", "v": "7"}, {"t": "String", "v": "a?b"}, {"t": "String", "v": "x$1'y"}, {"t": "Int", "v": "42"},
           {"t": "String", "v": "back\\"}, {"t": "Bool", "v": True}, {"t": "String", "null": True}]
RAND_ITEMS = [i["s"] for i in ITEMS] + ["é", "中x", "'it''s ?'", "'a\\'?'", "\"q\"\"?\"", "[b?]", "]", "[[0]]", "ARRAY[[1,2],[3,4]]", " ", "\t", "::", "->>", "$10", "$01", "?1", "x_1", "1e5", "-", "-", "+", "/*", "--"]

_col = lambda n: {"k": "col", "n": n}
EXPRPOOL = [_col("a"), {"k": "asenum", "ty": "mood", "e": {"k": "const", "v": {"t": "String", "v": "sad"}}},
            {"k": "bin", "op": "Add", "l": _col("a"), "r": {"k": "const", "v": {"t": "Int", "v": "1"}}},
            {"k": "fn", "f": "Max", "args": [_col("b")]}, {"k": "cast", "e": _col("c"), "ty": "integer"},
            {"k": "asenum", "ty": "mood", "e": _col("d")},
            {"k": "tuple", "es": [_col("w"), {"k": "const", "v": {"t": "Int", "v": "100"}}]}, {"k": "tuple", "es": [_col("z")]},
            {"k": "case", "whens": [{"c": {"k": "isnull", "neg": False, "e": _col("a")}, "r": {"k": "const", "v": {"t": "Int", "v": "0"}}}], "else": _col("a")}]
def _sel(*exprs):
    return {"kind": "select", "calls": [{"op": "expr", "e": e} for e in exprs]}
def _const(sv): return {"k": "const", "v": {"t": "String", "v": sv}}
def _val(n): return {"k": "val", "v": {"t": "Int", "v": str(n)}}
# inlined constants (not bound) next to bound values: text with quote / backslash / mark characters
EXTRA = [_sel({"k": "cust", "s": "$body$ hi $body$"}, _val(7003)), _sel(_val(7004), {"k": "cust", "s": "$tag$?$tag$"}, _val(7005))] + \
        [_sel(_const(c), _val(7001), _const(c), _val(7002)) for c in ["a\\", "it's", "?", "$1", "a\\'b", "q\"d", "x''y", "\\", "", "[b?]", "`"]] + \
        [{"kind": "select", "calls": [{"op": "column", "n": "id"}, {"op": "from", "t": ["t1"]},
                                      {"op": "order_by", "e": {"k": "col", "n": "c"}, "o": {"d": "Field", "field": [{"t": "String", "v": c}, {"t": "String", "v": "k"}]}},
                                      {"op": "limit", "n": 3}]} for c in ["a\\", "it's", "?", "$1"]]

def run(tier, replay_path=None):
    t0 = time.time(); pid = "C11"
    wd = workdir(pid); rng = random.Random(seed()); V = Verdict(pid, tier)
    states = gen = mvs = 0
    if replay_path:
        cases = [dict({"id": i, "tpl": r["tpl"], "vals": r["vals"]}, **({"exprs": r["exprs"], "single": r.get("single", False)} if r.get("exprs") else {}))
                 for i, r in enumerate(json.load(open(replay_path))["records"]) if "tpl" in r]
    else:
        n = 3 if tier == "quick" else 4
        cfg = "SPECIFICATION Spec\nCONSTANT MaxItems = %d\nCONSTANT NVals = 3\nINVARIANT Check Emit\nCHECK_DEADLOCK FALSE\n" % n
        mc = run_tlc("MCTemplate", cfg, os.path.join(wd, "mc"), workers=10, heap="6g", young=None, timeout=3400)
        tlc_must_pass(mc, "MCTemplate")
        states, gen, mvs = mc.distinct, mc.generated, len(mc.payloads("MV"))
        words = mc.json_payloads("CASE")
        log("[C11] MC: %d templates (<= %d items of %d), %d model-level counterexamples, %.0fs" % (len(words), n, len(ITEMS), mvs, mc.wall))
        if tier == "quick":
            words = [w for w in words if len(w) <= 2] + sample([w for w in words if len(w) > 2], 4000, rng)
        else:
            words = [w for w in words if len(w) <= 3] + sample([w for w in words if len(w) > 3], 60000, rng)
        tpls = ["".join(ITEMS[i - 1]["s"] for i in w) for w in words]
        for _ in range(800 if tier == "quick" else 15000):
            tpls.append("".join(rng.choice(RAND_ITEMS) for _ in range(rng.randint(1, 9))))
        tpls = list(dict.fromkeys(tpls))
        cases = []
        for t in tpls:
            if rng.random() < 0.2:
                # the same template filled with value-free expressions through cust_with_exprs / cust_with_expr
                ne = rng.randint(1, 3)
                cases.append({"id": len(cases), "tpl": t, "vals": [], "exprs": rng.sample(EXPRPOOL, ne), "single": rng.random() < 0.5})
                continue
            nv = rng.randint(0, 3) if rng.random() < 0.3 else 3
            vals = rng.sample(VALPOOL, nv)
            cases.append({"id": len(cases), "tpl": t, "vals": vals})
    recs, dt = replay("tpl", cases, wd)
    verdicts, vt = validate("TplTrace", recs, os.path.join(wd, "tv"), jvms=12)
    log("[C11] replayed %d templates in %.1fs, validated in %.1fs" % (len(recs), dt, vt))
    byid = {r["id"]: r for r in recs}
    nontriv = drift = ood = 0
    for v in verdicts:
        r = byid[v["id"]]
        ks = set()
        for k in v["keys"]:
            parts = k.split("/")
            # one key per diagnosed cause; undiagnosed failures keep their symptom
            ks.add("C11/%s/%s" % (parts[1], parts[-1]) if parts[-1] != "general" else k)
        for k in sorted(ks):
            V.fail(k, dict({"tpl": r["tpl"], "vals": r["vals"], "obs": r["obs"]}, **({"exprs": r["exprs"], "single": r.get("single", False)} if r.get("exprs") else {})))
        nontriv += 1 if v["nt"] else 0
        ood += v["ood"]
        if not v["exact"]:
            drift += 1
            if drift <= 5: V.note("DRIFT: C11 expansion differs from the modelled token loop for %r" % r["tpl"])
    # second half of the property: inject_parameters(build) = to_string for the statements of the C01/C02 exploration
    import stmtpipe
    sf, snotes, sst = stmtpipe.collect("C11", tier, None, ["C11/"], os.path.join(wd, "stmts"), rng, extra_stmts=EXTRA) if not replay_path else ([], [], {"n": 0, "states": 0, "transitions": 0})
    for k, rec in sf:
        V.fail(k.replace("C11/", "C11/stmt/"), rec)
    states += sst.get("states", 0); gen += sst.get("transitions", 0)
    cov = {"states": max(states, 1), "transitions": max(gen, 1), "traces_validated_against_impl": len(verdicts),
           "evaluations": len(verdicts) * 3, "distinct_nontrivial": nontriv,
           "rule": "templates = every concatenation of <= %d items from {word, digits, space, operators, quoted literal / identifiers with embedded marks and doubled quotes, ?, ??, $, $$, $1, $2, $3, (, comma, backslash, _} (TLC; invariant: modelled token loop = TemplateAbs inside the domain) + random templates with Unicode and edge items; each with up to 3 values through cust_with_values on 3 backends, inline + parameterised + inject_parameters; non-trivial = template has a placeholder in the domain" % (3 if tier == "quick" else 4),
           "samples": [{"tpl": r["tpl"], "vals": r["vals"], "pg": r["obs"]["pg"]} for r in recs[:: max(1, len(recs) // 3)][:3]],
           "statements_checked_for_inject": sst["n"], "model_level_counterexamples": mvs, "backend_cases_outside_domain": ood, "impl_model_exact": drift == 0, "drift": drift}
    return std_finish(pid, tier, t0, V, cov,
                      ["domain: designated value exists; on PostgreSQL a `$` glued to a preceding word character, or `$n` glued to a following word character, is engine-lexer dependent and outside the domain",
                       "inject_parameters is not checked on statements whose SQL contains a literal mark produced by a doubled mark (`??`, `$$`): such SQL is ambiguous by construction"])
