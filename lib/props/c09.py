"""C09 — portable statements denote the same query on all three backends."""
import sqlitefx
from stmtpipe import run_prop
from common import log
RULE = ("statements as for C01 restricted by Portable(s) (feature subset common to MySQL, PostgreSQL and SQLite); TLC transliterates the MySQL and PostgreSQL renderings token by token into SQLite spelling "
        "(identifier quotes, literals, placeholders, set-operation parentheses, ROW(..), IFNULL/COALESCE, GREATEST/MAX, LEAST/MIN, CHAR_LENGTH/LENGTH, RAND/RANDOM) and requires token equality with the SQLite rendering; "
        "each rendering is also parsed with its own dialect's clause grammar and precedence table (EngineGrammar) and must denote the statement built; the three texts (inline, and parameterised with the bound values) are executed on the real SQLite over the fixture and must return the same rows and table contents — this is what checks MySQL's NULLS FIRST/LAST emulation; non-trivial = at least two bound values")
st = {"portable": 0, "executed": 0, "agree": 0, "not_executable": 0}
def _field_order_with_nulls(x):
    """is there an ORDER BY item with Order::Field and a NULLS ordering anywhere in the statement?"""
    if isinstance(x, list): return any(_field_order_with_nulls(y) for y in x)
    if isinstance(x, dict):
        if x.get("op") == "order_by" and isinstance(x.get("o"), dict) and x["o"].get("d") == "Field" and x.get("nulls"): return True
        return any(_field_order_with_nulls(v) for v in x.values() if isinstance(v, (dict, list)))
    return False
def per_record(r, v):
    c = v.get("c09", {})
    if not c.get("portable"): return []
    st["portable"] += 1
    out = []
    # each rendering must denote, under its OWN dialect's grammar and precedence table, the statement that was built
    # (SQLite as the execution proxy cannot see a difference that only another engine's precedence makes)
    for k in v.get("keys", []):
        if (k.startswith("C07/") or k.startswith("C08/")) and ("clause_differs" in k):
            out.append("C09/%s/denotes_a_different_statement_under_its_own_grammar:%s" % (k.split("/")[1], k.split(":")[-1]))
    if not c["pg_tokens_equal"]: out.append("C09/pg/differs_from_sqlite_beyond_lexical_spelling")
    if not c["mysql_tokens_equal"]: out.append("C09/mysql/differs_from_sqlite_beyond_lexical_spelling")
    ordered = bool(v.get("ordered"))
    S = sqlitefx.execute(c["sqlite"], None, ordered)
    if S[0] == "err":
        st["not_executable"] += 1
        return out
    st["executed"] += 1
    ok = True
    o = r["obs"]["r"]
    for B, txt, ptxt in (("mysql", c["mysql"], c["mysql_p"]), ("pg", c["pg"], c["pg_p"])):
        X = sqlitefx.execute(txt, None, ordered)
        try:
            params = [sqlitefx.pyval(x) for x in o[B]["r"]["values"]]
            bindable = all(not isinstance(p, int) or -2**63 <= p < 2**63 for p in params)
        except Exception:
            bindable = False
        Y = sqlitefx.execute(ptxt, params, ordered) if bindable else X
        for name, Z in (("inline", X), ("parameterised", Y)):
            if Z[0] == "err":
                if Z[1] == "syntax":
                    out.append("C09/%s/transliteration_rejected_by_sqlite/%s" % (B, name))
                elif name == "parameterised" and X[0] == "ok" and "binding" in Z[2].lower():
                    # the inline form runs, the parameterised one cannot even be bound: placeholders and values do not correspond
                    out.append("C09/%s/parameterised_form_not_bindable" % B)
                ok = False      # otherwise: a restriction of the SQLite proxy (e.g. expression ORDER BY terms in a compound select), not decidable here
            elif not (Z[2] == S[2] and (Z[1] == S[1] or sorted(Z[1], key=repr) == sorted(S[1], key=repr) and not (ordered and c.get("nulls")))):
                # diagnosed cause: MySQL's emulation tests the column (`c IS NULL`), the native form applies NULLS FIRST / LAST
                # to the CASE expression Order::Field is written as, which is never NULL
                if B == "mysql" and _field_order_with_nulls(r["stmt"]):
                    out.append("C09/mysql/rows_differ_from_sqlite/field_order_with_nulls")
                else:
                    out.append("C09/%s/rows_differ_from_sqlite/%s" % (B, name))
                ok = False
    if ok: st["agree"] += 1
    return out
def run(tier, replay_path=None):
    return run_prop("C09", tier, replay_path, ["C09/"], RULE,
                    ["SQLite 3.40.1 executes the transliterated MySQL / PostgreSQL texts: semantics specific to the other engines (collations, integer division, type coercions) are not observed",
                     "Portable(s) in Portable.tla defines the common feature subset"],
                    per_record=per_record, portable=True, grammar=True,
                    extra_cov=lambda: {"portable_statements": st["portable"], "executed_triples": st["executed"], "triples_agree": st["agree"], "not_executable": st["not_executable"]})
