"""C06 — WHERE/HAVING/ON mean the conjunction of the conditions that were added."""
import json, os, random, sqlite3, time
from common import *
from pipeline import *

TV = ["T", "F", "N"]
VAL = {"T": 1, "F": 0, "N": None}
# places that take a history of calls (join and case take one condition per statement)
HIST_PLACES = ["select", "having", "update", "delete", "select", "having_plain", "update_from2", "conflict", "conflict_target", "select_take", "having_take"]
PLACES = ["select", "having", "update", "delete", "select", "join", "case", "conflict", "having_plain", "update_from2", "conflict_target", "select_take", "having_take"]

def mk_conn():
    conn = sqlite3.connect(":memory:")
    conn.execute('CREATE TABLE t (id INTEGER PRIMARY KEY, p, q, r, x)')
    conn.execute('CREATE TABLE u (z)'); conn.execute('INSERT INTO u VALUES (1)')
    conn.execute('CREATE TABLE v (w)'); conn.execute('INSERT INTO v VALUES (1)')
    n = 0
    for a in TV:
        for b in TV:
            for c in TV:
                n += 1
                conn.execute("INSERT INTO t VALUES (?,?,?,?,0)", (n, VAL[a], VAL[b], VAL[c]))
    conn.commit()
    return conn

def engine_truth(conn, stmt, sql):
    """ids (1..27) for which the engine treats the predicate as TRUE"""
    try:
        if stmt in ("select", "having", "join", "select_take", "having_take"):
            return ("ok", sorted(r[0] for r in conn.execute(sql).fetchall()))
        if stmt == "case":
            rows = conn.execute(sql + " ORDER BY id" if " ORDER BY" not in sql else sql).fetchall()
            return ("ok", [i + 1 for i, r in enumerate(rows) if r[0] == 1])
        if stmt in ("update", "update_from2"):
            conn.execute(sql)
            ids = sorted(r[0] for r in conn.execute("SELECT id FROM t WHERE x = 1").fetchall())
            conn.rollback(); return ("ok", ids)
        if stmt == "delete":
            conn.execute(sql)
            left = set(r[0] for r in conn.execute("SELECT id FROM t").fetchall())
            conn.rollback(); return ("ok", sorted(set(range(1, 28)) - left))
    except Exception as e:
        conn.rollback()
        return ("err", str(e))
    return ("skip", None)

ATOMS = [{"k": "col", "n": "p"}, {"k": "col", "n": "q"}, {"k": "col", "n": "r"},
         {"k": "bin", "op": "Equal", "l": {"k": "col", "n": "r"}, "r": {"k": "val", "v": {"t": "Int", "v": "1"}}},
         {"k": "isnull", "neg": False, "e": {"k": "col", "n": "q"}},
         {"k": "bin", "op": "NotEqual", "l": {"k": "col", "n": "p"}, "r": {"k": "val", "v": {"t": "Int", "v": "0"}}},
         {"k": "not", "e": {"k": "col", "n": "q"}},
         {"k": "bin", "op": "Or", "l": {"k": "col", "n": "p"}, "r": {"k": "col", "n": "r"}},
         {"k": "bin", "op": "And", "l": {"k": "col", "n": "q"}, "r": {"k": "col", "n": "r"}}]
def rand_cond(rng, depth):
    ms = []
    for _ in range(rng.randint(0, 3)):
        x = rng.random()
        if x < 0.1: ms.append({"k": "null"})
        elif x < 0.55 or depth == 0: ms.append(rng.choice(ATOMS))
        else: ms.append(rand_cond(rng, depth - 1))
    c = {"k": "cond", "t": rng.choice(["any", "all"]), "neg": rng.random() < 0.35, "ms": ms}
    if rng.random() < 0.25:
        # not() called two or three times on the same condition
        c["nn"] = rng.choice([2, 3]); c["neg"] = c["nn"] % 2 == 1
    return c

def to_calls(given, rng, place=""):
    calls = []
    for x in given:
        if x["k"] == "cond":
            calls.append({"op": "cond_where", "c": x})
        elif place.startswith("conflict") and rng.random() < 0.34:
            calls.append({"op": "and_where_option", "e": x})
        elif rng.random() < 0.5:
            calls.append({"op": "and_where", "e": x})
        else:
            calls.append({"op": "cond_where", "c": x})
    return calls

def run(tier, replay_path=None):
    t0 = time.time(); pid = "C06"
    wd = workdir(pid); rng = random.Random(seed()); V = Verdict(pid, tier)
    states = gen = 0; mvs = 0
    cases = []
    if replay_path:
        for r in json.load(open(replay_path))["records"]:
            cases.append({"id": len(cases), "stmt": r["stmt"], "calls": r["calls"]})
    else:
        hist = []
        for mode, mc_calls in (("hist", 2 if tier == "quick" else 3), ("single", 1)):
            cfg = ("SPECIFICATION Spec\nCONSTANT MaxCalls = %d\nCONSTANT Mode = \"%s\"\nINVARIANT Check HolderShape Emit\nCHECK_DEADLOCK FALSE\n" % (mc_calls, mode))
            mc = run_tlc("MCCond", cfg, os.path.join(wd, "mc_" + mode), workers=10, heap="8g", young=None, timeout=3400)
            tlc_must_pass(mc, "MCCond/" + mode)
            states += mc.distinct; gen += mc.generated; mvs += len(mc.payloads("MV"))
            hs = mc.json_payloads("CASE")
            log("[C06] MC %s: %d states, %d histories, %d model-level counterexamples, %.0fs" % (mode, mc.distinct, len(hs), len(mc.payloads("MV")), mc.wall))
            hist.append(hs)
        h_hist, h_single = hist
        if tier == "quick":
            short = [h for h in h_hist if len(h) == 1]
            h_hist = short + sample([h for h in h_hist if len(h) > 1], 1200, rng)
            h_single = sample(h_single, 900, rng)
        else:
            h_hist = [h for h in h_hist if len(h) <= 2] + sample([h for h in h_hist if len(h) > 2], 40000, rng)
        for k, h in enumerate(h_hist):
            pl = HIST_PLACES[k % len(HIST_PLACES)]
            cases.append({"id": len(cases), "stmt": pl, "calls": to_calls(h, rng, pl)})
        for k, h in enumerate(h_single):
            pl = PLACES[k % len(PLACES)]
            cases.append({"id": len(cases), "stmt": pl, "calls": to_calls(h, rng, pl)})
        # random deeper / wider trees and longer histories
        for k in range(600 if tier == "quick" else 12000):
            n = rng.randint(1, 5)
            given = [rand_cond(rng, rng.randint(0, 3)) if rng.random() < 0.7 else rng.choice(ATOMS) for _ in range(n)]
            pl = PLACES[k % len(PLACES)]
            cases.append({"id": len(cases), "stmt": pl, "calls": to_calls(given, rng, pl)})
    if not replay_path:
        import copy, exprmeth
        cases = [exprmeth.annotate(copy.deepcopy(c), rng, 0.7) for c in cases]
    recs, dt = replay("cond", cases, wd)
    verdicts, vt = validate("CondTrace", recs, os.path.join(wd, "tv"), jvms=12)
    log("[C06] replayed %d histories in %.1fs, validated in %.1fs" % (len(recs), dt, vt))
    byid = {r["id"]: r for r in recs}
    conn = mk_conn()
    nontriv = drift = engine_checked = gaps = undecided = 0
    for v in verdicts:
        r = byid[v["id"]]
        keys = set(v["keys"])
        undecided += 1 if v["undecided"] else 0
        if r.get("steps") and v["tt"] and not v["undecided"]:
            last = r["steps"][-1]
            o = last["obs"]["sqlite"]
            if "r" in o and "?" not in v["tt"]:
                st, ids = engine_truth(conn, r["stmt"], o["r"])
                if st != "skip":
                    engine_checked += 1
                    want = [i + 1 for i, t in enumerate(v["tt"]) if t == "T"]
                    mk = {k for k in keys if "/sqlite/" in k}
                    if st == "err":
                        if not mk:
                            gaps += 1; V.note("MODEL-GAP: C06 sqlite engine rejects %r: %s" % (o["r"], ids))
                            keys.add("C06/%s/sqlite/engine_rejects" % r["stmt"])
                    elif ids != want and not mk:
                        gaps += 1; V.note("MODEL-GAP: C06 engine truth table differs from the model's for %r" % o["r"])
                        keys.add("C06/%s/sqlite/engine_rows_differ" % r["stmt"])
                    elif ids == want and mk:
                        gaps += 1; keys -= mk
                        V.note("MODEL-GAP: C06 model rejects %r but the engine's truth table is the demanded one" % o["r"])
        for k in sorted(keys):
            V.fail(k, {"stmt": r["stmt"], "calls": r["calls"], "steps": r.get("steps")})
        nontriv += 1 if v["nt"] else 0
        if not v["exact"]:
            drift += 1
            if drift <= 5: V.note("DRIFT: C06 clause tokens differ from the modelled holder for case %s" % json.dumps(r["calls"])[:300])
    cov = {"states": max(states, 1), "transitions": max(gen, 1), "traces_validated_against_impl": len(verdicts),
           "evaluations": sum(len(r.get("steps", [])) for r in recs) * 3, "distinct_nontrivial": nontriv,
           "rule": "histories = TLC state space of the Cond state machine: all sequences of <= %d condition-adding calls over 71 supplied conditions (atoms, all depth-1 groups of width <= 2 over {p, q, absent option} with every type/negate flag, representative depth-2 groups), + all single depth-2 groups (3.9k; sampled in quick), + random trees to depth 4 / histories to length 5; placed in SELECT WHERE / HAVING / UPDATE / DELETE / JOIN ON / CASE WHEN / ON CONFLICT WHERE; every intermediate rendering parsed and evaluated under all 27 three-valued assignments; non-trivial = some call supplied a condition group" % (2 if tier == "quick" else 3),
           "samples": [{"stmt": r["stmt"], "calls": r["calls"], "last": r["steps"][-1] if r.get("steps") else None} for r in recs[:: max(1, len(recs) // 3)][:3]],
           "model_level_counterexamples": mvs, "sqlite_engine_checked": engine_checked, "model_gaps": gaps, "undecided": undecided,
           "impl_model_exact": drift == 0, "drift": drift}
    return std_finish(pid, tier, t0, V, cov,
                      ["Kleene three-valued logic for AND/OR/NOT/=/<>/IS; atoms are nullable boolean columns p, q, r and simple predicates over them",
                       "SQLite 3.40.1 truth tables (27-row table) are authoritative for the SQLite dialect",
                       "legacy and_or_where chains are outside the property"])
