"""C14 — MySQL and Postgres schema statements are complete and well-formed."""
from schemapipe import run_schema
def run(tier, replay_path=None):
    return run_schema("C14", tier, replay_path, ["C14/"])
