"""C12 — Rust values survive the trip through Value unchanged."""
import json, os, random, time
from common import *
from pipeline import *

def run(tier, replay_path=None):
    t0 = time.time(); pid = "C12"
    wd = workdir(pid); rng = random.Random(seed()); V = Verdict(pid, tier)
    states = gen = 0
    if replay_path:
        cases = [dict(r["case"], id=i) for i, r in enumerate(json.load(open(replay_path))["records"])]
    else:
        cfg = "SPECIFICATION Spec\nINVARIANT RoundTrip NoneRoundTrip SomeNeverNone WrongTypeFails NullNeedsOption Emit\nCHECK_DEADLOCK FALSE\n"
        mc = run_tlc("MCValue", cfg, os.path.join(wd, "mc"), workers=4, heap="2g", young=None)
        tlc_must_pass(mc, "MCValue")
        states, gen = mc.distinct, mc.generated
        cells = mc.json_payloads("CASE")
        log("[C12] MC: conversion matrix of %d cells; laws hold on the table" % len(cells))
        cases = [dict(c, id=i, kind="cell") for i, c in enumerate(cells)]
        for n in range(1, 13):
            cases.append({"id": len(cases), "kind": "tuple", "n": n})
        sweeps = [("i8", 1), ("u8", 1), ("i16", 1), ("u16", 1)]
        if tier == "quick":
            sweeps += [("i32", 65521), ("u32", 65521), ("f32", 65521), ("char", 7)]
        else:
            sweeps += [("i32", 251), ("u32", 251), ("f32", 127), ("char", 1)]
        for ty, st in sweeps:
            cases.append({"id": len(cases), "kind": "sweep", "ty": ty, "stride": st})
    recs, dt = replay("value", cases, wd, flavour="full")
    verdicts, vt = validate("ValueTrace", recs, os.path.join(wd, "tv"), jvms=8)
    log("[C12] replayed %d cases in %.1fs, validated in %.1fs" % (len(recs), dt, vt))
    byid = {c["id"]: c for c in cases}
    nontriv = 0; evals = 0
    for v in verdicts:
        for k in sorted(set(v["keys"])):
            V.fail(k, {"case": byid[v["id"]]})
        nontriv += 1 if v["nt"] else 0
        evals += v["n"]
    cov = {"states": max(states, 1), "transitions": max(gen, 1), "traces_validated_against_impl": len(verdicts),
           "evaluations": evals, "distinct_nontrivial": nontriv,
           "rule": "cells = the full (source type x target type x Option? x NULL?) matrix over 33 source and 34 target types (TLC, one state per cell; laws RoundTrip / NoneRoundTrip / SomeNeverNone / WrongTypeFails on the table), each executed on the real crate with a payload pool per source type (boundaries, -0.0, infinities, chars across planes, empty / large strings and byte vectors, JSON, chrono, time, decimal, uuid, ipnetwork, mac address, arrays) + tuples of arity 1..12 + identity sweeps (8/16-bit exhaustive, strided 32-bit / f32 bit patterns / chars); non-trivial = same-variant cell, tuple or sweep",
           "samples": [c for c in cases[:: max(1, len(cases) // 4)][:4]], "exhaustive": False}
    return std_finish(pid, tier, t0, V, cov, ["payloads are compared through their Debug text / bit patterns by the harness; the TLA+ content is the conversion matrix",
                                             "the uuid format wrappers (Braced, Hyphenated, Simple, Urn) are not in the matrix"])
