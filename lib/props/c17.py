"""C17 — escape_string and unescape_string are inverse on every backend."""
import json, os, random, time
from common import *
from pipeline import *
import strgen

def run(tier, replay_path=None):
    t0 = time.time(); pid = "C17"
    wd = workdir(pid); rng = random.Random(seed()); V = Verdict(pid, tier)
    states = gen = 0
    if replay_path:
        strings = [r["s"] for r in json.load(open(replay_path))["records"]]
    else:
        fl, cl = (2, 5) if tier == "quick" else (3, 6)
        s1, r1 = strgen.mc_escape(os.path.join(wd, "mc_full"), "esc_alpha_full.json", fl, check_decode=False)
        s2, r2 = strgen.mc_escape(os.path.join(wd, "mc_core"), "esc_alpha_core.json", cl, check_decode=False)
        # every ASCII character and every ordered pair of them (control characters next to digits and letters included)
        s3, r3 = strgen.mc_escape(os.path.join(wd, "mc_ascii"), "esc_alpha_ascii.json", 2, check_decode=False)
        states, gen = r1.distinct + r2.distinct + r3.distinct, r1.generated + r2.generated + r3.generated
        log("[C17] MC: full<=%d: %d strings, core<=%d: %d strings, ascii<=2: %d strings (RoundTrip holds on the model)" % (fl, len(s1), cl, len(s2), len(s3)))
        strings = list(dict.fromkeys(s1 + s2 + s3 + strgen.rand_strings(rng, 3000 if tier == "quick" else 60000)))
    cases = [{"id": i, "s": s} for i, s in enumerate(strings)]
    recs, dt = replay("esc", cases, wd)
    verdicts, vt = validate("EscTrace", recs, os.path.join(wd, "tv"), jvms=8)
    byid = {r["id"]: r for r in recs}
    nontriv = 0; drift = 0
    for v in verdicts:
        r = byid[v["id"]]
        for k in v["keys"]:
            V.fail(k, {"s": r["s"], "obs": r["obs"]})
        nontriv += 1 if v["nt"] else 0
        if not v["exact"]:
            drift += 1
            if drift <= 5:
                V.note("DRIFT: C17 escape/unescape differs from the modelled chain on %r" % r["s"])
    cov = {"states": max(states, 1), "transitions": max(gen, 1), "traces_validated_against_impl": len(verdicts),
           "evaluations": len(verdicts) * 3, "distinct_nontrivial": nontriv,
           "rule": "strings = all words over the 24-symbol escape alphabet (short) and the 6-symbol core alphabet (longer) and all words of at most two ASCII characters (128 symbols), enumerated by TLC (MCEscape, invariant RoundTrip on the modelled replace chain), + seeded random Unicode strings; each replayed through escape_string/unescape_string of the 3 real backends; non-trivial = escaping changed the string on some backend",
           "samples": [{"s": r["s"], "obs": r["obs"]} for r in recs[:: max(1, len(recs) // 4)][:4]],
           "impl_model_exact": drift == 0, "drift": drift, "exhaustive": False}
    return std_finish(pid, tier, t0, V, cov, ["TLC and its JSON reader are correct", "the harness copies escape_string/unescape_string results verbatim"])
