"""C07 — on SQLite, a built statement does what the builder calls say."""
import json
import sqlitefx
from stmtpipe import run_prop
from common import ToolError, log

RULE = ("statements as for C01 restricted to SQLite-supported features; (a) the inline rendering is parsed by SQLite's clause grammar in TLA+ (EngineGrammar) and compared with Expected(sqlite, builder state); "
        "(b) the inline form, the parameterised form with its values, and RefStmt — an independently written, fully explicit rendering of the same builder state printed by TLC — are each executed on the real SQLite 3.40.1 over a fresh three-table fixture; result rows / RETURNING rows / table snapshots must agree (classification table in DESIGN.md §5 C07); non-trivial = at least two bound values")

stats = {"executed": 0, "pass": 0, "skipped_not_executable": 0, "model_gap": 0, "ref_invalid": []}

def same(a, b, ordered):
    if a[1] == b[1] and a[2] == b[2]: return True
    if a[2] != b[2]: return False
    return sorted(a[1], key=repr) == sorted(b[1], key=repr) and not ordered or (sorted(a[1], key=repr) == sorted(b[1], key=repr) and ordered and False)

def engine_record(r, v):
    ref = v.get("ref", "")
    ob = r["obs"].get("r", {}).get("sqlite", {})
    if not ref or "r" not in ob: return []
    o = ob["r"]
    ordered = bool(v.get("ordered"))
    F = sqlitefx.execute(ref, None, ordered)
    I = sqlitefx.execute(o["inline"], None, ordered)
    try:
        params = [sqlitefx.pyval(x) for x in o["values"]]
        P = sqlitefx.execute(o["sql"], params, ordered) if all(not isinstance(p, int) or -2**63 <= p < 2**63 for p in params) else I
    except Exception:
        P = I
    stats["executed"] += 1
    model_keys = [k for k in v["keys"] if k.startswith("C07/sqlite/")]
    model_reject = [k for k in model_keys if "/rejected:" in k]
    out = []
    if F[0] == "err":
        if I[0] == "err" and I[1] == F[1] == "other":
            stats["skipped_not_executable"] += 1       # e.g. misuse of aggregate: outside the executable domain
            return ["-" + k for k in model_reject]
        if I[0] == "ok":
            stats["ref_invalid"].append((ref, F[2]))
            return []
        # both rejected, F with a syntax error: RefStmt itself is wrong
        if F[1] == "syntax":
            stats["ref_invalid"].append((ref, F[2]))
        else:
            stats["skipped_not_executable"] += 1
        return ["-" + k for k in model_reject]
    for name, X in (("inline", I), ("parameterised", P)):
        if X[0] == "err":
            if X[1] == "syntax":
                if model_reject:
                    out += model_reject            # engine confirms the model's reject reason
                else:
                    stats["model_gap"] += 1
                    log("MODEL-GAP: C07 sqlite engine rejects %r (%s) accepted by the grammar model" % (o["inline" if name == "inline" else "sql"][:200], X[2]))
                    out.append("C07/sqlite/engine_rejects/syntax")
            else:
                out.append("C07/sqlite/engine_rejects/" + name + "/" + X[2].split(":")[0].replace(" ", "_")[:40])
        else:
            eq = X[1] == F[1] and X[2] == F[2]
            if not eq and X[2] == F[2] and sorted(X[1], key=repr) == sorted(F[1], key=repr):
                eq = True          # same multiset: order among ties is the engine's choice
            if not eq:
                out.append("C07/sqlite/rows_differ/" + name)
    if I[0] == "ok" and P[0] == "ok" and not out:
        stats["pass"] += 1
        if model_reject:
            stats["model_gap"] += 1
            log("MODEL-GAP: C07 grammar model rejects %r (%s) but the engine accepts it with the reference's result" % (o["inline"][:200], model_reject[0]))
            out += ["-" + k for k in model_reject]     # engine is authoritative: drop the model's rejection
    return out

def run(tier, replay_path=None):
    def per_record(r, v):
        ks = engine_record(r, v)
        return ks
    def cov():
        if stats["ref_invalid"]:
            for ref, msg in stats["ref_invalid"][:5]:
                log("REF-INVALID: %s :: %s" % (msg, ref[:300]))
        return {"sqlite_engine_statements_executed": stats["executed"], "sqlite_engine_agree": stats["pass"],
                "outside_executable_domain": stats["skipped_not_executable"], "model_gaps": stats["model_gap"], "reference_renderings_rejected": len(stats["ref_invalid"])}
    rc = run_prop("C07", tier, replay_path, ["C07/"], RULE,
                  ["SQLite 3.40.1 (python3 sqlite3, ENABLE_UPDATE_DELETE_LIMIT) is the authority; the grammar model only names the reason",
                   "RefStmt.tla is trusted as the meaning of the builder calls; a reference the engine rejects aborts the run",
                   "row order is compared only under ORDER BY and ties are the engine's choice"],
                  per_record=per_record, extra_cov=cov, grammar=True)
    if stats["ref_invalid"] and rc == 0:
        for ref, msg in stats["ref_invalid"][:5]: log("  rejected reference: %s | %s" % (ref[:300], msg))
        print("TOOL-ERROR: %d reference renderings were rejected by the engine" % len(stats["ref_invalid"]))
        return 2
    return rc
