"""generate (TLC MCMenu over schema_menu.json) -> replay (harness schema family) -> SQLite engine catalogue dumps -> validate (TLC SchemaTrace)"""
import json, os, random, time
from common import *
from pipeline import *
import schemagen, sqlitecat

RULES = {"C13": "declared histories = TLC-enumerated pick vectors over (%d column types incl. parameters) x (%d ordered specification lists) x (%d table-level extras: composite / named keys with directions and prefix lengths, unique indexes, foreign keys with actions, checks, options, IF NOT EXISTS) x two follow-up statements out of %d (ADD / RENAME / DROP COLUMN, RENAME TABLE, CREATE [UNIQUE] INDEX with directions / predicates / types, DROP INDEX, DROP TABLE, foreign keys, types, extensions, ...), pairwise-complete plus simulated walks (quick: every single choice and every type x specification pair, a sample of the other pairs);" % (len(schemagen.TYPES), len(schemagen.SPECS), len(schemagen.EXTRAS), len(schemagen.FOLLOW) - 1) + " the SQLite rendering of each step is executed on the real engine and PRAGMA table_xinfo / index_list / index_xinfo / foreign_key_list / sqlite_master are compared by TLC with the catalogue model stepped on the declarations (SqliteCatalog.tla), incl. type affinity; non-trivial = at least one step inside SQLite's feature set",
         "C14": "declared histories as for C13; the MySQL and PostgreSQL renderings of every step (CREATE / ALTER / RENAME / DROP / TRUNCATE TABLE, CREATE / DROP INDEX, foreign keys, PostgreSQL CREATE / ALTER / DROP TYPE) are parsed by the dialect's DDL grammar in TLA+ (EngineDDL) and compared with the declaration: every column once with one type the dialect defines (parameters, UNSIGNED, serial types), each specification once and in order, table-level elements, ALTER actions correctly separated; non-trivial = history with a follow-up statement"}

def collect_schema(pid, tier, replay_path, prefixes, wd, rng, quick_cap=3600, flavour="base"):
    states = gen = 0
    if replay_path:
        hists = [r["history"] for r in json.load(open(replay_path))["records"]]
    else:
        schemagen.write_menu(os.path.join(SPEC, "schema_menu.json"))
        cfg = "SPECIFICATION Spec\nCONSTANT MenuFile = \"schema_menu.json\"\nCONSTANT Budget = 2\nCONSTANT MenuKinds = {\"schema\"}\nINVARIANT PicksInRange Emit\nCHECK_DEADLOCK FALSE\n"
        # design check on the implementation-level model of the DDL renderers (no implementation involved)
        ds = run_tlc("MCSchema", "SPECIFICATION Spec\nINVARIANT LexesCleanly Check\nCHECK_DEADLOCK FALSE\n", os.path.join(wd, "design"), workers=8, heap="4g", young=None, timeout=3000)
        tlc_must_pass(ds, "MCSchema")
        mvs = ds.json_payloads("MV")
        log("[%s] MCSchema: %d declarations rendered by the model and parsed by the MySQL / PostgreSQL DDL grammars; %d model-level counterexamples (%s)"
            % (pid, ds.distinct, len(mvs), ", ".join(sorted(set(x for m in mvs for x in list(m["mysql"]) + list(m["pg"]))))[:300]))
        mc = run_tlc("MCMenu", cfg, os.path.join(wd, "mc"), workers=8, heap="4g", young=None, timeout=3000)
        tlc_must_pass(mc, "MCMenu(schema)")
        states, gen = mc.distinct + ds.distinct, mc.generated + ds.generated
        picks = [c["picks"] for c in mc.json_payloads("CASE")]
        sim = run_tlc("MCMenu", cfg.replace("Budget = 2", "Budget = 99"), os.path.join(wd, "sim"), workers=2, heap="2g", young=None,
                      simulate="num=%d" % (300 if tier == "quick" else 6000), depth=8, tseed=seed())
        picks += [c["picks"] for c in sim.json_payloads("CASE")]
        picks = [list(p) for p in dict.fromkeys(tuple(p) for p in picks)]
        if tier == "quick" and len(picks) > quick_cap:
            # the quick tier keeps every single choice and every (column type, specification list) pair of the table under test
            # (slots 1 and 2 of the pick vector) and samples the other combinations
            keep = [p for p in picks if sum(1 for x in p if x > 1) <= 1 or all(x == 1 for x in p[2:])]
            rest = [p for p in picks if not (sum(1 for x in p if x > 1) <= 1 or all(x == 1 for x in p[2:]))]
            picks = keep + sample(rest, max(1, quick_cap - len(keep)), rng)
        hists = [schemagen.assemble(p) for p in picks]
        log("[%s] MC: %d states; %d declared histories" % (pid, states, len(hists)))
    if not replay_path:
        # half of the typed column definitions set their type through the ColumnDef method documented for it (spec/column_methods.json)
        hists = [schemagen.annotate_methods(h, rng) for h in hists]
    cases = [{"id": i, "history": h} for i, h in enumerate(hists)]
    recs, dt = replay("schema", cases, wd, flavour=flavour)
    # the real SQLite executes the SQLite renderings step by step
    neng = 0
    for r in recs:
        sqls = []
        for st in r["steps"]:
            o = st.get("r", {}).get("r", {}).get("sqlite") if "r" in st else None
            sqls.append(o["r"] if o and "r" in o else None)
        r["engine"] = sqlitecat.run_history(sqls)
        neng += sum(1 for e in r["engine"] if e["exec"] == "ok")
    verdicts, vt = validate("SchemaTrace", recs, os.path.join(wd, "tv"), jvms=12)
    log("[%s] replayed %d histories in %.1fs, %d statements executed on SQLite, validated in %.1fs" % (pid, len(recs), dt, neng, vt))
    byid = {r["id"]: r for r in recs}
    nontriv = 0; fails = []; drift = {}
    for v in verdicts:
        r = byid[v["id"]]
        for dk in v.get("drift", []): drift[dk] = drift.get(dk, 0) + 1
        if any(k.startswith("!case_error") for k in v["keys"]):
            raise ToolError("%s: history %d: %s" % (pid, v["id"], [k for k in v["keys"] if k.startswith("!")]))
        for k in sorted(set(v["keys"])):
            if any(k.startswith(p) for p in prefixes):
                fails.append((k, {"history": r["history"], "steps": r["steps"], "engine": [{"exec": e["exec"], "msg": e["msg"]} for e in r["engine"]]}))
        nontriv += 1 if (v["n13"] > 0 if pid == "C13" else v["nsteps"] > 2) else 0
    stats = {"states": max(states, 1), "transitions": max(gen, 1), "n": len(verdicts), "evals": sum(len(r["steps"]) for r in recs), "nontriv": nontriv,
             "samples": [{"history": r["history"]} for r in recs[:: max(1, len(recs) // 3)][:3]], "neng": neng, "drift": drift}
    return fails, stats

def run_schema(pid, tier, replay_path, prefixes):
    t0 = time.time()
    wd = workdir(pid); rng = random.Random(seed()); V = Verdict(pid, tier)
    fails, st = collect_schema(pid, tier, replay_path, prefixes, wd, rng)
    for k, rec in fails: V.fail(k, rec)
    exact_n = 0
    if pid == "C13" and tier == "thorough" and not replay_path:
        # the same declaration space with the crate built under option-sqlite-exact-column-type (integer types all spelled "integer")
        import os
        f2, st2 = collect_schema(pid, "quick", None, prefixes, os.path.join(wd, "exact"), rng, flavour="exact")
        for k, rec in f2: V.fail(k.replace("C13/", "C13/exact_column_type/", 1), rec)
        exact_n = st2["n"]
    cov = {"states": st["states"], "transitions": st["transitions"], "traces_validated_against_impl": st["n"],
           "evaluations": st["evals"], "distinct_nontrivial": st["nontriv"], "rule": RULES.get(pid, ""),
           "samples": st["samples"], "sqlite_statements_executed": st["neng"], "impl_model_exact": not st["drift"], "drift": st["drift"], "histories_under_option_sqlite_exact_column_type": exact_n}
    return std_finish(pid, tier, t0, V, cov,
                      ["SQLite 3.40.1 catalogue (PRAGMAs) is the observation for C13; the catalogue model's engine rules are re-validated by every run",
                       "MySQL 8.0 / PostgreSQL 15 DDL grammars and data-type tables as transcribed in EngineDDL.tla",
                       "the implementation-level model of the DDL renderers (Schema.tla) is reported as impl_model_exact / drift and never decides"])
