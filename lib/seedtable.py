#!/usr/bin/env python3
"""Markdown table of the seeded changes from /verif/seeded/*/meta.json (for DESIGN.md §12.7)."""
import json, glob, os
rows = []
for d in sorted(glob.glob("/verif/seeded/*/")):
    m = json.load(open(os.path.join(d, "meta.json")))
    c = m.get("confirmed_by_me", {})
    what = m["what"].replace("|", "\\|").replace("\n", " ")
    if len(what) > 230: what = what[:227] + "..."
    rows.append("| %s | %s | %s |" % (os.path.basename(d.rstrip("/")), what, c.get("result", "?").replace("|", "\\|")))
print("| seed | the change (compiles, suite passes) | caught by |\n|---|---|---|")
print("\n".join(rows))
