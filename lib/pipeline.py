"""generate (TLC) -> replay (harness) -> validate (TLC) building blocks."""
import os, json, time, random
from concurrent.futures import ThreadPoolExecutor
from common import *

TRACE_CFG = "SPECIFICATION Spec\nPOSTCONDITION AllConsumed\nCHECK_DEADLOCK FALSE\n"

def validate(trace_module, records, wd, jvms=6, heap="1500m", cfg=TRACE_CFG, tag="R", env=None, timeout=3000):
    """Split the recorded observations into chunks and let TLC validate each
    chunk with spec/<trace_module>.tla.  Returns the decoded verdict records in
    input order.  Every record must produce exactly one verdict line."""
    n = len(records)
    if n == 0:
        return [], 0.0
    jvms = max(1, min(jvms, (n + 199) // 200))
    size = (n + jvms - 1) // jvms
    chunks = [records[i:i + size] for i in range(0, n, size)]
    def one(ix):
        cwd = os.path.join(wd, "v%d" % ix)
        os.makedirs(cwd, exist_ok=True)
        tp = os.path.join(cwd, "trace.ndjson")
        write_ndjson(tp, chunks[ix])
        e = {"TRACE": tp}
        if env:
            e.update(env)
        r = run_tlc(trace_module, cfg, cwd, env=e, workers=1, heap=heap, timeout=timeout)
        if not r.ok:
            raise ToolError("trace validation %s chunk %d failed: %s\n%s" % (trace_module, ix, r.violation, "\n".join(r.raw_tail[-30:])))
        out = r.json_payloads(tag)
        if len(out) != len(chunks[ix]):
            raise ToolError("trace validation %s chunk %d: %d verdicts for %d records" % (trace_module, ix, len(out), len(chunks[ix])))
        return out, r
    t0 = time.time()
    with ThreadPoolExecutor(max_workers=len(chunks)) as ex:
        parts = list(ex.map(one, range(len(chunks))))
    verdicts = []
    for out, _ in parts:
        verdicts.extend(out)
    return verdicts, time.time() - t0

def replay(family, cases, wd, flavour="base", name="cases", extra=None):
    exe = build_harness(flavour)
    inp = os.path.join(wd, name + ".in.ndjson")
    outp = os.path.join(wd, name + ".out.ndjson")
    write_ndjson(inp, cases)
    dt = run_harness(exe, family, inp, outp, extra=extra)
    recs = read_ndjson(outp)
    return recs, dt

def sample(items, frac_or_n, rng):
    items = list(items)
    if isinstance(frac_or_n, float):
        k = max(1, int(len(items) * frac_or_n))
    else:
        k = min(len(items), frac_or_n)
    idx = sorted(rng.sample(range(len(items)), k))
    return [items[i] for i in idx]

def std_finish(pid, tier, t0, verdict, coverage, assumptions):
    code, nviol, hit = verdict.finish()
    coverage["known_findings_hit"] = hit
    coverage["notes"] = verdict.notes[:50]
    write_evidence(pid, tier, t0, coverage, assumptions, nviol)
    log("[%s] tier=%s wall=%.1fs violations=%d known=%d exit=%d" % (pid, tier, time.time() - t0, nviol, len(hit), code))
    return code
