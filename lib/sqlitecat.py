"""Executes a SQLite DDL history on a fresh in-memory database and dumps the engine's own catalogue
after every statement (PRAGMA table_xinfo / index_list / index_xinfo / foreign_key_list, sqlite_master)."""
import sqlite3

def dump(conn):
    tables = []
    for (name, sql) in conn.execute("SELECT name, sql FROM sqlite_master WHERE type='table' AND name NOT LIKE 'sqlite_%' ORDER BY rowid").fetchall():
        cols = [{"cid": r[0], "name": r[1], "type": r[2], "notnull": r[3], "dflt": r[4] if r[4] is not None else "", "has_dflt": r[4] is not None, "pk": r[5], "hidden": r[6]}
                for r in conn.execute('PRAGMA table_xinfo("%s")' % name.replace('"', '""')).fetchall()]
        idx = []
        for r in conn.execute('PRAGMA index_list("%s")' % name.replace('"', '""')).fetchall():
            xi = conn.execute('PRAGMA index_xinfo("%s")' % r[1].replace('"', '""')).fetchall()
            isql = conn.execute("SELECT sql FROM sqlite_master WHERE type='index' AND name=?", (r[1],)).fetchone()
            idx.append({"name": r[1], "unique": r[2], "origin": r[3], "partial": r[4], "sql": (isql[0] if isql and isql[0] else ""),
                        "cols": [{"n": x[2] if x[2] is not None else "", "desc": x[3]} for x in xi if x[5] == 1]})
        fks = {}
        for r in conn.execute('PRAGMA foreign_key_list("%s")' % name.replace('"', '""')).fetchall():
            f = fks.setdefault(r[0], {"table": r[2], "from": [], "to": [], "on_update": r[5], "on_delete": r[6]})
            f["from"].append(r[3]); f["to"].append(r[4] if r[4] is not None else "")
        tables.append({"name": name, "sql": sql or "", "cols": cols, "indexes": sorted(idx, key=lambda i: i["name"]),
                       "fks": [fks[k] for k in sorted(fks)], "autoinc": "AUTOINCREMENT" in (sql or "").upper()})
    return {"tables": tables}

def run_history(stmts):
    """stmts: list of SQL strings or None (statement not rendered / unsupported).  Returns per step {"exec": "ok"|"skip"|error, "class", "cat"}"""
    conn = sqlite3.connect(":memory:")
    conn.execute("PRAGMA foreign_keys = OFF")
    out = []
    for s in stmts:
        if s is None:
            out.append({"exec": "skip", "msg": "", "cat": dump(conn)}); continue
        try:
            conn.execute(s)
            out.append({"exec": "ok", "msg": "", "cat": dump(conn)})
        except Exception as e:
            out.append({"exec": "error", "msg": str(e), "cat": dump(conn)})
    conn.close()
    return out
