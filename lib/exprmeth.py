"""Annotates binary nodes of expression JSON with the named builder method to call ("m");
the table method -> operator is spec/expr_methods.json (read by ExprLaw.tla as well)."""
import json, os
from common import SPEC
TABLE = json.load(open(os.path.join(SPEC, "expr_methods.json")))
BY_OP = {}
for m, op in TABLE.items():
    BY_OP.setdefault(op, []).append(m)

def annotate(x, rng, p=0.8):
    """in place; returns x"""
    if isinstance(x, list):
        for y in x: annotate(y, rng, p)
    elif isinstance(x, dict):
        if x.get("k") == "bin" and "m" not in x and x.get("op") in BY_OP and rng.random() < p:
            ms = [m for m in BY_OP[x["op"]] if m not in ("equals", "not_equals") or (isinstance(x.get("r"), dict) and x["r"].get("k") == "col")]
            if ms: x["m"] = rng.choice(ms)
        for v in x.values():
            if isinstance(v, (dict, list)): annotate(v, rng, p)
    return x
