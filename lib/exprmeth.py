"""Annotates binary nodes of expression JSON with the named builder method to call ("m");
the table method -> operator is spec/expr_methods.json (read by ExprLaw.tla as well)."""
import json, os
from common import SPEC
TABLE = json.load(open(os.path.join(SPEC, "expr_methods.json")))
BY_OP = {}
for m, op in TABLE.items():
    BY_OP.setdefault(op, []).append(m)

def annotate(x, rng, p=0.8):
    """in place; returns x"""
    if isinstance(x, list):
        for y in x: annotate(y, rng, p)
    elif isinstance(x, dict):
        if x.get("k") == "bin" and "m" not in x and x.get("op") in BY_OP and rng.random() < p:
            def ok(m):
                r = x.get("r") if isinstance(x.get("r"), dict) else {}
                if m in ("equals", "not_equals"): return r.get("k") == "col"
                if m == "in_tuples": return r.get("k") == "tuple" and all(isinstance(y, dict) and y.get("k") == "vals" for y in r.get("es", []))
                return True
            ms = [m for m in BY_OP[x["op"]] if ok(m)]
            if ms: x["m"] = rng.choice(ms)
        # a third of the eligible nodes go through the `Expr` struct (Expr::expr(operand).method(..)) instead of ExprTrait on SimpleExpr
        k = x.get("k")
        if "x" not in x and rng.random() < 0.33:
            if k == "bin" and x.get("m") in VIA_STRUCT_BIN: x["x"] = True
            elif k in ("not", "between", "in", "insub", "isnull", "cast", "asenum") and isinstance(x.get("e"), dict): x["x"] = True
            elif k == "like" and not x.get("ci") and isinstance(x.get("e"), dict): x["x"] = True
            elif k in ("cust", "tuple", "col", "val") or (k == "kw" and x.get("w") != "Null"): x["x"] = True
            elif k == "fn" and ((x.get("f") in ("Max", "Min", "Sum", "Count", "CountDistinct") and len(x.get("args", [])) == 1) or (x.get("f") == "IfNull" and len(x.get("args", [])) == 2)): x["x"] = True
        # frame clauses: through frame(), or through frame_start / frame_between
        if "start" in x and "type" in x and "m" not in x and "k" not in x and rng.random() < 0.5:
            x["m"] = "frame_between" if x.get("end") is not None else "frame_start"
        for v in x.values():
            if isinstance(v, (dict, list)): annotate(v, rng, p)
    return x

VIA_STRUCT_BIN = {"eq", "ne", "gt", "gte", "lt", "lte", "add", "sub", "mul", "div", "modulo", "left_shift", "right_shift", "is", "is_not", "equals", "not_equals", "in_tuples"}

# ---- statement-level "sugar" methods (spec/stmt_methods.json; read by StmtLaw.tla as well) -------------
STMT_TABLE = json.load(open(os.path.join(SPEC, "stmt_methods.json")))
def _applicable(c, kind):
    out = []
    for m, t in STMT_TABLE.items():
        if t["op"] != c.get("op") or kind not in t.get("on", ["select"]): continue
        if t.get("needs") == "one_col" and not (isinstance(c.get("r"), dict) and len(c["r"].get("cols", [])) == 1): continue
        if t.get("needs") == "all" and not (isinstance(c.get("r"), dict) and c["r"].get("all")): continue
        if "jt" in t and (t["jt"] != c.get("jt") or "a" in c): continue
        if "type" in t and (t["type"] != c.get("type") or c.get("tables") or c.get("behavior")): continue
        if t.get("needs") == "col" and not (isinstance(c.get("e"), dict) and c["e"].get("k") == "col"): continue
        out.append(m)
    return out

def annotate_calls(x, rng, p=0.5):
    """in place: calls of SELECT statements (at any nesting depth) get the equivalent method to go through"""
    if isinstance(x, list):
        for y in x: annotate_calls(y, rng, p)
    elif isinstance(x, dict):
        if x.get("kind") == "select" and isinstance(x.get("calls"), list) and "take" not in x and rng.random() < 0.3:
            x["take"] = True        # built with Query::select()....take()
        if x.get("kind") in ("select", "update", "delete", "insert") and isinstance(x.get("calls"), list):
            for c in x["calls"]:
                if "m" not in c and rng.random() < p:
                    ms = _applicable(c, x["kind"])
                    if ms: c["m"] = rng.choice(ms)
        for v in x.values():
            if isinstance(v, (dict, list)): annotate_calls(v, rng, p)
    return x
