"""C19: write a crate whose types are the given definitions, compile it against
/repo's working tree (this runs the real proc-macros) and run it to record, for
every planned value, Iden::to_string, Iden::prepare under three quotes and
IdenStatic::as_str.  The driver pastes identifiers; it computes no names."""
import json, os, re, shutil, subprocess, time
from common import *

PRELUDE = r'''#![allow(non_camel_case_types, non_snake_case, dead_code, unused_imports, non_upper_case_globals)]
use sea_query::{Iden, IdenStatic, Quote};
use serde_json::{json, Value};
use std::panic::{catch_unwind, AssertUnwindSafe};

fn guarded(f: impl FnOnce() -> Value) -> Value {
    match catch_unwind(AssertUnwindSafe(f)) {
        Ok(v) => v,
        Err(e) => {
            let m = e.downcast_ref::<String>().cloned().or_else(|| e.downcast_ref::<&str>().map(|s| s.to_string())).unwrap_or_default();
            json!({"panic": m})
        }
    }
}
fn prep<T: Iden>(v: &T, q: Quote) -> String { let mut s = String::new(); v.prepare(&mut s, q); s }
fn quotes<T: Iden>(v: &T) -> Value {
    json!({"backtick": prep(v, Quote::new(b'`')), "dquote": prep(v, Quote::new(b'"')), "bracket": prep(v, Quote::from(('[', ']')))})
}
pub fn obs<T: Iden>(v: &T) -> Value {
    guarded(|| json!({"s": Iden::to_string(v), "p": quotes(v), "st": {"k": "none", "s": ""}}))
}
pub fn obs_static<T: IdenStatic + AsRef<str>>(v: &T) -> Value {
    guarded(|| {
        let a = v.as_str().to_string();
        let r: &str = v.as_ref();
        assert_eq!(a, r, "as_str and as_ref disagree");
        json!({"s": Iden::to_string(v), "p": quotes(v), "st": {"k": "some", "s": a}})
    })
}

#[derive(Clone, Copy, IdenStatic)]
pub enum InnerA { Table, FooBar }
#[derive(Clone, Copy, IdenStatic)]
pub enum InnerQ { #[iden = "q\"u`o"] Q, #[iden = "plain"] R }
'''
INNER = {"ia_table": ("InnerA", "InnerA::Table"), "ia_foo": ("InnerA", "InnerA::FooBar"),
         "iq_q": ("InnerQ", "InnerQ::Q"), "iq_r": ("InnerQ", "InnerQ::R")}
METHODS = {"m1": "plain_m", "m2": "me\"th`od", "m3": "br]ack"}

def rlit(s):
    out = ['"']
    for ch in s:
        if ch == '"': out.append('\\"')
        elif ch == '\\': out.append('\\\\')
        elif 32 <= ord(ch) < 127: out.append(ch)
        else: out.append("\\u{%x}" % ord(ch))
    out.append('"')
    return "".join(out)

def attr_src(a, container=False):
    k, s = a["k"], a["s"]
    if k == "none": return ""
    if k == "eq": return "#[iden = %s] " % rlit(s)
    if k in ("rename", "list"): return "#[iden(rename = %s)] " % rlit(s)
    if k == "meq": return "#[method = %s] " % rlit(s)
    if k == "mlist": return "#[iden(method = %s)] " % rlit(s)
    if k == "flatten": return "#[iden(flatten)] "
    raise ValueError(k)

import zlib
def other_attr(key, indent=""):
    """an attribute that has nothing to do with the derive (doc comment / allow), placed in front of the helper attribute
    for two thirds of the items: the names a type spells do not depend on what else is written on it"""
    h = zlib.crc32(key.encode()) % 3
    return "" if h == 0 else ("/// documented\n" + indent if h == 1 else "#[allow(dead_code)] ")

def type_src(case):
    d, plan = case["def"], case["plan"]
    L = []
    fn = "obs_static" if d["kind"] == "enumdef" or d.get("derive") == "IdenStatic" else "obs"
    if d["kind"] == "enum":
        L.append("#[derive(Clone, Copy, %s)]" % d["derive"])
        if d["crename"]["k"] != "none": L.append(other_attr("c:" + d["name"]) + attr_src(d["crename"]).strip())
        L.append("pub enum %s {" % d["name"])
        vals = []
        meths = set()
        for v in d["vs"]:
            a = v["attr"]
            if a["k"] in ("meq", "mlist"): meths.add(a["s"])
            if a["k"] == "flatten":
                ity, iexpr = INNER[a["s"]]
                body = "(super::%s)" % ity if v["shape"] == "tuple" else "{ inner: super::%s }" % ity
                val = "%s::%s(super::%s)" % (d["name"], v["n"], iexpr) if v["shape"] == "tuple" else "%s::%s { inner: super::%s }" % (d["name"], v["n"], iexpr)
            else:
                body = {"unit": "", "tuple": "(u8, bool)", "named": "{ a: u8 }"}[v["shape"]]
                val = "%s::%s%s" % (d["name"], v["n"], {"unit": "", "tuple": "(7, true)", "named": " { a: 7 }"}[v["shape"]])
            L.append("    %s%s%s%s," % (other_attr("v:" + d["name"] + v["n"], "    ") if a["k"] != "none" else "", attr_src(a), v["n"], body))
            vals.append(val)
        L.append("}")
        if meths:
            L.append("impl %s {" % d["name"])
            for m in sorted(meths): L.append("    fn %s(&self) -> &'static str { %s }" % (m, rlit(METHODS[m])))
            L.append("}")
        assert [v["n"] for v in d["vs"]] == plan["vals"]
    elif d["kind"] == "unit":
        L.append("#[derive(Clone, Copy, %s)]" % d["derive"])
        if d["crename"]["k"] != "none": L.append(other_attr("u:" + d["name"]) + attr_src(d["crename"]).strip())
        L.append("pub struct %s;" % d["name"])
        vals = [d["name"]]
    else:
        args = []
        for key, nm in (("prefix", "prefix"), ("suffix", "suffix"), ("tname", "table_name")):
            if d[key]["k"] != "none": args.append("%s = %s" % (nm, rlit(d[key]["s"])))
        L.append("#[sea_query::enum_def%s]" % ("(%s)" % ", ".join(args) if args else ""))
        L.append("pub struct %s {" % d["name"])
        for f in d["fields"]: L.append("    pub %s: u8," % f)
        L.append("}")
        vals = ["%s::%s" % (plan["ty"], v) for v in plan["vals"]]
    L.append("pub fn observe() -> Vec<Value> { vec![%s] }" % ", ".join("%s(&%s)" % (fn, v) for v in vals))
    return L

def write_crate(cdir, cases):
    os.makedirs(os.path.join(cdir, "src"), exist_ok=True)
    with open(os.path.join(cdir, "Cargo.toml"), "w") as f:
        f.write('[package]\nname = "sqv-derive"\nversion = "0.1.0"\nedition = "2021"\n\n[workspace]\n\n[dependencies]\n'
                'sea-query = { path = "%s", features = ["derive", "attr"] }\nserde_json = { version = "1", features = ["std"] }\n\n'
                '[profile.dev]\nopt-level = 0\ndebug = 0\nincremental = false\n' % REPO)
    os.makedirs(os.path.join(cdir, ".cargo"), exist_ok=True)
    with open(os.path.join(cdir, ".cargo", "config.toml"), "w") as f:
        f.write("[net]\noffline = true\n")
    if not os.path.exists(os.path.join(cdir, "Cargo.lock")):
        shutil.copy(os.path.join(REPO, "Cargo.lock"), os.path.join(cdir, "Cargo.lock"))
    lines = PRELUDE.split("\n")
    spans = []
    for c in cases:
        start = len(lines) + 1
        lines.append("pub mod t%d {" % c["id"])
        lines.append("    use sea_query::{Iden, IdenStatic}; use serde_json::Value; use super::{obs, obs_static};")
        lines += ["    " + x for x in type_src(c)]
        lines.append("}")
        spans.append((start, len(lines), c["id"]))
    lines.append("fn main() {")
    lines.append("    std::panic::set_hook(Box::new(|_| {}));")
    lines.append("    use std::io::Write;")
    lines.append("    let mut out = std::io::BufWriter::new(std::fs::File::create(std::env::args().nth(1).unwrap()).unwrap());")
    # one small function per 100 types: a single main() with thousands of temporaries overflows the stack in a debug build
    chunks = [cases[i:i + 100] for i in range(0, len(cases), 100)]
    for k in range(len(chunks)):
        lines.append("    chunk%d(&mut out);" % k)
    lines.append("}")
    for k, ch in enumerate(chunks):
        lines.append("#[inline(never)] fn chunk%d(out: &mut impl std::io::Write) {" % k)
        for c in ch:
            lines.append('    writeln!(out, "{}", json!({"id": %d, "obs": t%d::observe()})).unwrap();' % (c["id"], c["id"]))
        lines.append("}")
    with open(os.path.join(cdir, "src", "main.rs"), "w") as f:
        f.write("\n".join(lines) + "\n")
    return spans

def build_and_run(cdir, cases, outp):
    """returns (records, failed) where failed = {case id: first compiler message}"""
    failed = {}
    live = list(cases)
    tdir = os.path.join(HARNESS, "target", "derive")
    e = dict(os.environ); e["CARGO_NET_OFFLINE"] = "true"
    for attempt in range(4):
        spans = write_crate(cdir, live)
        t0 = time.time()
        p = subprocess.run(["cargo", "build", "--offline", "--target-dir", tdir, "--message-format", "short"], cwd=cdir, env=e,
                           stdout=subprocess.PIPE, stderr=subprocess.STDOUT, text=True)
        log("[build] derive crate: %d types, %.1fs, rc=%d" % (len(live), time.time() - t0, p.returncode))
        if p.returncode == 0:
            break
        bad = {}
        for m in re.finditer(r"src/main\.rs:(\d+):\d+: error(?:\[E\d+\])?: (.*)", p.stdout):
            ln = int(m.group(1))
            for a, b, cid in spans:
                if a <= ln <= b:
                    bad.setdefault(cid, m.group(2)[:300])
        if not bad:
            raise ToolError("derive crate does not build and no generated type is to blame:\n" + p.stdout[-4000:])
        failed.update(bad)
        live = [c for c in live if c["id"] not in bad]
    else:
        raise ToolError("derive crate still does not build after removing failing types")
    exe = os.path.join(tdir, "debug", "sqv-derive")
    q = subprocess.run([exe, outp], stdout=subprocess.PIPE, stderr=subprocess.PIPE, text=True, timeout=600)
    if q.returncode != 0:
        raise ToolError("derive crate run failed rc=%d: %s" % (q.returncode, q.stderr[-2000:]))
    return read_ndjson(outp), failed
