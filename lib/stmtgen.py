"""Statement cases: (1) writes spec/stmt_menu.json — per statement kind a list
of clause slots, each slot a list of options, each option a list of builder
calls (option 0 = clause absent) — from which TLC (MCStmt) enumerates the
pairwise-complete product; (2) a seeded random generator of deeper statements
over the same fixed schema.  Every bound value is a distinct tag."""
import json, os, random

_tag = [1000]
def V(t="Int", v=None):
    _tag[0] += 1
    if t == "Int": return {"t": "Int", "v": str(_tag[0] if v is None else v)}
    if t == "String": return {"t": "String", "v": "s%d" % _tag[0] if v is None else v}
    if t == "Unsigned": return {"t": "Unsigned", "v": str(_tag[0] if v is None else v)}
    if t == "BigUnsigned": return {"t": "BigUnsigned", "v": str(18446744073709500000 + _tag[0] if v is None else v)}
    raise ValueError(t)
def val(t="Int", v=None): return {"k": "val", "v": V(t, v)}
def col(n): return {"k": "col", "n": n}
def tcol(t, n): return {"k": "col", "n": n, "q": [t]}
def bin_(op, l, r): return {"k": "bin", "op": op, "l": l, "r": r}
def eq(l, r): return bin_("Equal", l, r)
def fn(f, *args): return {"k": "fn", "f": f, "args": list(args)}
def cond(t, neg, ms): return {"k": "cond", "t": t, "neg": neg, "ms": ms}
def sel(*calls): return {"kind": "select", "calls": list(calls)}
def c(op, **kw):
    d = {"op": op}; d.update(kw); return d

def simple_sub(tag_where=True):
    calls = [c("column", n="t1_id"), c("from", t=["t2"])]
    if tag_where: calls.append(c("and_where", e=bin_("GreaterThan", col("x"), val())))
    return sel(*calls)

def win(frame=True):
    w = {"partition": [col("b")], "order": [{"e": col("a"), "o": {"d": "Asc"}}]}
    if frame: w["frame"] = {"type": "Rows", "start": {"b": "Preceding", "n": 1}, "end": {"b": "CurrentRow"}}
    return w

def rec_with(search=False, cycle=False):
    """WITH RECURSIVE cte(k) AS (SELECT .. UNION ALL SELECT ..) [SEARCH ..] [CYCLE ..] (the options are PostgreSQL's)"""
    w = {"recursive": True,
         "ctes": [{"name": "cte", "cols": ["k"],
                   "q": sel(c("column", n="k"), c("from", t=["t2"]), c("and_where", e=eq(col("x"), val())),
                            c("union", type="All", q=sel(c("column", n="t1_id"), c("from", t=["t2"]), c("and_where", e=bin_("SmallerThan", col("x"), val())))))}]}
    if search: w["search"] = {"order": "DEPTH", "e": col("k"), "set": "ord"}
    if cycle: w["cycle"] = {"e": col("k"), "set": "is_cycle", "using": "path"}
    return w

def win_np():
    """ORDER BY and frame without PARTITION BY (a running total)"""
    return {"order": [{"e": col("a"), "o": {"d": "Desc"}, "nulls": "Last"}], "frame": {"type": "Range", "start": {"b": "UnboundedPreceding"}}}

def win_rows(order):
    """the explicit ROWS frame that looks like the default one (which is RANGE based), without / with an ORDER BY that has ties"""
    w = {"partition": [col("b")], "frame": {"type": "Rows", "start": {"b": "UnboundedPreceding"}, "end": {"b": "CurrentRow"}}}
    if order: w["order"] = [{"e": col("b"), "o": {"d": "Asc"}}]
    return w

def win_offsets(kind):
    """both frame bounds carry an offset (bound values): n PRECEDING .. m PRECEDING with n > m, or FOLLOWING .. FOLLOWING"""
    f = {"type": "Rows", "start": {"b": "Preceding", "n": 3}, "end": {"b": "Preceding", "n": 1}} if kind == "p" else \
        {"type": "Rows", "start": {"b": "Following", "n": 1}, "end": {"b": "Following", "n": 4}}
    return {"partition": [col("b")], "order": [{"e": col("a"), "o": {"d": "Asc"}}], "frame": f}

def menu():
    _tag[0] = 1000
    select = [
        # selects (always at least one)
        [[c("column", n="id")], [c("column", n="id"), c("expr_as", e=bin_("Add", col("a"), val()), a="s")],
         [c("expr", e=fn("Coalesce", col("b"), val())), c("column", n="a")],
         [c("column", n="id"), c("expr", e={"k": "case", "whens": [{"c": eq(col("a"), val()), "r": val("String")}], "else": val("String")})],
         [c("column", n="a"), c("expr_window", e=fn("Sum", col("a")), w=win(True), a="w")],
         [c("column", n="a"), c("expr_window_name", e=fn("Sum", col("a")), w="w1", a="w")],
         [c("column", n="a"), c("expr_window", e=fn("Sum", col("a")), w=win_np(), a="rt")],
         [c("column", n="a"), c("expr_window", e=fn("Sum", col("a")), w=win_offsets("p"), a="wp"), c("expr_window", e=fn("Sum", col("a")), w=win_offsets("f"), a="wf")],
         [c("column", n="a"), c("expr_window", e=fn("Sum", col("a")), w=win_rows(False), a="ru"), c("expr_window", e=fn("Count", col("a")), w=win_rows(True), a="rc")],
         # PostgreSQL text search helpers: the optional regconfig comes first in the SQL, second in the Rust call
         [c("expr_as", e=fn("PgTsRankCd", fn("PgToTsvector", col("c")), fn("PgToTsquery", val("String"))), a="r"), c("expr", e=fn("PgArrayAgg", col("a"))), c("expr", e=fn("PgJsonAgg", bin_("Add", col("a"), val()))), c("expr", e=fn("PgGenRandomUuid"))],
         [c("expr", e=fn("Round", bin_("Div", col("a"), val()), val()))],
         [c("expr_as", e=fn("PgToTsquery", val("Unsigned"), val("String")), a="q"), c("expr", e=fn("PgTsRank", fn("PgToTsvector", val("Unsigned"), col("c")), fn("PgPlaintoTsquery", val("String"))))]],
        [[], [c("distinct")], [c("distinct_on", cols=["a"])]],
        [[c("from", t=["t1"])], [c("from_as", t=["t1"], a="u")], [c("from_subquery", q=sel(c("column", n="id"), c("column", n="a"), c("column", n="b"), c("from", t=["t1"]), c("and_where", e=bin_("SmallerThan", col("a"), val()))), a="t1")],
         [c("from", t=["t1"]), c("from", t=["t2"])],
         [c("from", t=["main", "t1"])],
         # a three-part name (database.schema.table, PostgreSQL's catalog.schema.table) with an alias
         [c("from_as", t=["db1", "main", "t1"], a="t1")],
         [c("from_subquery", take=True, q=sel(c("column", n="id"), c("column", n="a"), c("column", n="b"), c("from", t=["t1"]), c("table_sample", method="SYSTEM", pct=40),
                                              c("use_index", name="ix_a", scope="All"), c("and_where", e=bin_("SmallerThan", col("a"), val()))), a="t1")],
         [c("from_values", rows=[[V(), V("String"), V()], [V(), V("String"), V()]], a="t1")],
         [c("from_values", rows=[[V(), V(), V(), V("String")]], a="v4"), c("from_values", rows=[[V()], [V()], [V()]], a="v1")]],
        [[], [c("join", jt="Inner", t=["t2"], on=bin_("Equal", tcol("t1", "id"), tcol("t2", "t1_id")))],
         [c("join", jt="Left", t=["t2"], on=cond("all", False, [bin_("Equal", tcol("t1", "id"), tcol("t2", "t1_id")), bin_("GreaterThan", tcol("t2", "x"), val())]))],
         [c("join_subquery", jt="Inner", q=simple_sub(), a="j", on=bin_("Equal", tcol("j", "t1_id"), tcol("t1", "id")))],
         [c("join", jt="Right", t=["t2"], a="r2", on=bin_("Equal", tcol("t1", "id"), tcol("r2", "t1_id")))],
         [c("join", jt="Cross", t=["t3"], on=bin_("Equal", tcol("t3", "r"), tcol("t1", "id"))), c("join", jt="Join", t=["t2"], on=bin_("Equal", tcol("t1", "id"), tcol("t2", "t1_id")))],
         [c("join", jt="FullOuter", t=["t2"], on=bin_("Equal", tcol("t1", "id"), tcol("t2", "t1_id")))],
         [c("join_lateral", jt="Left", q=simple_sub(), a="l", on=bin_("Equal", tcol("l", "t1_id"), tcol("t1", "id")))]],
        [[], [c("and_where", e=eq(col("a"), val()))], [c("and_where", e=eq(col("a"), val())), c("and_where", e=bin_("NotEqual", col("b"), val()))],
         [c("cond_where", c=cond("any", False, [eq(col("a"), val()), {"k": "in", "neg": False, "e": col("b"), "vs": [val(), val()]}]))],
         [c("and_where", e={"k": "insub", "neg": False, "e": col("id"), "q": simple_sub()})],
         [c("cond_where", c=cond("any", False, [])), c("and_where", e=eq(col("a"), val()))],
         # operators whose relative precedence differs between the engines (shift / bitwise and / bitwise or)
         [c("and_where", e=bin_("GreaterThan", bin_("BitAnd", col("a"), bin_("LShift", col("b"), val())), val())),
          c("and_where", e=bin_("Equal", bin_("BitOr", bin_("RShift", col("a"), val()), bin_("LShift", col("b"), val())), val()))],
         # an unsigned 64-bit value beyond i64::MAX, followed by further values
         [c("and_where", e=eq(col("a"), val("BigUnsigned"))), c("and_where", e=bin_("NotEqual", col("b"), val())), c("and_where", e=bin_("SmallerThan", col("a"), val("BigUnsigned")))],
         # the same text bound twice (every occurrence is a value of its own), and a comparison with an absent value
         [c("and_where", e=eq(col("c"), val("String", "dup"))), c("and_where", e=bin_("NotEqual", col("c"), val("String", "dup"))), c("and_where", e=eq(col("b"), {"k": "val", "v": {"t": "Int", "null": True}}))],
         [c("and_where", e={"k": "in", "neg": False, "e": col("a"), "vs": [val(), {"k": "val", "v": {"t": "Int", "null": True}}, val()]}),
          c("and_where", e={"k": "in", "neg": True, "e": col("c"), "vs": [val("String"), {"k": "val", "v": {"t": "String", "null": True}}]})],
         # text that needs escaping on some backends only (double quote, newline, tab) or none (non-ASCII): C09's literal spelling
         [c("and_where", e=bin_("NotEqual", col("c"), val("String", "say \"hi\"\n\tZo\u00eb \u20ac"))), c("and_where", e=bin_("NotEqual", col("c"), val("String", "tab\there")))],
         [c("cond_where", c=cond("all", True, [])), c("cond_where", c=cond("any", False, [eq(col("a"), val()), eq(col("b"), val())]))],
         [c("and_where", e={"k": "between", "neg": False, "e": col("a"), "a": val(), "b": val()}), c("and_where", e={"k": "like", "neg": False, "e": col("c"), "p": "x%", "esc": "|"})],
         # placeholder marks inside text that is not a bound value (the ESCAPE character is always written inline)
         [c("and_where", e={"k": "like", "neg": False, "e": col("c"), "p": "a?%", "esc": "?"}), c("and_where", e=eq(col("a"), val())), c("and_where", e={"k": "like", "neg": True, "e": col("c"), "p": "$1%", "esc": "$"})],
         # a quoted token that ends in a backslash, followed by bound values
         [c("and_where", e={"k": "like", "neg": False, "e": col("c"), "p": "x%", "esc": "\\"}), c("and_where", e=eq(col("a"), val())), c("and_where", e=eq(col("c"), val("String")))],
         [c("and_where", e={"k": "bin", "op": "In", "m": "in_tuples", "l": {"k": "tuple", "es": [col("a"), col("b"), col("id")]},
                            "r": {"k": "tuple", "es": [{"k": "vals", "vs": [V(), V(), V()]}, {"k": "vals", "vs": [V(), V(), V()]}]}}), c("and_where", e=eq(col("c"), val("String")))],
         [c("and_where", e=bin_("GreaterThan", bin_("Sub", col("a"), bin_("Sub", col("b"), val())), bin_("Mod", col("b"), bin_("Mod", val(), val()))))]],
        [[], [c("group_by_col", n="a")], [c("group_by_col", n="a"), c("group_by", e=bin_("Mod", col("b"), val()))],
         [c("group_by_col", n="a"), c("group_by_col", n="b")], [c("group_by", e=bin_("Mod", col("b"), val())), c("group_by_col", n="a"), c("group_by_col", n="id")]],
        [[], [c("and_having", e=bin_("GreaterThan", fn("Count", col("id")), val()))]],
        [[], [c("union", type="All", q=sel(c("column", n="k"), c("from", t=["t2"]), c("and_where", e=eq(col("x"), val()))))],
         [c("union", type="Distinct", q=sel(c("column", n="k"), c("from", t=["t2"]))), c("union", type="Except", q=sel(c("column", n="t1_id"), c("from", t=["t2"]), c("and_where", e=eq(col("x"), val()))))],
         [c("union", type="Intersect", q=sel(c("column", n="k"), c("from", t=["t2"])))],
         # a member with set operations, ORDER BY and LIMIT of its own
         [c("union", type="Except", q=sel(c("column", n="k"), c("from", t=["t2"]), c("union", type="All", q=sel(c("column", n="t1_id"), c("from", t=["t2"]), c("and_where", e=eq(col("x"), val())))),
                                         c("order_by", e=col("k"), o={"d": "Asc"}), c("limit", n=2)))]],
        [[], [c("order_by", e=col("a"), o={"d": "Asc"})], [c("order_by", e=col("a"), o={"d": "Desc"}, nulls="Last"), c("order_by", e=col("id"), o={"d": "Asc"})],
         [c("order_by", e=col("a"), o={"d": "Field", "field": [V(), V()]})], [c("order_by", e=bin_("Add", col("a"), val()), o={"d": "Asc"}, nulls="First")],
         [c("order_by", e=col("c"), o={"d": "Field", "field": [V("String", "x\"y"), V("String", "\u00e9t\u00e9"), V("String", "line\nbreak")]})],
         [c("order_by", e=col("a"), o={"d": "Field", "field": [V(), V()]}, nulls="Last"), c("order_by", e=col("id"), o={"d": "Desc"}, nulls="First")]],
        [[], [c("limit", n=3)], [c("limit", n=3), c("offset", n=1)]],
        [[], [c("lock", type="Update")], [c("lock", type="Share", tables=[["t1"]], behavior="SkipLocked")], [c("lock", type="NoKeyUpdate", behavior="Nowait")],
         [c("lock", type="Update", tables=[["t1"], ["t2"]], behavior="SkipLocked")], [c("lock", type="Share", tables=[["t1"], ["t2"], ["t3"]])]],
        [[], [c("table_sample", method="SYSTEM", pct=50)], [c("table_sample", method="BERNOULLI", pct=10, rep=3)]],
        [[], [c("use_index", name="ix_a", scope="All")], [c("force_index", name="ix_a", scope="OrderBy"), c("ignore_index", name="ix_b", scope="Join")]],
        [[], [c("window", name="w1", w=win(False))], [c("window", name="w1", w=win(True))], [c("window", name="w1", w=win_np())]],
        [[], [c("with_cte", w={"ctes": [{"name": "cte", "cols": ["k"], "q": sel(c("column", n="k"), c("from", t=["t2"]), c("and_where", e=eq(col("x"), val())))}]})],
         [c("with_cte", w={"ctes": [{"from_select": True, "q": sel(c("column", n="k"), c("expr_as", e=bin_("Add", col("x"), val()), a="x1"), c("column", n="t1_id", q=["t2"]), c("from", t=["t2"]))}]})],
         [c("with_cte", w={"ctes": [{"from_select": True, "q": sel(c("column", n="k"), c("expr", e=bin_("Mul", col("x"), val())), c("from", t=["t2"]))}]})],
         # materialization hints (PostgreSQL / SQLite; MySQL has none and the builder writes none there)
         [c("with_cte", w={"ctes": [{"name": "cte", "cols": ["k"], "mat": False, "q": sel(c("column", n="k"), c("from", t=["t2"]), c("and_where", e=eq(col("x"), val())))},
                                    {"name": "cte2", "cols": ["k2"], "mat": True, "q": sel(c("column", n="t1_id"), c("from", t=["t2"]), c("and_where", e=bin_("SmallerThan", col("x"), val())))}]})],
         [c("with_cte", w=rec_with(search=True))], [c("with_cte", w=rec_with(cycle=True))], [c("with_cte", w=rec_with(search=True, cycle=True))],
         [c("with_cte", w=rec_with())]],
    ]
    insert = [
        [[c("into_table", t=["t1"])]],
        [[c("columns", cols=["a", "b"]), c("values_panic", row=[val(), val()])],
         [c("columns", cols=["a", "b"]), c("values_panic", row=[val(), val()]), c("values_panic", row=[val(), bin_("Add", val(), val())])],
         [c("columns", cols=["a", "b"]), c("select_from", q=sel(c("column", n="x"), c("expr", e=val()), c("from", t=["t2"]), c("and_where", e=eq(col("x"), val()))))],
         [c("or_default_values")], [c("or_default_values_many", n=2)],
         [c("columns", cols=["a", "c"]), c("values_panic", row=[val(), val("String")])],
         # rows added in several steps, a batch after single rows and a second batch
         [c("columns", cols=["a", "b"]), c("values_panic", row=[val(), val()]), c("values_from_panic", rows=[[val(), val()], [val(), val()]]), c("values_from_panic", rows=[[val(), val()]])],
         [c("columns", cols=["c", "a"]), c("values_panic", row=[val("String", "same"), val()]), c("values_panic", row=[val("String", "same"), val()])]],
        [[], [c("replace")]],
        [[], [c("on_conflict", oc={"cols": ["id"], "action": {"nothing": True}})],
         [c("on_conflict", oc={"cols": ["id"], "action": {"update_cols": ["a"]}})],
         [c("on_conflict", oc={"cols": ["id"], "action": {"values": [["a", bin_("Add", col("a"), val())]]}, "action_where": bin_("GreaterThan", tcol("t1", "a"), val()), "aw_m": "and_where_option"})],
         [c("on_conflict", oc={"cols": ["id"], "target_where": bin_("GreaterThan", col("id"), val()), "tw_m": "and_where", "action": {"update_cols": ["a", "b"]}})],
         [c("on_conflict", oc={"cols": ["id"], "target_where": bin_("SmallerThan", col("id"), val()), "tw_m": "and_where_option", "action": {"values": [["b", val()]]},
                               "action_where": bin_("SmallerThan", tcol("t1", "b"), val()), "aw_m": "and_where"})],
         [c("on_conflict", oc={"cols": ["id"], "action": {"nothing_on": ["id"]}})]],
        [[], [c("returning", r={"all": True})], [c("returning", r={"cols": ["id"]})], [c("returning", r={"exprs": [bin_("Add", col("a"), val())]})]],
        [[], [c("with_cte", w={"ctes": [{"name": "cte", "cols": ["k"], "q": sel(c("column", n="k"), c("from", t=["t2"]), c("and_where", e=eq(col("x"), val())))}]})]],
    ]
    update = [
        [[c("table", t=["t1"])]],
        [[c("value", col="a", e=val())], [c("value", col="a", e=val()), c("value", col="c", e=val("String"))], [c("value", col="a", e=bin_("Add", col("a"), val()))],
         [c("value", col="a", e=bin_("Add", col("a"), val())), c("value", col="c", e=val("String")), c("value", col="a", e=bin_("Mul", col("a"), val()))],
         [c("value", col="a", e=bin_("Sub", col("a"), bin_("Sub", col("b"), val()))), c("value", col="b", e=bin_("Div", col("b"), bin_("Div", val(), val())))]],
        [[], [c("from", t=["t2"])], [c("from", t=["t2"]), c("from", t=["t3"])]],
        [[], [c("and_where", e=eq(col("b"), val()))], [c("cond_where", c=cond("any", False, [eq(col("b"), val()), eq(col("b"), val())]))],
         [c("and_where", e=bin_("Equal", tcol("t1", "id"), tcol("t2", "t1_id"))), c("and_where", e=bin_("GreaterThan", tcol("t2", "x"), val()))]],
        [[], [c("order_by", e=col("id"), o={"d": "Desc"})], [c("order_by", e=col("b"), o={"d": "Asc"}, nulls="Last")]],
        [[], [c("limit", n=2)]],
        [[], [c("returning", r={"all": True})], [c("returning", r={"exprs": [bin_("Mul", col("a"), val())]})]],
        [[], [c("with_cte", w={"ctes": [{"name": "cte", "cols": ["k"], "q": sel(c("column", n="k"), c("from", t=["t2"]), c("and_where", e=eq(col("x"), val())))}]})]],
    ]
    delete = [
        [[c("from_table", t=["t1"])]],
        [[], [c("and_where", e=eq(col("b"), val()))], [c("cond_where", c=cond("all", True, [eq(col("b"), val()), {"k": "isnull", "neg": False, "e": col("a")}]))],
         [c("and_where", e={"k": "insub", "neg": True, "e": col("id"), "q": simple_sub()})]],
        [[], [c("order_by", e=col("id"), o={"d": "Desc"})], [c("order_by", e=col("a"), o={"d": "Field", "field": [V(), V()]})]],
        [[], [c("limit", n=2)]],
        [[], [c("returning", r={"all": True})], [c("returning", r={"cols": ["id", "a"]})]],
        [[], [c("with_cte", w={"ctes": [{"name": "cte", "cols": ["k"], "q": sel(c("column", n="k"), c("from", t=["t2"]), c("and_where", e=eq(col("x"), val())))}]})]],
    ]
    return {"select": select, "insert": insert, "update": update, "delete": delete}

def write_menu(path):
    m = menu()
    with open(path, "w") as f:
        json.dump(m, f, separators=(",", ":"))
    return m

# ---------------------------------------------------------------------------
# random deeper statements (same shapes, more nesting)
# ---------------------------------------------------------------------------
def rand_expr(rng, depth, cols):
    if depth == 0 or rng.random() < 0.3:
        return col(rng.choice(cols)) if rng.random() < 0.5 else val()
    r = rng.random()
    if r < 0.5:
        return bin_(rng.choice(["Add", "Sub", "Mul", "Equal", "NotEqual", "SmallerThan", "GreaterThan", "And", "Or"]), rand_expr(rng, depth - 1, cols), rand_expr(rng, depth - 1, cols))
    if r < 0.6: return {"k": "between", "neg": rng.random() < 0.3, "e": rand_expr(rng, depth - 1, cols), "a": val(), "b": val()}
    if r < 0.7: return {"k": "in", "neg": rng.random() < 0.3, "e": col(rng.choice(cols)), "vs": [val() for _ in range(rng.randint(0, 3))]}
    if r < 0.78: return {"k": "case", "whens": [{"c": rand_expr(rng, depth - 1, cols), "r": val()}], "else": val()}
    if r < 0.82: return fn(rng.choice(["Coalesce", "IfNull"]), rand_expr(rng, depth - 1, cols), val())
    if r < 0.86: return fn("Abs", rand_expr(rng, depth - 1, cols))
    if r < 0.93: return {"k": "insub", "neg": rng.random() < 0.4, "e": col(rng.choice(cols)), "q": rand_select(rng, depth - 1, single=True)}
    return {"k": "not", "e": rand_expr(rng, depth - 1, cols)}

def rand_cond(rng, depth, cols):
    return cond(rng.choice(["any", "all"]), rng.random() < 0.3,
                [rand_cond(rng, depth - 1, cols) if depth > 0 and rng.random() < 0.3 else rand_expr(rng, 1, cols) for _ in range(rng.randint(1, 3))])

def rand_select(rng, depth, single=False):
    t = rng.choice(["t1", "t2"])
    cols = ["id", "a", "b"] if t == "t1" else ["k", "t1_id", "x"]
    calls = []
    if depth > 0 and rng.random() < 0.2:
        calls.append(c("with_cte", w={"ctes": [{"name": "cte", "cols": ["k"], "q": rand_select(rng, depth - 1, single=True)}]}))
    n = 1 if single else rng.randint(1, 3)
    for i in range(n):
        if single or rng.random() < 0.5: calls.append(c("column", n=rng.choice(cols)))
        else: calls.append(c("expr_as", e=rand_expr(rng, 2, cols), a="e%d" % i))
    if depth > 0 and rng.random() < 0.25:
        calls.append(c("from_subquery", q=sel(*( [c("column", n=x) for x in cols] + [c("from", t=[t]), c("and_where", e=rand_expr(rng, 1, cols))])), a=t))
    else:
        calls.append(c("from", t=[t]))
    for _ in range(rng.randint(0, 2)):
        calls.append(c("and_where", e=rand_expr(rng, 2, cols)) if rng.random() < 0.6 else c("cond_where", c=rand_cond(rng, 1, cols)))
    if not single and depth > 0 and rng.random() < 0.3:
        for _ in range(rng.randint(1, 2)):
            calls.append(c("union", type=rng.choice(["All", "Distinct", "Except", "Intersect"]), q=rand_select_n(rng, depth - 1, n)))
    if rng.random() < 0.4:
        calls.append(c("order_by", e=col(cols[0]) if not single else col(cols[0]), o={"d": rng.choice(["Asc", "Desc"])}, **({"nulls": rng.choice(["First", "Last"])} if rng.random() < 0.4 else {})))
    if rng.random() < 0.3:
        calls.append(c("limit", n=rng.randint(1, 5)))
        if rng.random() < 0.5: calls.append(c("offset", n=rng.randint(0, 3)))
    return sel(*calls)

def rand_select_n(rng, depth, n):
    t = "t2"
    cols = ["k", "t1_id", "x"]
    calls = [c("column", n=cols[i % 3]) for i in range(n)] + [c("from", t=[t])]
    if rng.random() < 0.6: calls.append(c("and_where", e=rand_expr(rng, 1, cols)))
    return sel(*calls)

def nested_with():
    """a WITH query whose statement carries a WITH clause of its own (not a statement of any dialect, but every
    rendering entry point has to agree on it)"""
    cte = lambda nm: {"ctes": [{"name": nm, "cols": ["k"], "q": sel(c("column", n="k"), c("from", t=["t2"]), c("and_where", e=eq(col("x"), val())))}]}
    inner = sel(c("column", n="id"), c("from", t=["t1"]), c("and_where", e=eq(col("a"), val())), c("with_cte", w=cte("inner_cte")))
    return {"kind": "with", "w": cte("outer_cte"), "q": inner}

def fixed_stmts():
    """statements every run includes besides the menu walks and the random ones"""
    # UPDATE with an aliased target table, alone and with a second table (MySQL: UPDATE t AS g JOIN .. SET ..)
    upd = lambda *more: {"kind": "update", "calls": [c("table_as", t=["t1"], a="g"), c("value", col="a", e=bin_("Add", tcol("g", "a"), val())), c("value", col="c", e=val("String"))] + list(more)}
    return [nested_with(), nested_with(),
            upd(c("and_where", e=eq(tcol("g", "b"), val()))),
            upd(c("from", t=["t2"]), c("and_where", e=bin_("Equal", tcol("g", "id"), tcol("t2", "t1_id"))), c("and_where", e=bin_("GreaterThan", tcol("t2", "x"), val())))]

def rand_stmt(rng):
    k = rng.random()
    cols = ["id", "a", "b"]
    if k < 0.5: return rand_select(rng, 2)
    if k < 0.68:
        calls = [c("into_table", t=["t1"]), c("columns", cols=["a", "b"])]
        if rng.random() < 0.7:
            for _ in range(rng.randint(1, 3)): calls.append(c("values_panic", row=[rand_expr(rng, 1, []) if False else val(), val()]))
        else:
            calls.append(c("select_from", q=rand_select_n(rng, 1, 2)))
        if rng.random() < 0.4: calls.append(c("on_conflict", oc={"cols": ["id"], "action": {"values": [["a", rand_expr(rng, 1, cols)]]}}))
        if rng.random() < 0.4: calls.append(c("returning", r={"exprs": [rand_expr(rng, 1, cols)]}))
        return {"kind": "insert", "calls": calls}
    if k < 0.86:
        calls = [c("table", t=["t1"])] + [c("value", col=x, e=rand_expr(rng, 1, cols)) for x in rng.sample(["a", "b"], rng.randint(1, 2))]
        for _ in range(rng.randint(0, 2)): calls.append(c("and_where", e=rand_expr(rng, 2, cols)))
        if rng.random() < 0.3: calls += [c("order_by", e=col("id"), o={"d": "Asc"}), c("limit", n=rng.randint(1, 4))]
        if rng.random() < 0.3: calls.append(c("returning", r={"exprs": [rand_expr(rng, 1, cols)]}))
        return {"kind": "update", "calls": calls}
    calls = [c("from_table", t=["t1"])]
    for _ in range(rng.randint(0, 2)): calls.append(c("and_where", e=rand_expr(rng, 2, cols)))
    if rng.random() < 0.3: calls += [c("order_by", e=col("id"), o={"d": "Desc"}), c("limit", n=rng.randint(1, 4))]
    if rng.random() < 0.3: calls.append(c("returning", r={"all": True}))
    if rng.random() < 0.2:
        return {"kind": "with", "w": {"ctes": [{"name": "cte", "cols": ["k"], "q": rand_select(rng, 1, single=True)}]}, "q": {"kind": "delete", "calls": calls}}
    return {"kind": "delete", "calls": calls}

if __name__ == "__main__":
    here = os.path.dirname(os.path.dirname(os.path.abspath(__file__)))
    m = write_menu(os.path.join(here, "spec", "stmt_menu.json"))
    print({k: [len(s) for s in v] for k, v in m.items()})
