#!/usr/bin/env python3
"""Binding / totality self-test: recorded observations of the last run of a check are corrupted (one character of one
observed string deleted or changed, one boolean flipped, one list shortened) and fed to the same trace validator.
Required: TLC judges every record (no evaluation error: the trace specifications are total on wrong observations);
reported: the share of corrupted records that are rejected.  usage: selftest_corrupt.py [ID ...]"""
import glob, json, os, random, sys, copy
sys.path.insert(0, os.path.dirname(os.path.abspath(__file__)))
from common import *
from pipeline import validate, TRACE_CFG

FAM = {  # check id -> (trace module, observation root keys, cfg, env)
 "C01": ("StmtTrace", ["obs"], "SPECIFICATION TSpec\nPOSTCONDITION AllConsumed\nCHECK_DEADLOCK FALSE\n", {"GRAMMAR": "1", "PORTABLE": "1"}),
 "C03": ("LitTrace", ["json", "pos", "lit", "bytes", "obs"], TRACE_CFG, None), "C04": ("IdentTrace", ["pos", "prepare"], TRACE_CFG, None),
 "C05": ("ExprTrace", ["obs"], TRACE_CFG, {"MOREPAREN": "0"}), "C06": ("CondTrace", ["steps"], TRACE_CFG, None),
 "C10": ("InsertTrace", ["steps"], TRACE_CFG, None), "C11": ("TplTrace", ["obs", "lits"], TRACE_CFG, None),
 "C12": ("ValueTrace", ["obs"], TRACE_CFG, None), "C13": ("SchemaTrace", ["steps", "engine"], TRACE_CFG, None),
 "C15": ("TakeTrace", ["steps"], TRACE_CFG, None), "C16": ("TokTrace", ["obs"], TRACE_CFG, None), "C17": ("EscTrace", ["obs"], TRACE_CFG, None),
 "C18": ("ValEqTrace", ["eq", "eq_rev", "hash_eq", "in_set", "vt_eq", "clone_eq", "m"], TRACE_CFG, None), "C19": ("DeriveTrace", ["obs"], TRACE_CFG, None),
}

def leaves(x, path, out):
    if isinstance(x, dict):
        for k, v in x.items(): leaves(v, path + [k], out)
    elif isinstance(x, list):
        # lists whose length the harness fixes (one step per call, one engine result per step) are not shortened
        if x and not (path and path[-1] in ("steps", "engine", "obs")): out.append((path, "list"))
        for i, v in enumerate(x): leaves(v, path + [i], out)
    elif isinstance(x, bool): out.append((path, "bool"))
    elif isinstance(x, str) and len(x) >= 2:
        # a text whose per-character class flags are recorded next to it (sql / al_sql) is not corrupted alone:
        # the harness derives the flags from the text, an implementation cannot make them disagree
        if path and path[-1] in ("al_sql", "al") : return
        out.append((path, "str"))

def get(x, path):
    for p in path: x = x[p]
    return x
def put(x, path, v):
    for p in path[:-1]: x = x[p]
    x[path[-1]] = v

def corrupt(rec, roots, rng):
    r = copy.deepcopy(rec)
    ls = []
    for k in (roots if roots else [k for k in r if k not in ("id",)]):
        if k in r: leaves(r[k], [k], ls)
    if not ls: return None
    path, kind = rng.choice(ls)
    v = get(r, path)
    if kind == "str" and path[-1] == "sql" and isinstance(get(r, path[:-1]), dict) and "al_sql" in get(r, path[:-1]):
        par = get(r, path[:-1]); i = rng.randrange(len(v))
        par["sql"] = v[:i] + v[i + 1:]; par["al_sql"] = par["al_sql"][:i] + par["al_sql"][i + 1:]
        r["_corrupted"] = "/".join(str(p) for p in path); return r
    if kind == "bool": put(r, path, not v)
    elif kind == "list": put(r, path, v[:-1])
    else:
        i = rng.randrange(len(v))
        put(r, path, v[:i] + v[i + 1:] if rng.random() < 0.6 else v[:i] + ("x" if v[i] != "x" else "y") + v[i + 1:])
    r["_corrupted"] = "/".join(str(p) for p in path)
    return r

def main(ids):
    rng = random.Random(12345); bad = 0
    for pid in ids:
        mod, roots, cfg, env = FAM[pid]
        files = sorted(glob.glob(os.path.join(WORK, pid, "tv*", "v*", "trace.ndjson")))
        if not files: print("%s: no recorded traces (run the check first)" % pid); continue
        recs = read_ndjson(files[0])[:40]
        cor = [c for c in (corrupt(r, roots, rng) for r in recs) if c]
        for i, c in enumerate(cor): c["id"] = 100000 + i
        e = dict(env or {})
        for f in glob.glob(os.path.join(WORK, pid, "*.json")):    # auxiliary files the validator reads (e.g. REFFILE)
            if os.path.basename(f) == "ref.json": e["REFFILE"] = f
        try:
            verdicts, dt = validate(mod, recs + cor, os.path.join(WORK, "selftest", pid), jvms=4, cfg=cfg, env=e)
        except ToolError as ex:
            print("%s: TOOL-ERROR on corrupted observations: %s" % (pid, str(ex)[:600])); bad += 1; continue
        by = {v["id"]: v for v in verdicts}
        clean = sum(1 for r in recs if not by[r["id"]].get("keys"))
        rej = sum(1 for c in cor if by[c["id"]].get("keys"))
        print("%s (%s): %d recorded observations (%d clean), %d corrupted copies: %d rejected (%.0f%%), validator total on all" % (pid, mod, len(recs), clean, len(cor), rej, 100.0 * rej / max(1, len(cor))))
    return 1 if bad else 0

if __name__ == "__main__":
    sys.exit(main(sys.argv[1:] or sorted(FAM)))
