"""Fixed SQLite fixture (three tables with NULLs and duplicates) and helpers to
execute recorded statements on the real engine (python3 sqlite3, SQLite 3.40.1)."""
import sqlite3

SCHEMA = [
    'CREATE TABLE "t1" ("id" INTEGER PRIMARY KEY, "a" INTEGER, "b" INTEGER, "c" TEXT)',
    'CREATE TABLE "t2" ("k" INTEGER PRIMARY KEY, "t1_id" INTEGER, "x" INTEGER, "y" TEXT)',
    'CREATE TABLE "t3" ("k3" INTEGER PRIMARY KEY, "r" INTEGER, "v" INTEGER)',
]
T1 = [(1, 1, 10, "x1"), (2, 2, 20, "x2"), (3, 2, None, None), (4, None, 10, "xy"), (5, 3, 30, "z"), (6, 3, 30, "z"), (7, 0, 0, "")]
T2 = [(1, 1, 5, "p"), (2, 1, 7, "q"), (3, 2, None, "r"), (4, 3, 5, None), (5, None, 9, "s"), (6, 5, 1, "t")]
T3 = [(1, 1, 100), (2, 2, 200), (3, 2, 300)]

def fresh():
    conn = sqlite3.connect(":memory:")
    for s in SCHEMA: conn.execute(s)
    conn.executemany('INSERT INTO "t1" VALUES (?,?,?,?)', T1)
    conn.executemany('INSERT INTO "t2" VALUES (?,?,?,?)', T2)
    conn.executemany('INSERT INTO "t3" VALUES (?,?,?)', T3)
    conn.commit()
    return conn

def pyval(v):
    if v.get("null"): return None
    t = v["t"]
    if t == "Bool": return 1 if v["v"] else 0
    if t in ("String", "Char"): return v["v"]
    if t == "Bytes": return bytes.fromhex(v["v"])
    if t in ("Float", "Double"): return float(v["v"])
    return int(v["v"])

def snapshot(conn):
    return {t: conn.execute('SELECT * FROM "%s" ORDER BY 1' % t).fetchall() for t in ("t1", "t2", "t3")}

def classify(msg):
    m = msg.lower()
    if "syntax error" in m or "unrecognized token" in m or "incomplete input" in m: return "syntax"
    return "other"

def execute(sql, params=None, ordered=False):
    """Run one statement on a fresh database.  Returns ("ok", rows, snapshot) or ("err", class, message)."""
    conn = fresh()
    try:
        cur = conn.execute(sql, params or [])
        rows = cur.fetchall() if cur.description else []
        snap = snapshot(conn)
        conn.close()
        if not ordered:
            rows = sorted(rows, key=repr)
        return ("ok", rows, snap)
    except Exception as e:
        conn.close()
        return ("err", classify(str(e)), str(e))
