#!/usr/bin/env python3
"""Regenerates MANIFEST.json from the table below (kept valid at all times)."""
import json, os
ROOT = os.path.dirname(os.path.dirname(os.path.abspath(__file__)))
TITLES = {}
for line in open(os.path.join(ROOT, "properties.jsonl")):
    p = json.loads(line)
    TITLES[p["id"]] = p["title"]

# id -> (technique, level text, level_note, design_ref)
CLAIMED = {
 "C16": ("TLA+ model of Tokenizer::next checked by TLC (invariants, action property, liveness) + replay of every enumerated behaviour and random strings through the real tokenizer + TLC trace validation against TokenizerAbs",
         "Bounded-exhaustive model checking of the tokenizer automaton (all strings over the 12-symbol token alphabet up to the tier's length, safety + termination under weak fairness), bound to the code in both directions: each enumerated input and seeded random Unicode strings are tokenised by the real crate and TLC accepts the recorded token lists only if they satisfy the property-level specification TokenizerAbs; equality with the implementation-level model is reported as impl_model_exact.",
         "Trusted: TLC, TLAPS (TokenizerProof.tla: for every input length, scanner progress implies lossless and terminating iteration; the progress premise is the TLC-checked invariant ScannerAdvances), the JSON reader, the harness's copy of observations. Termination of the real code is observed by watchdog, not proved.",
         "§5 C16, Appendix B"),
 "C17": ("TLA+ transcription of the escape replace-chain and the unescape automaton; invariant RoundTrip checked by TLC over all words of the escape alphabets and all words of at most two ASCII characters; every enumerated word and random Unicode strings replayed through the real escape_string/unescape_string and validated by TLC",
         "Bounded-exhaustive model checking of the modelled escape chain (order of passes is part of the model) and unescape automaton, bound to the code by replaying every enumerated string and seeded random strings through the three real backends; TLC accepts a record only if unescape(escape(s)) = s, and reports whether the real output equals the modelled one.",
         "Trusted: TLC, JSON reader, harness copying results. String length beyond the bounds is covered only by random replay.",
         "§5 C17"),
 "C03": ("Engine lexical rules (MySQL, PostgreSQL, SQLite) written in TLA+ from the manuals; TLC checks on the modelled escaping that every literal is one token decoding to the value, generates the strings, and validates the recorded output of the real value_to_string and of 20 inlining positions (incl. the elements of a PostgreSQL array literal) token-by-token; the real SQLite engine is authoritative for the SQLite dialect",
         "Model checking of `Impl => R` on the escape model over the escape-relevant alphabets, plus trace validation of the real code: for every enumerated/random string and byte string TLC lexes the recorded literal with the engine's rules (single token, decoded value equals input) and, for literals embedded in query/schema statements, requires that no other token of the statement depends on the value (injection safety). SQLite renderings are additionally executed on the real engine.",
         "Trusted: the MySQL/PostgreSQL lexical models (no engine available), TLC, SQLite 3.40.1. NUL excluded on PostgreSQL/SQLite.",
         "§5 C03, Appendix C.1"),
 "C04": ("Identifier quoting (Iden::prepare) transcribed in TLA+ and checked by TLC against the three engines' quoted-identifier lexical rules over all short names of a quote-relevant alphabet; the names are replayed into 78 identifier positions of real query and schema statements and validated token-by-token by TLC; SQLite alias read back from the real engine",
         "Model checking of the quoting routine against the engine lexers (every name up to the tier's length over {a, \", `, ', \\, space, e-acute, ., ], [}), and trace validation of the real code: each recorded statement must lex to the same token sequence as the reference rendering, with a quoted-identifier token decoding to exactly the supplied name at the position(s) of the name. Positions written by separate code (index, constraint, FK names, PG enum cast) are explicit positions.",
         "Trusted: MySQL/PostgreSQL identifier lexical rules as modelled; TLC. Empty names and NUL outside the domain.",
         "§5 C04"),
 "C05": ("Engine operator-precedence tables and a Pratt parser written in TLA+; TLC checks on the transcribed binary_expr/parenthesis-dropping model that every enumerated tree re-parses to itself, generates the trees, and re-parses the real renderings of the same and of random deeper trees; SQLite renderings evaluated on the real engine against a fully parenthesised reference",
         "Bounded-exhaustive model checking over every (outer operator, inner operator, operand position) combination of all constructors (incl. BETWEEN/LIKE-ESCAPE/IN/IS/CAST encodings, PG and SQLite extension operators) under three precedence tables and option-more-parentheses, plus trace validation of the real rendering of every enumerated tree and of random trees to depth 5: TLC parses the recorded SQL with the engine's table and requires the tree that was built.",
         "Trusted: the documented precedence/associativity tables as transcribed (MySQL's finer yacc operand classes not modelled); TLC; SQLite engine for the SQLite dialect.",
         "§5 C05, Appendix C.2"),
 "C06": ("src/query/condition.rs as a TLA+ state machine (holder contents + history of supplied conditions, one action per cond_where/and_where call); TLC explores all call histories over a supplied set and all depth-2 single conditions, checking under all 27 three-valued assignments that the modelled rendering means the AND of what was given; the histories are replayed on SELECT/HAVING/UPDATE/DELETE/JOIN ON/CASE/ON CONFLICT and every intermediate real rendering is parsed and evaluated by TLC; SQLite truth tables from the real engine",
         "Model checking of the condition-holder state machine (merge / wrap / single-member unwrapping rules, to_simple_expr fold, parenthesis dropping) against a Kleene-logic definition of what the supplied conditions mean, plus trace validation of the real code on every enumerated history and random deeper ones, at every step of the history and in thirteen places (WHERE / HAVING with and without GROUP BY / UPDATE with one and two FROM tables / DELETE / JOIN ON / CASE WHEN / ON CONFLICT target and action through their three spellings / statements handed over by take()), with not() called up to three times on a condition; on SQLite the rendered statement is executed over a table holding all 27 assignments and the returned rows must be the demanded ones.",
         "Trusted: TLC; Kleene semantics of AND/OR/NOT/=/<>/IS; the expression parser of C05; SQLite engine.",
         "§5 C06, Appendix A"),
 "C10": ("src/query/insert.rs as a TLA+ state machine (columns / source / default_values; one action per public call); TLC explores every call history up to the tier's length with an invariant on Results, an action property on rejected calls and a rendering-vs-accepted-rows check; all histories are replayed step by step on the real InsertStatement and validated by TLC against the property-level reading of the history",
         "Model checking of the insert builder over all call sequences (30 actions, length <= 3 quick / <= 4 thorough; equal cells and equal rows, a tuple-valued row, a wildcard select list; rows handed over as a Vec, as an iterator whose size_hint overestimates and as one without a size hint) and trace validation of the real builder on the same histories plus random longer ones: per step the Result (both counts, and the order in which the error's message gives them), `stmt == clone` after a rejection, and the parsed VALUES list of all three renderings against the rows the history has had accepted.",
         "Trusted: TLC; the INSERT parser of Insert.tla. Known findings: columns() re-declared after rows; zero-column rows (see known_findings.json).",
         "§5 C10"),
 "C11": ("CustomWithExpr token loop and inject_parameters transcribed in TLA+ over the Tokenizer model; property-level TemplateAbs defines placeholders independently; TLC checks impl = abs on every template assembled from <= 3/4 items, generates them, and validates the recorded expansions (inline, parameterised, bound values, inject_parameters) of the real code",
         "Model checking of the template expansion loop against an independent definition of 'placeholder outside quoted text' for every template over an 18-item alphabet (quoted literals with embedded marks, doubled marks, $n, lone marks, adjacency cases), plus trace validation of the real cust_with_values / cust_with_expr / cust_with_exprs / inject_parameters on the same templates and random Unicode ones: output text must be the template with exactly the designated values substituted, bound values in emission order.",
         "Trusted: TLC; the stated domain restrictions (PostgreSQL `$` glued to word characters; literal marks produced by doubled marks for inject). Known finding: lone `$` on PostgreSQL.",
         "§5 C11"),
 "C01": ("Writer.tla (SqlWriterValues as Write/PushParam actions; the invariant on counter/values/placeholders checked by TLC and proved inductive without bounds by TLAPS in WriterProof.tla) and Stmt.tla (statement builders as state machines + the clause-emission order of prepare_*_statement with all backend overrides) checked by TLC over the pairwise-complete clause product; the same statements replayed on the real crate with the public SqlWriter trait recording the event stream; TLC validates events, placeholder lexing and bound-value order against StmtLaw!BoundOrder",
         "Model checking of the writer automaton and of the statement renderer model (C01 invariants on every enumerated statement x 3 backends), plus trace validation of the real renderer: the recorded write/push_param events must be a behaviour of Writer.tla, the engine lexer must find exactly n placeholders (PostgreSQL $1..$n ascending), and the bound values must be the values given, in the order the dialect's grammar places their clauses (values are distinct tags); build_any is judged on its own text and values as well.",
         "Trusted: TLC; TLAPS (tlapm) for the unbounded writer invariant; EngineLex; the per-dialect clause order of StmtLaw.tla (Appendix C.3).",
         "§5 C01"),
 "C02": ("Stmt.tla renders every statement with a String writer and with SqlWriterValues (ToParams); TLC checks token-for-token equality modulo literal substitution on the model and on the recordings of the real crate for all entry points; both forms executed on the real SQLite",
         "Model checking (RenderInline vs RenderParams on every enumerated statement) plus trace validation of the real code: Lex(to_string) must equal Lex(build.sql) with each placeholder replaced by the tokens of the backend literal of the bound value; build, build_any, build_collect, build_collect_any, build_collect_any_into (both writers), to_string twice and build_collect(String) must agree; the statement must equal its clone after rendering; on SQLite both forms are executed over the fixture and must return the same rows and table contents.",
         "Trusted: TLC; EngineLex; SQLite 3.40.1. Numeric literals are compared as text.",
         "§5 C02"),
 "C12": ("Conversion matrix of src/value.rs as a TLA+ decision table (Value.tla); TLC checks the round-trip / NULL / wrong-type laws on every (source type, target type, Option?, NULL?) cell and emits the cells; each cell is executed on the real crate with per-type payload pools, plus tuples of arity 1..12 and identity sweeps; TLC validates every recorded outcome against the table",
         "Model checking of the conversion table (4692 cells over 33 source / 34 target types, DateTime<Local> and pgvector::Vector included) and trace validation of the real From / ValueType::try_from / Option<T> / IntoValueTuple / FromValueTuple / as_null / dummy_value on every cell with concrete payloads (boundaries, float specials, chars across planes, feature types); exhaustive identity sweeps for 8/16-bit types, strided for 32-bit, f32 bit patterns and chars.",
         "Trusted: TLC; payload identity is observed through Debug text / bit patterns in the harness — the TLA+ content is the matrix (see DESIGN §5 C12).",
         "§5 C12"),
 "C15": ("Two-register SelectStatement state machine in TLA+ (Take.tla over the Stmt.tla builder model: take, clone, clear/reset, calls on either register) explored by TLC with invariants and a non-interference action property; all histories replayed on the real builder with ==, renderings and clause-free reference statements recorded per step; validated by TLC",
         "Model checking of all histories of <= 3 steps over 50 actions on two statement registers, plus trace validation of the real SelectStatement on those and on random long histories: after take the taken statement equals and renders as the statement before and the source equals a new one; a clone equals its source; a step on one register never changes the other's value or rendering; a clear operation yields exactly the statement rebuilt without that clause (== and token-equal rendering).",
         "Trusted: TLC; the crate's PartialEq as the notion of statement equality (Debug text for the schema statements, which have no PartialEq).",
         "§5 C15"),
 "C18": ("hashable_value's hand-written Eq/Hash as an abstract relation over named payload classes (ValueEq.tla); TLC checks reflexivity, symmetry, transitivity, variant separation and Eq => equal hash key on all triples of the pool; every pair of the real pool is compared (==, Hash, HashSet, ValueTuple) and validated by TLC, symmetry/transitivity also on the recorded matrix",
         "Model checking over all 111^3 triples of the abstract pool plus trace validation of the real Value::eq / Hash on the full 111 x 111 matrix (every variant incl. all chrono / time / decimal / uuid / network / vector types, NULLs, +0/-0, NaN payloads, JSON key order, decimal scales, one instant in two UTC offsets, arrays and nested arrays), and of value tuples of the same content in their One / Two / Three and Many representations (==, Hash, HashSet membership).",
         "Trusted: TLC; the payload-class table of ValueEq.tla; std's DefaultHasher as the fixed hasher.",
         "§5 C18"),
 "C07": ("Clause-level SQLite grammar in TLA+ (EngineGrammar) parses the real SQLite rendering of every generated statement against Expected(builder state); TLC also prints RefStmt, an independently written fully explicit rendering of the same builder state; inline form, parameterised form and reference are executed on the real SQLite over a fresh fixture and must return the same rows and leave the same tables",
         "Model checking generates the statements (pairwise-complete clause products, simulated deeper combinations); trace validation parses each real rendering with SQLite's clause grammar (clauses once, in grammar position, items in order, expression trees equal) and the engine differential executes crate output vs. reference: syntax errors, differing rows/RETURNING/table contents are violations; the real engine is authoritative where it and the grammar model disagree (MODEL-GAP notes).",
         "Trusted: SQLite 3.40.1; RefStmt.tla as the meaning of the builder calls; TLC.",
         "§5 C07"),
 "C08": ("Clause-level grammars of MySQL and PostgreSQL for the emitted subset written in TLA+ (EngineGrammar.tla) and the expected abstract statement per dialect (GrammarLaw!Expected); TLC parses the real renderings of all generated statements and compares clause by clause",
         "Trace validation of the real MySQL / PostgreSQL renderings of the TLC-generated statement space: ParseStmt_B(Lex_B(sql)) must be accepted and equal Expected(B, builder state) — every supported clause once, in the position the grammar requires, items in call order, expressions as built, dialect forms (ON DUPLICATE KEY UPDATE / VALUES(col), UPDATE..JOIN..ON, ROW(..), NULLS emulation, index hints; DISTINCT ON, excluded.col, NULLS FIRST/LAST) in their own dialect only — the constructs the property names as one dialect's are looked for in every rendering of the other, also of statements that were given such a construct (GrammarLaw!ForeignReasons).",
         "Trusted: the transcribed MySQL 8.0 / PostgreSQL 15 grammars (no engine available; permissive where the manuals are silent). Several known findings (named WINDOW clause, WITH before INSERT, ON DUPLICATE KEY IGNORE, dropped second JOIN table).",
         "§5 C08, Appendix C.3"),
 "C09": ("Portable(s) feature subset and a token-level transliteration MySQL/PostgreSQL -> SQLite spelling in TLA+ (Portable.tla); TLC requires token equality of the transliterated renderings with the SQLite rendering; the three texts are executed on the real SQLite and must agree",
         "Trace validation over the portable part of the TLC-generated statement space: after translating nothing but lexical spelling and the documented function substitutions the MySQL and PostgreSQL renderings must be token-equal to the SQLite rendering (MySQL NULLS emulation excepted), and inline and parameterised forms of all three, executed on SQLite over the fixture, must return identical rows and table contents — which validates the NULLS FIRST/LAST emulation; each rendering is also judged on its own: its placeholders must match its bound values, and it must denote the built statement under its own dialect's grammar (the C07 / C08 re-parse applied to the portable statements, where the engines' precedence tables differ).",
         "Trusted: SQLite as execution proxy for the transliterated MySQL/PostgreSQL texts (engine-specific semantics not observed); TLC; Portable(s).",
         "§5 C09"),
 "C13": ("SqliteCatalog.tla: the database catalogue as a state machine stepped by the declared schema statements (SQLite's affinity rules, rowid-alias rule, automatic indexes, PRAGMA shapes); TLC generates the declaration space; the real SQLite executes the crate's renderings and its PRAGMA dumps are validated by TLC against the model state after every step",
         "Trace validation with the real engine in the loop: for every generated declaration history (40 column types x 20 specification lists x table-level keys / indexes / foreign keys / checks x follow-up ALTER / INDEX / RENAME / DROP statements) the SQLite rendering must execute, and the engine's own catalogue (columns, nullability, defaults, primary key positions, constraint indexes, explicit indexes with direction / uniqueness / partial predicate (parsed from sqlite_master.sql), foreign keys with actions, AUTOINCREMENT, checks, type affinity) must equal the catalogue model stepped on the declarations.",
         "Trusted: SQLite 3.40.1 PRAGMA output; TLC; the catalogue rules in SqliteCatalog.tla (they are compared with the engine on every run). The implementation-level model of the DDL renderers (Schema.tla) is reported as impl_model_exact and never decides.",
         "§5 C13, Appendix C.4"),
 "C14": ("EngineDDL.tla: DDL grammars and data-type tables of MySQL and PostgreSQL; SchemaLaw!DdlReasons compares the parsed rendering with the declaration; TLC generates the declaration space and validates every recorded MySQL / PostgreSQL rendering",
         "Trace validation of the MySQL / PostgreSQL renderings of the TLC-generated declaration histories: CREATE TABLE elements in declaration order with one dialect-defined type per column (parameters / UNSIGNED / serial types) and each specification once, table-level indexes (with MySQL prefix lengths and index types) / foreign keys (named and unnamed) / checks, MySQL table options (COMMENT / ENGINE / COLLATE / CHARSET, each once), ALTER TABLE actions complete and correctly separated (PostgreSQL's per-specification sub-clauses), index / foreign-key / type statements in the dialect's form.",
         "Trusted: the transcribed MySQL 8.0 / PostgreSQL 15 DDL grammars and type tables (no engine available); TLC. MCSchema checks the implementation-level renderer model (Schema.tla) against the same grammars without the implementation.",
         "§5 C14"),
 "C19": ("Derive.tla: the derive macros as a function from a type definition to the names its values spell — word boundaries stated position by position (property level), a transcription of heck's scanner and of the generated fast-path predicate (implementation level), the attribute table; TLC checks scanner = stated boundaries and fast path sound/tight on all words, builds the type definitions step by step; the definitions are compiled with the real proc-macros against /repo and every value's to_string / prepare / as_str is validated by TLC",
         "Bounded-exhaustive model checking (all identifiers up to the tier's length over {A B a 1 _}, all name strings over an alphabet with quote characters, all type definitions up to the tier's variant count, simulated larger ones) bound to the code by compiling each generated definition with the real Iden / IdenStatic / enum_def macros and validating the observed names and quoted texts (three quote styles incl. the asymmetric [ ]) against the attribute table and the general identifier quoting; a definition whose expansion does not compile is a violation.",
         "Trusted: TLC; rustc as the executor of the proc-macros; ASCII identifiers only. The identifiers enum_def is expected to generate come from the model (wrong ones fail to compile and are reported).",
         "§5 C19"),
}
NA = {
 "C20": "Type-level fact about Rust auto-traits decided only by rustc's trait solver; no state, transition or observable behaviour to model or trace (DESIGN.md §5 C20).",
}
NOT_YET = "check not built yet in this revision (see DESIGN.md §11 for the construction order)"

def main():
    checks = []
    for pid in sorted(CLAIMED):
        tech, text, note, ref = CLAIMED[pid]
        checks.append({
            "property_id": pid,
            "quick_cmd": "./check %s --tier quick" % pid,
            "thorough_cmd": "./check %s --tier thorough" % pid,
            "evidence_file": "/verif/evidence/%s.json" % pid,
            "replay_cmd_template": "./check %s --replay {path}" % pid,
            "level_claimed": {"category": "model_checking", "text": text, "design_ref": ref},
            "level_note": note,
            "technique": tech,
        })
    na = []
    for pid in sorted(TITLES):
        if pid in CLAIMED:
            continue
        na.append({"property_id": pid, "reason": NA.get(pid, NOT_YET)})
    m = {
        "version": 1,
        "setup_cmd": "./setup.sh",
        "hooks": {
            "guard": "seaql_sea_query_verif",
            "enable": "no source hooks: the harness (/verif/harness) builds /repo's working tree as a path dependency with RUSTFLAGS --cfg seaql_sea_query_verif and observes it through the public API (including the public SqlWriter trait)",
            "baseline_off_cmd": "cd /repo && cargo test --workspace --no-fail-fast --offline",
            "source_commits": [],
            "add_only": True,
        },
        "engines": [
            {"name": "tlc", "path": "/opt/veriftools/tla/tla2tools.jar", "serves_properties": sorted(CLAIMED), "kind_free_text": "explicit-state model checker for the TLA+ specifications in /verif/spec (design checks, case generation, trace validation)"},
            {"name": "tlapm", "path": "/opt/veriftools/tlapm (tlapm on PATH)", "serves_properties": ["C01", "C16"], "kind_free_text": "TLA+ proof system: unbounded proofs of the writer invariant (WriterProof.tla) and of lossless / terminating token iteration (TokenizerProof.tla)"},
            {"name": "sqlite3", "path": "python3 sqlite3 module (SQLite 3.40.1)", "serves_properties": [p for p in ["C02","C03","C04","C05","C06","C07","C09","C13"] if p in CLAIMED], "kind_free_text": "real SQLite engine used as authority for SQLite-dialect questions"},
        ],
        "checks": checks,
        "not_applicable": na,
        "notes": "All checks: ./check <ID> --tier quick|thorough. Specs in /verif/spec, harness in /verif/harness, driver in /verif/lib. See DESIGN.md.",
    }
    with open(os.path.join(ROOT, "MANIFEST.json"), "w") as f:
        json.dump(m, f, indent=1)
    print("MANIFEST.json: %d checks, %d not_applicable" % (len(checks), len(na)))

main()
