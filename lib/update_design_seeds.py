#!/usr/bin/env python3
"""Rewrites DESIGN.md §12.7 (seeded changes) from /verif/seeded/*/meta.json."""
import glob, json, os, re, subprocess
root = os.path.dirname(os.path.dirname(os.path.abspath(__file__)))
p = os.path.join(root, "DESIGN.md"); s = open(p).read()
a = s.index("### 12.7 Binding demonstrated: seeded changes")
b = s.index("### 12.7a ") if "### 12.7a " in s else s.index("### 12.8 Growth of the specification")
n = len(glob.glob(os.path.join(root, "seeded", "*/")))
missed = sum(1 for d in glob.glob(os.path.join(root, "seeded", "*/")) if "at first" in json.load(open(d + "meta.json")).get("confirmed_by_me", {}).get("result", ""))
tbl = subprocess.check_output(["python3", os.path.join(root, "lib", "seedtable.py")], text=True)
txt = '''### 12.7 Binding demonstrated: seeded changes

Changes produced by independent sub-agents (each given only the property text,
a scratch worktree and — from the second round on — one-line descriptions of
the changes already used, so that it looks elsewhere), each compiling and
passing the whole suite, confirmed by me (`lib/verify_seeds.sh`: demo fails
with / passes without the patch; suite passes) and run through the checks with
`lib/seedtest.sh` (which restores the evidence file afterwards, so evidence
always describes the unchanged tree):

%d seeded changes in nine rounds (C20 is not applicable). Every one is caught by the quick tier of a registered check
(its property's own, except where the table names another) on the current tree. %d of them were missed or mishandled
when first run. Most misses had one cause: the case space lacked the feature the change needs (a builder method, a
clause, a value shape, a call order). In a few the check compared less than the property states — C09 compared the
three renderings with one another but judged none on its own (C09-6, C09-7); C13 compared the partial flag of an
index but not its predicate (C13-8); C14 parsed MySQL table options without comparing them (C14-8); C06 read the
first WHERE of an upsert whichever clause it belonged to (C06-8); C18 compared value tuples in one representation
only (C18-5); C08 did not judge statements given a construct of the other dialect at all (C08-10); C10 recorded the
error's message without reading it (C10-11); C14 ignored the IF NOT EXISTS guard of an ADD COLUMN action (C14-11) — and there the verdict was extended to what the property says, with a new key each time. No check was
ever loosened. The right-hand column records what was added. That loop (independent change → miss → grow the
specification and its generators → caught) is how most of §12.8 came about.

Four changes produced by the sub-agents were not kept, because the behaviour they change is outside the property
as stated: C05-8 (a CASE without any WHEN arm — the unchanged tree renders `(CASE ELSE x END)`, which no engine
parses, so there is no well-formed rendering to preserve), C10-6 (an empty row on a column-less INSERT through
`values_panic` — the behaviour it changes is the one already listed as an open C10 finding) and C11-6
(`inject_parameters` on a hand-written text that repeats `$1` — the property quantifies over the (sql, values)
pairs `build()` produces, which never repeat a number) and C05-14 (an `Expr::cust` fragment such as `(a = 1) OR (b = 2)`
spliced in without parentheses — opaque caller text is not among the constructors C05 quantifies over).

''' % (n, missed)
s = s[:a] + txt + tbl + "\n" + s[b:]
open(p, "w").write(s)
print("seeds:", n, "missed at first:", missed)
