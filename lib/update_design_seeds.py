#!/usr/bin/env python3
"""Rewrites DESIGN.md §12.7 (seeded changes) from /verif/seeded/*/meta.json."""
import glob, json, os, re, subprocess
root = os.path.dirname(os.path.dirname(os.path.abspath(__file__)))
p = os.path.join(root, "DESIGN.md"); s = open(p).read()
a = s.index("### 12.7 Binding demonstrated: seeded changes")
b = s.index("### 12.9 Growth of the specification")
n = len(glob.glob(os.path.join(root, "seeded", "*/")))
missed = sum(1 for d in glob.glob(os.path.join(root, "seeded", "*/")) if "at first" in json.load(open(d + "meta.json")).get("confirmed_by_me", {}).get("result", ""))
tbl = subprocess.check_output(["python3", os.path.join(root, "lib", "seedtable.py")], text=True)
txt = '''### 12.7 Binding demonstrated: seeded changes

Changes produced by independent sub-agents (each given only the property text,
a scratch worktree and — from the second round on — one-line descriptions of
the changes already used, so that it looks elsewhere), each compiling and
passing the whole suite, confirmed by me (`lib/verify_seeds.sh`: demo fails
with / passes without the patch; suite passes) and run through the checks with
`lib/seedtest.sh` (which restores the evidence file afterwards, so evidence
always describes the unchanged tree):

%d seeded changes in three rounds (C20 is not applicable). Every one is caught by the quick tier of its property's
check on the current tree. %d of them were missed or mishandled when first run — each time because the case space
lacked the feature, never because a verdict was too weak — and the right-hand column records what was added. That
loop (independent change → miss → grow the specification and its generators → caught) is how most of §12.9 came about.

''' % (n, missed)
s = s[:a] + txt + tbl + "\n" + s[b:]
open(p, "w").write(s)
print("seeds:", n, "missed at first:", missed)
