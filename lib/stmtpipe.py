"""Shared pipeline for the statement-level properties: TLC (MCStmt) generates
the statements, the harness replays them on the real crate, TLC (StmtTrace)
validates the recordings.  Keys are prefixed with the property they belong to."""
import json, os, random, time
from common import *
from pipeline import *
import stmtgen

def generate(tier, wd, rng):
    stmtgen.write_menu(os.path.join(SPEC, "stmt_menu.json"))
    budget = 2
    cfg = ("SPECIFICATION Spec\nCONSTANT Budget = %d\nCONSTANT StmtKinds = {\"select\", \"insert\", \"update\", \"delete\"}\n"
           "INVARIANT Check Emit\nCHECK_DEADLOCK FALSE\n" % budget)
    mc = run_tlc("MCStmt", cfg, os.path.join(wd, "mc"), workers=10, heap="8g", young=None, timeout=3400)
    tlc_must_pass(mc, "MCStmt")
    stmts = mc.json_payloads("CASE")
    mvs = mc.json_payloads("MV")
    states, gen = mc.distinct, mc.generated
    # deeper clause combinations: random walks over the full product (TLC -simulate)
    nsim = 70 if tier == "quick" else 3000
    cfg2 = cfg.replace("Budget = %d" % budget, "Budget = 99")
    sim = run_tlc("MCStmt", cfg2, os.path.join(wd, "sim"), workers=4, heap="4g", young=None, timeout=3400,
                  simulate="num=%d" % nsim, depth=16, tseed=seed())
    stmts += sim.json_payloads("CASE")
    mvs += sim.json_payloads("MV")
    # random nested statements beyond the menu
    for _ in range(300 if tier == "quick" else 6000):
        stmts.append(stmtgen.rand_stmt(rng))
    stmts += stmtgen.fixed_stmts()
    seen = set(); out = []
    for s in stmts:
        k = json.dumps(s, sort_keys=True)
        if k not in seen:
            seen.add(k); out.append(s)
    log("[stmt] MC: %d states, %d pairwise-complete statements + %d simulated/random; %d model-level counterexamples" % (states, len(mc.payloads("CASE")), len(out) - len(mc.payloads("CASE")), len(mvs)))
    return out, states, gen, mvs

def collect(pid, tier, replay_path, prefixes, wd, rng, extra_stmts=None, per_record=None, grammar=False, portable=False):
    """generate -> replay -> validate; returns (failures [(key, rec)], stats dict)"""
    states = gen = 0; mvs = []
    if replay_path:
        stmts = [r["stmt"] for r in json.load(open(replay_path))["records"]]
    else:
        stmts, states, gen, mvs = generate(tier, wd, rng)
        if extra_stmts:
            stmts = stmts + extra_stmts
        # binary expression nodes are built through the named builder methods of spec/expr_methods.json
        import exprmeth
        for st_ in stmts:
            exprmeth.annotate(st_, rng, 0.7)
            exprmeth.annotate_calls(st_, rng, 0.5)
    cases = [{"id": i, "stmt": s} for i, s in enumerate(stmts)]
    recs, dt = replay("stmt", cases, wd)
    verdicts, vt = validate("StmtTrace", recs, os.path.join(wd, "tv"), jvms=12, cfg="SPECIFICATION TSpec\nPOSTCONDITION AllConsumed\nCHECK_DEADLOCK FALSE\n", env={"GRAMMAR": "1" if grammar else "0", "PORTABLE": "1" if portable else "0"})
    log("[%s] replayed %d statements in %.1fs, validated in %.1fs" % (pid, len(recs), dt, vt))
    byid = {r["id"]: r for r in recs}
    fails = []; notes = []
    nontriv = drift = skipped = 0
    def slim(r):
        o = r["obs"]
        if "r" not in o: return o
        return {b: (x.get("r", x) if isinstance(x, dict) else x) for b, x in o["r"].items() if b in ("mysql", "pg", "sqlite")}
    for v in verdicts:
        r = byid[v["id"]]
        if any(k.startswith("!case_error") for k in v["keys"]):
            raise ToolError("%s: statement %d: %s" % (pid, v["id"], [k for k in v["keys"] if k.startswith("!")]))
        keys = set(k for k in v["keys"] if any(k.startswith(p) for p in prefixes))
        if per_record:
            extra = per_record(r, v)
            keys -= set(k[1:] for k in extra if k.startswith("-"))
            keys |= set(k for k in extra if not k.startswith("-"))
        for k in sorted(keys):
            fails.append((k, {"stmt": r["stmt"], "obs": slim(r)}))
        nontriv += 1 if v["nvals"] >= 2 else 0
        skipped += v["skipped"]
        if not v["exact"]:
            drift += 1
            if drift <= 5: notes.append("DRIFT: %s rendering differs from the impl-level model (Stmt.tla) for %s" % (pid, json.dumps(r["stmt"])[:400]))
    mv_mine = [m for m in mvs if any(any(w[1].startswith(p.rstrip("/")) for p in prefixes) for w in m["where"])]
    stats = {"states": max(states, 1), "transitions": max(gen, 1), "n": len(verdicts), "nontriv": nontriv, "drift": drift,
             "skipped": skipped, "mv": len(mv_mine), "samples": [{"stmt": r["stmt"], "pg": slim(r).get("pg") if isinstance(slim(r), dict) else None} for r in recs[:: max(1, len(recs) // 3)][:3]]}
    return fails, notes, stats

def run_prop(pid, tier, replay_path, prefixes, rule, assumptions, extra_stmts=None, per_record=None, extra_cov=None, grammar=False, portable=False):
    t0 = time.time()
    wd = workdir(pid); rng = random.Random(seed()); V = Verdict(pid, tier)
    fails, notes, st = collect(pid, tier, replay_path, prefixes, wd, rng, extra_stmts(rng, tier) if extra_stmts and not replay_path else None, per_record, grammar, portable)
    for n in notes: V.note(n)
    for k, rec in fails: V.fail(k, rec)
    cov = {"states": st["states"], "transitions": st["transitions"], "traces_validated_against_impl": st["n"],
           "evaluations": st["n"] * 3, "distinct_nontrivial": st["nontriv"], "rule": rule, "samples": st["samples"],
           "model_level_counterexamples": st["mv"], "backend_cases_unsupported": st["skipped"],
           "impl_model_exact": st["drift"] == 0, "drift": st["drift"]}
    if extra_cov: cov.update(extra_cov())
    return std_finish(pid, tier, t0, V, cov, assumptions)
