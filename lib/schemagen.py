"""Schema declaration cases (C13 / C14 / schema take of C15): writes spec/schema_menu.json (slots of
options) from which TLC (MCMenu) enumerates pick vectors; assembles a declared history from the picks."""
import json, os

def T(k, **kw): d = {"k": k}; d.update(kw); return d
TYPES = [T("Integer"), T("Char"), T("Char", n=8), T("String"), T("String", n=255), T("Text"), T("Blob"), T("TinyInteger"), T("SmallInteger"), T("BigInteger"),
         T("TinyUnsigned"), T("SmallUnsigned"), T("Unsigned"), T("BigUnsigned"), T("Float"), T("Double"), T("Decimal"), T("Decimal", p=10, s=2), T("Decimal", p=16, s=4), T("Decimal", p=1, s=0), T("Decimal", p=17, s=2), T("DateTime"), T("Timestamp"),
         T("TimestampWithTimeZone"), T("Time"), T("Date"), T("Year"), T("Binary", n=16), T("Binary", n=1), T("VarBinary", n=64), T("VarBinary"), T("String", max=True), T("Bit"), T("Bit", n=4), T("VarBit", n=9), T("Boolean"),
         T("Money"), T("Money", p=12, s=4), T("Json"), T("JsonBinary"), T("Uuid"), T("Enum", name="mood", variants=["sad", "ok", "it's"]), T("Cidr"), T("Inet"), T("MacAddr"), T("LTree"),
         T("Array", elem=T("Integer")), T("Array", elem=T("String", n=8)), T("Interval"), T("Interval", n=3), T("Custom", name="citext"), T("Vector", n=3)]
def V(t, v): return {"t": t, "v": v}
SPECS = [[], [T("NotNull")], [T("Null")], [T("Unique")], [T("PrimaryKey")], [T("Default", v=V("Int", "7"))], [T("Default", v=V("String", "it's"))],
         [T("NotNull"), T("Default", v=V("Int", "0"))], [T("Default", v=V("Int", "5")), T("NotNull")], [T("NotNull"), T("Unique")], [T("Unique"), T("NotNull")],
         [T("PrimaryKey"), T("AutoIncrement")], [T("AutoIncrement"), T("PrimaryKey")], [T("AutoIncrement"), T("NotNull"), T("PrimaryKey")],
         [T("Check", e={"k": "bin", "op": "GreaterThan", "l": {"k": "col", "n": "a"}, "r": {"k": "val", "v": V("Int", "0")}})],
         [T("NotNull"), T("Check", e={"k": "bin", "op": "NotEqual", "l": {"k": "col", "n": "a"}, "r": {"k": "val", "v": V("Int", "3")}}), T("Default", v=V("Int", "1"))],
         [T("Check", e={"k": "bin", "op": "GreaterThan", "l": {"k": "col", "n": "a"}, "r": {"k": "val", "v": V("Int", "0")}}),
          T("Check", e={"k": "bin", "op": "SmallerThan", "l": {"k": "col", "n": "a"}, "r": {"k": "val", "v": V("Int", "100")}})],
         [T("Generated", e={"k": "bin", "op": "Add", "l": {"k": "col", "n": "b"}, "r": {"k": "val", "v": V("Int", "1")}}, stored=True)],
         [T("Generated", e={"k": "bin", "op": "Mul", "l": {"k": "col", "n": "b"}, "r": {"k": "val", "v": V("Int", "2")}}, stored=False), T("NotNull")],
         [T("Comment", s="it's a column")], [T("Comment", s="c"), T("NotNull")], [T("Default", v=V("Bool", True))], [T("Default", v={"t": "String", "null": True})]]
EXTRAS = [{}, {"indexes": [{"cols": [{"n": "b"}, {"n": "c"}], "primary": True}]}, {"indexes": [{"name": "uq_bc", "cols": [{"n": "b"}, {"n": "c"}], "unique": True}]},
          {"indexes": [{"cols": [{"n": "c"}], "unique": True}]}, {"fks": [{"name": "fk_b", "from_table": "t", "from_cols": ["b"], "to_table": "p", "to_cols": ["id"], "on_delete": "Cascade", "on_update": "SetNull"}]},
          {"fks": [{"from_table": "t", "from_cols": ["b"], "to_table": "p", "to_cols": ["id"]}]},
          {"checks": [{"k": "bin", "op": "SmallerThan", "l": {"k": "col", "n": "b"}, "r": {"k": "val", "v": V("Int", "100")}}]}, {"if_not_exists": True},
          {"indexes": [{"name": "ix_b", "cols": [{"n": "b"}]}]}, {"comment": "it's a table", "engine": "InnoDB"},
          {"comment": "c", "engine": "InnoDB", "collate": "utf8mb4_unicode_ci", "character_set": "utf8mb4"}, {"engine": "MyISAM", "character_set": "latin1"}, {"comment": "only"},
          {"collate": "utf8mb4_bin"},
          {"indexes": [{"name": "ix_h", "cols": [{"n": "b"}], "index_type": "Hash"}]}, {"indexes": [{"name": "uq_t", "cols": [{"n": "b"}, {"n": "c"}], "unique": True, "index_type": "BTree"}]},
          {"indexes": [{"name": "ft_c", "cols": [{"n": "c"}], "index_type": "FullText"}]},
          {"indexes": [{"cols": [{"n": "b", "o": "Desc"}, {"n": "c", "o": "Asc"}], "unique": True}]},
          {"indexes": [{"name": "pk_bc", "cols": [{"n": "c", "o": "Desc"}, {"n": "b"}], "primary": True}]},
          {"indexes": [{"name": "uq_p", "cols": [{"n": "c", "p": 8}, {"n": "b", "o": "Desc"}], "unique": True}]},
          # a predicate on an in-table key: no dialect has partial table constraints (MySQL and PostgreSQL leave it out)
          {"indexes": [{"name": "uq_w", "cols": [{"n": "b"}], "unique": True, "include": ["c"],
                        "where": {"k": "bin", "op": "GreaterThan", "l": {"k": "col", "n": "b"}, "r": {"k": "val", "v": V("Int", "5")}}, "where_cols": ["b"]}]},
          {"indexes": [{"cols": [{"n": "c", "p": 4, "o": "Desc"}], "primary": True}]}]
COLX = {"name": "x", "type": T("Integer"), "specs": []}
FOLLOW = [None,
          {"stmt": "table_alter", "table": "t", "ops": [{"k": "add_column", "col": {"name": "x", "type": T("String", n=16), "specs": [T("NotNull"), T("Default", v=V("String", "n/a"))]}}]},
          {"stmt": "table_alter", "table": "t", "ops": [{"k": "add_column", "col": {"name": "x", "type": T("BigInteger"), "specs": []}}]},
          {"stmt": "table_alter", "table": "t", "ops": [{"k": "add_column", "col": {"name": "g", "type": T("Integer"), "specs": [T("Generated", e={"k": "bin", "op": "Add", "l": {"k": "col", "n": "b"}, "r": {"k": "val", "v": V("Int", "3")}}, stored=False)]}}]},
          {"stmt": "table_alter", "table": "t", "ops": [{"k": "add_column", "col": {"name": "g", "type": T("Integer"), "specs": [T("Generated", e={"k": "bin", "op": "Add", "l": {"k": "col", "n": "b"}, "r": {"k": "val", "v": V("Int", "4")}}, stored=True), T("NotNull")]}}]},
          {"stmt": "table_alter", "table": "t", "ops": [{"k": "rename_column", "from": "c", "to": "c2"}]},
          {"stmt": "table_alter", "table": "t", "ops": [{"k": "rename_column", "from": "b", "to": "b2"}]},
          {"stmt": "table_alter", "table": "t", "ops": [{"k": "drop_column", "name": "c"}]},
          {"stmt": "table_rename", "from": "t", "to": "t_new"},
          {"stmt": "index_create", "name": "ix1", "table": "t", "cols": [{"n": "b"}]},
          {"stmt": "index_create", "name": "ix2", "table": "t", "cols": [{"n": "c", "o": "Desc"}, {"n": "b", "o": "Asc"}], "unique": True},
          {"stmt": "index_create", "name": "ix1", "table": "t", "cols": [{"n": "b"}], "if_not_exists": True},
          {"stmt": "index_create", "name": "ix3", "table": "t", "cols": [{"n": "b"}], "where": {"k": "bin", "op": "GreaterThan", "l": {"k": "col", "n": "b"}, "r": {"k": "val", "v": V("Int", "5")}}, "where_cols": ["b"]},
          {"stmt": "index_create", "name": "ix8", "table": "t", "cols": [{"n": "c", "p": 8}, {"n": "b", "p": 2, "o": "Desc"}], "unique": True},
          {"stmt": "index_create", "name": "ix9", "table": "t", "cols": [{"n": "c"}], "unique": True,
           "wheres": [{"k": "bin", "op": "GreaterThan", "l": {"k": "col", "n": "b"}, "r": {"k": "val", "v": V("Int", "5")}}, {"k": "isnull", "e": {"k": "col", "n": "c"}, "neg": False}],
           "where": {"k": "bin", "op": "And", "l": {"k": "bin", "op": "GreaterThan", "l": {"k": "col", "n": "b"}, "r": {"k": "val", "v": V("Int", "5")}}, "r": {"k": "isnull", "e": {"k": "col", "n": "c"}, "neg": False}}, "where_cols": ["b", "c"]},
          {"stmt": "index_create", "name": "ix\"q`r", "table": "t", "cols": [{"n": "b"}]},
          {"stmt": "index_drop", "name": "ix\"q`r", "table": "t"},
          {"stmt": "index_create", "name": "ix4", "table": "t", "cols": [{"n": "c"}], "index_type": "Hash"},
          {"stmt": "index_create", "name": "ix5", "table": "t", "cols": [{"n": "c"}], "index_type": "FullText"},
          {"stmt": "index_create", "name": "ix6", "table": "t", "cols": [{"n": "b"}], "unique": True, "include": ["c"], "nulls_not_distinct": True},
          {"stmt": "index_create", "name": "ix7", "table": "t", "cols": [{"n": "b", "o": "Desc"}], "unique": True, "index_type": "BTree",
           "where": {"k": "isnull", "neg": True, "e": {"k": "col", "n": "c"}}, "where_cols": ["c"]},
          {"stmt": "index_drop", "name": "ix1", "table": "t"},
          {"stmt": "index_drop", "name": "ix1", "table": "t", "schema": "public", "if_exists": True},
          {"stmt": "index_drop", "name": "ix1", "table": "t", "schema": "public"},
          {"stmt": "table_drop", "tables": ["t"]},
          {"stmt": "table_drop", "tables": ["t"], "if_exists": True},
          {"stmt": "table_drop", "tables": ["nope"], "if_exists": True},
          {"stmt": "table_drop", "tables": ["t", "p"], "if_exists": True},
          {"stmt": "table_alter", "table": "t", "ops": [{"k": "modify_column", "col": {"name": "b", "type": T("BigInteger"), "specs": [T("NotNull")]}}]},
          {"stmt": "table_alter", "table": "t", "ops": [{"k": "modify_column", "col": {"name": "b", "type": T("Integer"), "specs": [T("Comment", s="x"), T("NotNull")]}}]},
          {"stmt": "table_alter", "table": "t", "ops": [{"k": "modify_column", "col": {"name": "b", "type": T("Integer"), "specs": [T("AutoIncrement"), T("NotNull")]}}]},
          {"stmt": "table_alter", "table": "t", "ops": [{"k": "modify_column", "col": {"name": "b", "type": T("Integer"), "specs": [T("Default", v=V("Int", "9")), T("Unique"), T("Null")]}}]},
          {"stmt": "table_alter", "table": "t", "ops": [{"k": "modify_column", "col": {"name": "b", "type": T("Integer"), "specs": [T("NotNull"), T("Check", e={"k": "bin", "op": "GreaterThan", "l": {"k": "col", "n": "b"}, "r": {"k": "val", "v": V("Int", "0")}})]}}]},
          {"stmt": "table_alter", "table": "t", "ops": [{"k": "add_column", "col": COLX}, {"k": "drop_column", "name": "c"}, {"k": "rename_column", "from": "b", "to": "b3"}]},
          {"stmt": "table_alter", "table": "t", "ops": [{"k": "add_fk", "fk": {"name": "fk2", "from_table": "t", "from_cols": ["b"], "to_table": "p", "to_cols": ["id"], "on_delete": "Restrict"}}]},
          {"stmt": "table_alter", "table": "t", "ops": [{"k": "drop_fk", "name": "fk_b"}]},
          {"stmt": "fk_create", "name": "fk3", "from_table": "t", "from_cols": ["b"], "to_table": "p", "to_cols": ["id"], "on_update": "Cascade"},
          {"stmt": "table_alter", "table": "t", "ops": [{"k": "add_column_if_not_exists", "col": COLX}]},
          {"stmt": "table_alter", "table": "t", "ops": [{"k": "add_column", "col": COLX}, {"k": "add_column_if_not_exists", "col": {"name": "y", "type": T("Text"), "specs": []}}]},
          {"stmt": "table_alter", "table": "t", "ops": [{"k": "drop_column", "name": "c"}, {"k": "add_column_if_not_exists", "col": COLX}, {"k": "add_column", "col": {"name": "y", "type": T("Text"), "specs": [T("NotNull")]}}]},
          {"stmt": "fk_drop", "name": "fk_b", "table": "t"},
          {"stmt": "fk_create", "from_table": "t", "from_cols": ["b"], "to_table": "p", "to_cols": ["id"]},
          {"stmt": "fk_create", "from_table": "t", "from_cols": ["b", "c"], "to_table": "p", "to_cols": ["id", "v"], "on_delete": "SetDefault", "on_update": "NoAction"},
          {"stmt": "table_alter", "table": "t", "ops": [{"k": "add_fk", "fk": {"from_table": "t", "from_cols": ["b"], "to_table": "p", "to_cols": ["id"], "on_update": "Cascade"}}]},
          {"stmt": "table_alter", "table": "t", "ops": [{"k": "add_column", "col": COLX}, {"k": "add_fk", "fk": {"from_table": "t", "from_cols": ["x"], "to_table": "p", "to_cols": ["id"]}}]},
          {"stmt": "table_truncate", "table": "t"},
          {"stmt": "type_create", "name": "mood", "values": ["sad", "ok", "it's"]},
          {"stmt": "type_alter", "name": "mood", "op": "add_value", "value": "great", "after": "ok"},
          {"stmt": "type_alter", "name": "mood", "op": "add_value", "value": "great", "before": "ok", "if_not_exists": True, "ine_first": True},
          {"stmt": "type_alter", "name": "mood", "op": "add_value", "value": "great", "after": "sad", "if_not_exists": True},
          {"stmt": "type_alter", "name": "mood", "op": "add_value", "value": "great", "if_not_exists": True},
          {"stmt": "type_alter", "name": "mood", "op": "rename_value", "value": "ok", "to": "fine"},
          {"stmt": "type_alter", "name": "mood", "op": "rename_to", "value": "feeling"},
          {"stmt": "type_drop", "name": "mood", "if_exists": True, "cascade": True},
          {"stmt": "extension_create", "name": "ltree"},
          {"stmt": "extension_create", "name": "ltree", "schema": "public", "version": "v2", "cascade": True, "if_not_exists": True},
          {"stmt": "extension_create", "name": "ltree", "version": "1.1"},
          {"stmt": "extension_drop", "name": "ltree", "if_exists": True, "cascade": True},
          {"stmt": "extension_drop", "name": "ltree", "restrict": True}]

def menu():
    return {"schema": [[i for i in range(len(TYPES))], [i for i in range(len(SPECS))], [i for i in range(len(EXTRAS))], [i for i in range(len(FOLLOW))], [i for i in range(len(FOLLOW))]]}

def all_statements():
    """every distinct declaration of the space (for the design check MCSchema): each type with each specification list,
    each table-level extra, each follow-up statement"""
    out = []
    for ty in TYPES:
        for sp in SPECS:
            out.append({"stmt": "table_create", "table": "t", "cols": [{"name": "a", "type": ty, "specs": sp}, {"name": "b", "type": T("Integer"), "specs": []}]})
    for ex in EXTRAS:
        tc = {"stmt": "table_create", "table": "t", "cols": [{"name": "a", "type": T("Integer"), "specs": []}, {"name": "b", "type": T("Integer"), "specs": []}, {"name": "c", "type": T("String", n=32), "specs": []}]}
        tc.update(ex); out.append(tc)
    out += [f for f in FOLLOW if f is not None]
    return out

def write_menu(path):
    with open(path, "w") as f:
        json.dump(menu(), f)
    with open(os.path.join(os.path.dirname(path), "schema_stmts.json"), "w") as f:
        json.dump(all_statements(), f)

def assemble(picks):
    ty, sp, ex, f1, f2 = [p - 1 for p in picks]
    specs = SPECS[sp]
    cols = [{"name": "a", "type": TYPES[ty], "specs": specs}, {"name": "b", "type": T("Integer"), "specs": []}, {"name": "c", "type": T("String", n=32), "specs": []}]
    tc = {"stmt": "table_create", "table": "t", "cols": cols}
    tc.update(EXTRAS[ex])
    hist = [{"stmt": "table_create", "table": "p", "cols": [{"name": "id", "type": T("Integer"), "specs": [T("PrimaryKey")]}]}, tc]
    for f in (f1, f2):
        if FOLLOW[f] is not None:
            hist.append(FOLLOW[f])
    return hist


# ---- ColumnDef type-setting methods (spec/column_methods.json; read by SchemaLaw.tla as well) -------------
import json as _json, os as _os, copy as _copy
COL_METHODS = _json.load(open(_os.path.join(_os.path.dirname(_os.path.abspath(__file__)), "..", "spec", "column_methods.json")))
def _col_methods_for(t):
    out = []
    for m, e in COL_METHODS.items():
        if e["k"] != t.get("k") or any(f not in t for f in e["need"]) or any(f in t for f in e["forbid"]): continue
        if m == "binary" and t.get("n") != 1: continue
        out.append(m)
    return out
def annotate_methods(hist, rng, p=0.5):
    hist = _copy.deepcopy(hist)
    def col(c):
        if isinstance(c, dict) and isinstance(c.get("type"), dict) and "m" not in c and rng.random() < p:
            ms = _col_methods_for(c["type"])
            if ms: c["m"] = rng.choice(ms)
    for d in hist:
        for c in d.get("cols", []) or []: col(c)
        for o in d.get("ops", []) or []:
            if isinstance(o, dict) and "col" in o: col(o["col"])
    return hist
