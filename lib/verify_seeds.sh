#!/bin/bash
# Re-confirms every seed in a scratch worktree: suite passes with the patch; demo fails with it and passes without.
# usage: verify_seeds.sh [seed-dir ...]   (default: all of /verif/seeded/*)
WT=/tmp/verify_wt
OUT=/verif/.work/verify_seeds.log
mkdir -p /verif/.work; : > $OUT
git -C /repo worktree remove --force $WT 2>/dev/null; git -C /repo worktree prune
git -C /repo worktree add -q --detach $WT HEAD || exit 2
SEEDS="$@"; [ -z "$SEEDS" ] && SEEDS=$(ls -d /verif/seeded/*/)
for d in $SEEDS; do
  d=${d%/}; name=$(basename $d)
  cd $WT && git checkout -q -- . && git clean -qfd examples tests 2>/dev/null
  FEAT=$(python3 -c "import json,sys; f=json.load(open('$d/meta.json')).get('features',[]); print(','.join(f) if isinstance(f,list) else str(f))" 2>/dev/null)
  FARG=""; [ -n "$FEAT" ] && FARG="--features $FEAT"
  if grep -q "fn main" $d/demo.rs; then mkdir -p examples; cp $d/demo.rs examples/demo_seed.rs; RUN="cargo run -q --offline $FARG --example demo_seed"; else cp $d/demo.rs tests/demo_seed.rs; RUN="cargo test -q --offline --test demo_seed"; fi
  $RUN > /tmp/verify_demo.log 2>&1; base=$?
  git apply $d/patch.diff || { echo "$name: PATCH-FAILS" >> $OUT; continue; }
  $RUN > /tmp/verify_demo.log 2>&1; with=$?
  rm -f examples/demo_seed.rs tests/demo_seed.rs
  cargo test --workspace --no-fail-fast --offline > /tmp/verify_suite.log 2>&1; suite=$?
  failed=$(grep -E "^test result" /tmp/verify_suite.log | awk '{f+=$6} END {print f+0}')
  passed=$(grep -E "^test result" /tmp/verify_suite.log | awk '{f+=$4} END {print f+0}')
  echo "$name: demo_without_patch_exit=$base demo_with_patch_exit=$with suite_exit=$suite passed=$passed failed=$failed" >> $OUT
done
cd / && git -C /repo worktree remove --force $WT; git -C /repo worktree prune
echo DONE >> $OUT
