------------------------------- MODULE Chars -------------------------------
(***************************************************************************)
(* Characters and strings.  A string is a TLA+ string; TLC's Sequences     *)
(* overrides give Len, \o and SubSeq on strings (UTF-16 units).  Characters *)
(* that cannot be written in a TLA+ literal are loaded from chars.json.    *)
(***************************************************************************)
EXTENDS Naturals, Sequences, TLC, Json

NamedChars == JsonDeserialize("chars.json")
NUL == NamedChars.NUL
BS  == NamedChars.BS
SUB == NamedChars.SUB
FF  == NamedChars.FF
BSL == "\\"
SQ  == "'"
DQ  == "\""
BQ  == "`"

Ch(s, i) == SubSeq(s, i, i)
From(s, i) == SubSeq(s, i, Len(s))
Before(s, i) == SubSeq(s, 1, i - 1)

Digits == {"0","1","2","3","4","5","6","7","8","9"}
Upper  == {"A","B","C","D","E","F","G","H","I","J","K","L","M","N","O","P","Q","R","S","T","U","V","W","X","Y","Z"}
Lower  == {"a","b","c","d","e","f","g","h","i","j","k","l","m","n","o","p","q","r","s","t","u","v","w","x","y","z"}
Letters == Upper \cup Lower
HexDigits == Digits \cup {"a","b","c","d","e","f","A","B","C","D","E","F"}
AsciiPunct == {"!","\"","#","$","%","&","'","(",")","*","+",",","-",".","/",":",";","<","=",">","?","@","[","\\","]","^","_","`","{","|","}","~"}
AsciiSpace == {" ", "\t", "\n", "\r", FF, NamedChars.VT}
\* every ASCII character that can occur in text handled here; anything else
\* (>= U+0080, or a control character not named above) is "other"
AsciiKnown == Digits \cup Letters \cup AsciiPunct \cup AsciiSpace \cup {NUL, BS, SUB}

UpperOf(c) ==
  CASE c = "a" -> "A" [] c = "b" -> "B" [] c = "c" -> "C" [] c = "d" -> "D" [] c = "e" -> "E"
    [] c = "f" -> "F" [] c = "g" -> "G" [] c = "h" -> "H" [] c = "i" -> "I" [] c = "j" -> "J"
    [] c = "k" -> "K" [] c = "l" -> "L" [] c = "m" -> "M" [] c = "n" -> "N" [] c = "o" -> "O"
    [] c = "p" -> "P" [] c = "q" -> "Q" [] c = "r" -> "R" [] c = "s" -> "S" [] c = "t" -> "T"
    [] c = "u" -> "U" [] c = "v" -> "V" [] c = "w" -> "W" [] c = "x" -> "X" [] c = "y" -> "Y"
    [] c = "z" -> "Z" [] OTHER -> c

RECURSIVE UpperStrFrom(_, _)
UpperStrFrom(s, i) == IF i > Len(s) THEN "" ELSE UpperOf(Ch(s, i)) \o UpperStrFrom(s, i + 1)
UpperStr(s) == UpperStrFrom(s, 1)

HexVal(c) ==
  CASE c = "0" -> 0 [] c = "1" -> 1 [] c = "2" -> 2 [] c = "3" -> 3 [] c = "4" -> 4
    [] c = "5" -> 5 [] c = "6" -> 6 [] c = "7" -> 7 [] c = "8" -> 8 [] c = "9" -> 9
    [] c \in {"a","A"} -> 10 [] c \in {"b","B"} -> 11 [] c \in {"c","C"} -> 12
    [] c \in {"d","D"} -> 13 [] c \in {"e","E"} -> 14 [] c \in {"f","F"} -> 15

DigitVal(c) == HexVal(c)

RECURSIVE ConcatAll(_)
ConcatAll(ss) == IF ss = <<>> THEN "" ELSE Head(ss) \o ConcatAll(Tail(ss))

\* s contains character c?
RECURSIVE HasCharFrom(_, _, _)
HasCharFrom(s, c, i) == IF i > Len(s) THEN FALSE ELSE IF Ch(s, i) = c THEN TRUE ELSE HasCharFrom(s, c, i + 1)
HasChar(s, c) == HasCharFrom(s, c, 1)

\* does s have prefix p at position i?
StartsWithAt(s, i, p) == i + Len(p) - 1 <= Len(s) /\ SubSeq(s, i, i + Len(p) - 1) = p

\* decimal string of a natural number
RECURSIVE NatToStr(_)
DigitStr(d) == CASE d = 0 -> "0" [] d = 1 -> "1" [] d = 2 -> "2" [] d = 3 -> "3" [] d = 4 -> "4"
                 [] d = 5 -> "5" [] d = 6 -> "6" [] d = 7 -> "7" [] d = 8 -> "8" [] d = 9 -> "9"
NatToStr(n) == IF n < 10 THEN DigitStr(n) ELSE NatToStr(n \div 10) \o DigitStr(n % 10)

\* value of a (short) decimal digit string; -1 if not all digits or too long
RECURSIVE StrToNatFrom(_, _, _)
StrToNatFrom(s, i, acc) ==
  IF i > Len(s) THEN acc
  ELSE IF Ch(s, i) \notin Digits THEN 0 - 1
  ELSE StrToNatFrom(s, i + 1, acc * 10 + DigitVal(Ch(s, i)))
StrToNat(s) == IF s = "" \/ Len(s) > 8 THEN 0 - 1 ELSE StrToNatFrom(s, 1, 0)

\* build a string from a sequence of indices into an alphabet (a sequence of
\* one-character strings)
RECURSIVE StrOf(_, _)
StrOf(alpha, w) == IF w = <<>> THEN "" ELSE alpha[Head(w)] \o StrOf(alpha, Tail(w))

\* all index words of length 0..n over 1..k
Words(k, n) == UNION {[1..m -> 1..k] : m \in 0..n}
=============================================================================
