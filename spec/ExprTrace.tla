----------------------------- MODULE ExprTrace -----------------------------
(* Trace validation for C05: the recorded rendering of each expression     *)
(* must re-parse, under the engine's precedence table, to the tree built.  *)
EXTENDS Expr, RefRender, IOUtils, TLCExt
Rec == ndJsonDeserialize(IOEnv.TRACE)
MP == IOEnv.MOREPAREN = "1"
Backends == {"mysql", "pg", "sqlite"}
VARIABLE l
Init == l = 1
IsPanic(o) == "panic" \in DOMAIN o

\* structural diagnosis of the case (cause tags for reason keys)
Kids(e) ==
  CASE e.k = "bin" -> <<e.l, e.r>> [] e.k = "not" -> <<e.e>> [] e.k = "between" -> <<e.e, e.a, e.b>>
    [] e.k \in {"like", "isnull", "cast", "insub", "asenum"} -> <<e.e>>
    [] e.k = "in" -> <<e.e>> \o e.vs [] e.k = "fn" -> e.args [] e.k = "tuple" -> e.es
    [] e.k = "case" -> [i \in 1..(2 * Len(e.whens)) |-> IF i % 2 = 1 THEN e.whens[(i + 1) \div 2].c ELSE e.whens[i \div 2].r]
                       \o (IF "else" \in DOMAIN e THEN <<e.else>> ELSE <<>>)
    [] e.k = "cond" -> SelectSeq(e.ms, LAMBDA m : m.k # "null")
    [] OTHER -> <<>>
SimpleBound(x) == x.k \in {"col", "val", "const", "fn", "cast", "tuple", "case", "subq", "kw"}
                  \/ (x.k = "bin" /\ (IsArith(x.op) \/ IsShift(x.op)))
IlikeEsc(x) == x.k = "like" /\ "ci" \in DOMAIN x /\ x.ci /\ "esc" \in DOMAIN x
BetweenBound(x) == (x.k = "between" /\ (~SimpleBound(x.a) \/ ~SimpleBound(x.b)))
                   \/ (x.k = "bin" /\ x.op \in {"Between", "NotBetween"} /\ x.r.k = "bin" /\ x.r.op = "And"
                       /\ (~SimpleBound(x.r.l) \/ ~SimpleBound(x.r.r)))
RECURSIVE AnyIlikeEsc(_), AnyBetweenBound(_)
AnyIlikeEsc(e) == IlikeEsc(e) \/ \E i \in DOMAIN Kids(e) : AnyIlikeEsc(Kids(e)[i])
AnyBetweenBound(e) == BetweenBound(e) \/ \E i \in DOMAIN Kids(e) : AnyBetweenBound(Kids(e)[i])
RECURSIVE MethodsOk(_)
MethodsOk(e) == (e.k # "bin" \/ MethodOk(e)) /\ \A i \in DOMAIN Kids(e) : MethodsOk(Kids(e)[i])
Diag(e) == IF AnyIlikeEsc(e) THEN "ilike_escape" ELSE IF AnyBetweenBound(e) THEN "between_bound" ELSE "general"

Verdict(r) ==
  IF IsPanic(r.obs) THEN [id |-> r.id, keys |-> {"C05/harness/panic"}, exact |-> TRUE, nt |-> FALSE, ref |-> "", sql |-> "", pref |-> ""]
  ELSE
  LET o == r.obs.r
      keys == UNION { IF ~Supported(B, r.e) THEN {}
                      ELSE IF IsPanic(o[B]) THEN {"C05/" \o B \o "/panic/" \o Diag(r.e)}
                      ELSE {"C05/" \o B \o "/" \o x \o "/" \o Diag(r.e) : x \in ExprReasons(B, r.e, o[B].r)}
                      : B \in Backends }
      exact == \A B \in Backends : ~Supported(B, r.e) \/ IsPanic(o[B]) \/ o[B].r = "SELECT " \o RenderExpr(B, MP, r.e)
  IN [id |-> r.id, keys |-> keys \cup (IF MethodsOk(r.e) THEN {} ELSE {"?method_annotation_contradicts_expr_methods_json"}), exact |-> exact, nt |-> OpCount(r.e) >= 2,
      ref |-> IF Supported("sqlite", r.e) THEN RefText(Canon("sqlite", r.e)) ELSE "",
      sql |-> IF Supported("sqlite", r.e) /\ ~IsPanic(o["sqlite"]) THEN o["sqlite"].r ELSE "",
      pref |-> IF Supported("sqlite", r.e) /\ ~IsPanic(o["sqlite"]) /\ ParsedOf("sqlite", o["sqlite"].r).ok
               THEN RefText(ParsedOf("sqlite", o["sqlite"].r).tr) ELSE ""]

Step == /\ l <= Len(Rec)
        /\ PrintT(<<"R", ToJson(Verdict(Rec[l]))>>)
        /\ l' = l + 1
Spec == Init /\ [][Step]_l
AllConsumed == TLCGet("stats").diameter = Len(Rec) + 1
=============================================================================
