-------------------------------- MODULE Derive --------------------------------
(***************************************************************************)
(* The derive macros of sea-query-derive (Iden, IdenStatic, enum_def) as a *)
(* function from a type definition to the names its values spell (C19).    *)
(*                                                                         *)
(*  property level   SnakeAbs / PascalAbs: the documented word boundaries, *)
(*                   stated position by position; NameOf: the attribute    *)
(*                   table; Ident!Prepare: the general identifier quoting  *)
(*  implementation   SnakeImpl / PascalImpl: transcription of heck 0.4.1   *)
(*  level            `transform` (the scanner the macro calls);            *)
(*                   MustBeValidIden / AllValid / FastPrepare: the fast    *)
(*                   path the macro generates                              *)
(***************************************************************************)
EXTENDS Ident, FiniteSets

IsAlnum(c) == c \in Upper \cup Lower \cup Digits
LowerOf(c) ==
  CASE c = "A" -> "a" [] c = "B" -> "b" [] c = "C" -> "c" [] c = "D" -> "d" [] c = "E" -> "e"
    [] c = "F" -> "f" [] c = "G" -> "g" [] c = "H" -> "h" [] c = "I" -> "i" [] c = "J" -> "j"
    [] c = "K" -> "k" [] c = "L" -> "l" [] c = "M" -> "m" [] c = "N" -> "n" [] c = "O" -> "o"
    [] c = "P" -> "p" [] c = "Q" -> "q" [] c = "R" -> "r" [] c = "S" -> "s" [] c = "T" -> "t"
    [] c = "U" -> "u" [] c = "V" -> "v" [] c = "W" -> "w" [] c = "X" -> "x" [] c = "Y" -> "y"
    [] c = "Z" -> "z" [] OTHER -> c
RECURSIVE LowerStrFrom(_, _)
LowerStrFrom(s, i) == IF i > Len(s) THEN "" ELSE LowerOf(Ch(s, i)) \o LowerStrFrom(s, i + 1)
LowerStr(s) == LowerStrFrom(s, 1)
Capitalize(s) == IF s = "" THEN "" ELSE UpperOf(Ch(s, 1)) \o LowerStr(From(s, 2))

(***************************************************************************)
(* Property level: where a new word starts.  Position i starts a word iff  *)
(* it is alphanumeric and                                                  *)
(*   - it is the first character or follows a non-alphanumeric one, or     *)
(*   - it is upper case and the last letter before it (digits are          *)
(*     transparent) is lower case                  fooBar  -> foo|Bar      *)
(*   - it is upper case, the last letter before it is upper case and the   *)
(*     next character is lower case                HTTPServer -> HTTP|Server*)
(***************************************************************************)
\* case of the last letter in the alphanumeric run ending at i ("none" if only digits)
RECURSIVE LastCase(_, _)
LastCase(s, i) ==
  IF i < 1 \/ ~IsAlnum(Ch(s, i)) THEN "none"
  ELSE IF Ch(s, i) \in Upper THEN "upper"
  ELSE IF Ch(s, i) \in Lower THEN "lower"
  ELSE LastCase(s, i - 1)

StartsWord(s, i) ==
  /\ IsAlnum(Ch(s, i))
  /\ \/ i = 1
     \/ ~IsAlnum(Ch(s, i - 1))
     \/ Ch(s, i) \in Upper /\ LastCase(s, i - 1) = "lower"
     \/ Ch(s, i) \in Upper /\ LastCase(s, i - 1) = "upper" /\ i < Len(s) /\ Ch(s, i + 1) \in Lower

\* the words of s, in order
RECURSIVE WordsFrom(_, _, _)
WordsFrom(s, i, cur) ==
  IF i > Len(s) THEN (IF cur = "" THEN <<>> ELSE <<cur>>)
  ELSE IF ~IsAlnum(Ch(s, i)) THEN (IF cur = "" THEN <<>> ELSE <<cur>>) \o WordsFrom(s, i + 1, "")
  ELSE IF StartsWord(s, i) /\ cur # "" THEN <<cur>> \o WordsFrom(s, i + 1, Ch(s, i))
  ELSE WordsFrom(s, i + 1, cur \o Ch(s, i))
WordsOf(s) == WordsFrom(s, 1, "")

RECURSIVE JoinWith(_, _, _)
JoinWith(ws, sep, i) == IF i > Len(ws) THEN "" ELSE (IF i > 1 THEN sep ELSE "") \o ws[i] \o JoinWith(ws, sep, i + 1)
SnakeAbs(s)  == JoinWith([i \in DOMAIN WordsOf(s) |-> LowerStr(WordsOf(s)[i])], "_", 1)
PascalAbs(s) == JoinWith([i \in DOMAIN WordsOf(s) |-> Capitalize(WordsOf(s)[i])], "", 1)

(***************************************************************************)
(* Implementation level: heck 0.4.1 `transform` (src/lib.rs), built        *)
(* without the unicode feature: split on non-ASCII-alphanumerics, then one *)
(* pass over each piece with (init, mode); emits words in order.           *)
(***************************************************************************)
\* one piece `w` from index i; init = start of the pending word
RECURSIVE HeckPiece(_, _, _, _)
HeckPiece(w, i, init, mode) ==
  IF i > Len(w) THEN <<>>
  ELSE LET c == Ch(w, i) IN
    IF i = Len(w) THEN <<SubSeq(w, init, Len(w))>>            \* trailing characters
    ELSE LET nx == Ch(w, i + 1)
             nextMode == IF c \in Lower THEN "L" ELSE IF c \in Upper THEN "U" ELSE mode
         IN IF nx = "_" \/ (nextMode = "L" /\ nx \in Upper)
            THEN <<SubSeq(w, init, i)>> \o HeckPiece(w, i + 1, i + 1, "B")
            ELSE IF mode = "U" /\ c \in Upper /\ nx \in Lower
            THEN <<SubSeq(w, init, i - 1)>> \o HeckPiece(w, i + 1, i, "B")
            ELSE HeckPiece(w, i + 1, init, nextMode)

RECURSIVE HeckSplit(_, _, _)
HeckSplit(s, i, cur) ==
  IF i > Len(s) THEN <<cur>>
  ELSE IF ~IsAlnum(Ch(s, i)) THEN <<cur>> \o HeckSplit(s, i + 1, "")
  ELSE HeckSplit(s, i + 1, cur \o Ch(s, i))
RECURSIVE FlatPieces(_, _)
FlatPieces(ps, i) == IF i > Len(ps) THEN <<>> ELSE HeckPiece(ps[i], 1, 1, "B") \o FlatPieces(ps, i + 1)
HeckWords(s) == FlatPieces(HeckSplit(s, 1, ""), 1)
SnakeImpl(s)  == JoinWith([i \in DOMAIN HeckWords(s) |-> LowerStr(HeckWords(s)[i])], "_", 1)
PascalImpl(s) == JoinWith([i \in DOMAIN HeckWords(s) |-> Capitalize(HeckWords(s)[i])], "", 1)

(***************************************************************************)
(* The generated fast path (lib.rs: must_be_valid_iden, impl_iden_for_..)   *)
(***************************************************************************)
MustBeValidIden(n) ==
  /\ (n = "" \/ Ch(n, 1) = "_" \/ Ch(n, 1) \in Letters)
  /\ \A i \in 1..Len(n) : Ch(n, i) = "_" \/ IsAlnum(Ch(n, i))
FastPrepare(n, ql, qr) == ql \o n \o qr
Quotes == {<<"backtick", "`", "`">>, <<"dquote", "\"", "\"">>, <<"bracket", "[", "]">>}
\* the lemma the fast path rests on
FastPathSound(n) == MustBeValidIden(n) => \A q \in Quotes : FastPrepare(n, q[2], q[3]) = Prepare(n, q[2], q[3])

(***************************************************************************)
(* Type definitions.                                                       *)
(*  def.kind = "enum":    name, derive, crename [k,s], vs: <<[n, shape,    *)
(*                        attr [k,s]]>>                                    *)
(*  def.kind = "unit":    name, derive, crename                            *)
(*  def.kind = "enumdef": name, fields <<..>>, prefix/suffix/tname [k,s]   *)
(* attr.k: none | eq (#[iden = s]) | rename (#[iden(rename = s)]) |        *)
(*         meq (#[method = s]) | mlist (#[iden(method = s)]) | flatten     *)
(***************************************************************************)
MethodRet == [m1 |-> "plain_m", m2 |-> "me\"th`od", m3 |-> "br]ack"]
InnerName == [ia_table |-> "inner_a", ia_foo |-> "foo_bar", iq_q |-> "q\"u`o", iq_r |-> "plain"]
OptS(o, d) == IF o.k = "none" THEN d ELSE o.s

TableNameWith(Snake(_), def) == OptS(def.crename, Snake(def.name))
VariantNameWith(Snake(_), def, v) ==
  CASE v.attr.k \in {"eq", "rename"} -> v.attr.s
    [] v.attr.k \in {"meq", "mlist"} -> MethodRet[v.attr.s]
    [] v.attr.k = "flatten" -> InnerName[v.attr.s]
    [] OTHER -> IF v.n = "Table" THEN TableNameWith(Snake, def) ELSE Snake(v.n)

\* names spelled by the values of a type, in declaration order (enum_def: Table first)
NamesWith(Snake(_), def) ==
  CASE def.kind = "enum" -> [i \in DOMAIN def.vs |-> VariantNameWith(Snake, def, def.vs[i])]
    [] def.kind = "unit" -> <<TableNameWith(Snake, def)>>
    [] def.kind = "enumdef" -> <<OptS(def.tname, Snake(def.name))>> \o def.fields
Names(def)     == NamesWith(SnakeAbs, def)
NamesImpl(def) == NamesWith(SnakeImpl, def)

\* does the macro generate the fast prepare() for this type?
VariantValid(def, v) ==
  CASE v.attr.k \in {"eq", "rename"} -> MustBeValidIden(v.attr.s)
    [] v.attr.k \in {"meq", "mlist", "flatten"} -> FALSE
    [] OTHER -> MustBeValidIden(VariantNameWith(SnakeImpl, def, v))
AllValid(def) ==
  CASE def.kind = "enum" -> \A i \in DOMAIN def.vs : VariantValid(def, def.vs[i])
    [] def.kind = "unit" -> MustBeValidIden(TableNameWith(SnakeImpl, def))
    [] OTHER -> FALSE
PrepareImpl(def, n, ql, qr) == IF AllValid(def) THEN FastPrepare(n, ql, qr) ELSE Prepare(n, ql, qr)

\* what enum_def generates: the enum's identifier and its variants
EnumDefIdent(def) == OptS(def.prefix, "") \o def.name \o OptS(def.suffix, "Iden")
EnumDefVariants(def) == <<"Table">> \o [i \in DOMAIN def.fields |-> PascalAbs(def.fields[i])]
=============================================================================
