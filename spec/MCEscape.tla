------------------------------ MODULE MCEscape ------------------------------
(* Design check for C03 / C17 on the implementation-level model: one       *)
(* initial state per (string over the escape alphabet, backend).           *)
EXTENDS LitLaw, Escape, FiniteSets

CONSTANTS MaxLen, AlphaFile, CheckDecode
Alpha == JsonDeserialize(AlphaFile)          \* sequence of one-character strings
K == Len(Alpha)
Backends == {"mysql", "pg", "sqlite"}

VARIABLES w
S == StrOf(Alpha, w)
Init == w \in Words(K, MaxLen)
Next == UNCHANGED w
Spec == Init /\ [][Next]_w

\* C17 on the model
RoundTrip == \A B \in Backends : UnescapeB(B, EscapeB(B, S)) = S
\* C03 on the model
DecodesBack ==
  CheckDecode => \A B \in Backends : InDomStr(B, S) => StrLitReasons(B, WriteStringQuoted(B, S), S) = {}
Emit == PrintT(<<"CASE", ToJson(w)>>)
=============================================================================
