-------------------------------- MODULE Take --------------------------------
(***************************************************************************)
(* take / clone / clear as value operations (C15) on SelectStatement: two  *)
(* statement registers so that later mutations of either can be            *)
(* interleaved.  m1, m2 are Stmt.tla builder states; h1, h2 the call       *)
(* histories that would rebuild them from a new statement.                 *)
(***************************************************************************)
EXTENDS Stmt

ClearOps == {"clear_selects", "from_clear", "reset_limit", "reset_offset", "clear_order_by"}
\* which calls feed the clause a clear operation empties
FeedsCleared(clearOp, op) ==
  CASE clearOp = "clear_selects" -> op \in {"column", "expr", "expr_as", "expr_window", "expr_window_name"}
    [] clearOp = "from_clear" -> op \in {"from", "from_as", "from_subquery", "from_values"}
    [] clearOp = "reset_limit" -> op = "limit"
    [] clearOp = "reset_offset" -> op = "offset"
    [] clearOp = "clear_order_by" -> op = "order_by"
Without(h, clearOp) == SelectSeq(h, LAMBDA c : ~FeedsCleared(clearOp, c.op))

\* one step on registers [m1, m2, h1, h2]; c.reg = 2 addresses the second register
StepRegs(R, c) ==
  CASE c.op = "take" -> [m1 |-> NewSelect, m2 |-> R.m1, h1 |-> <<>>, h2 |-> R.h1]
    [] c.op = "clone" -> [R EXCEPT !.m2 = R.m1, !.h2 = R.h1]
    [] c.op \in ClearOps ->
         IF "reg" \in DOMAIN c /\ c.reg = 2
         THEN [R EXCEPT !.m2 = ApplySelect(@, c), !.h2 = Without(@, c.op)]
         ELSE [R EXCEPT !.m1 = ApplySelect(@, c), !.h1 = Without(@, c.op)]
    [] OTHER ->
         IF "reg" \in DOMAIN c /\ c.reg = 2
         THEN [R EXCEPT !.m2 = ApplySelect(@, c), !.h2 = Append(@, c)]
         ELSE [R EXCEPT !.m1 = ApplySelect(@, c), !.h1 = Append(@, c)]
InitRegs == [m1 |-> NewSelect, m2 |-> NewSelect, h1 |-> <<>>, h2 |-> <<>>]
RECURSIVE RegsAfter(_, _)
RegsAfter(calls, n) == IF n = 0 THEN InitRegs ELSE StepRegs(RegsAfter(calls, n - 1), calls[n])
=============================================================================
