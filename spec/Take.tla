-------------------------------- MODULE Take --------------------------------
(***************************************************************************)
(* take / clone / clear as value operations (C15) on the builders that     *)
(* offer them: SelectStatement (take, clone, five clear / reset            *)
(* operations), UpdateStatement and DeleteStatement (clone, clear_order_by)*)
(* and WindowStatement (take, clone, clear_order_by).  Two registers of    *)
(* the same kind K so that later mutations of either can be interleaved.   *)
(* m1, m2 are Stmt.tla builder states; h1, h2 the call histories that      *)
(* would rebuild them from a new statement.                                *)
(***************************************************************************)
EXTENDS Stmt

ClearOps == {"clear_selects", "from_clear", "reset_limit", "reset_offset", "clear_order_by"}
ClearOpsOf(K) == IF K = "select" THEN ClearOps ELSE {"clear_order_by"}
HasTake(K) == K \in {"select", "window"}
\* which calls feed the clause a clear operation empties
FeedsCleared(clearOp, op) ==
  CASE clearOp = "clear_selects" -> op \in {"column", "expr", "expr_as", "expr_window", "expr_window_name"}
    [] clearOp = "from_clear" -> op \in {"from", "from_as", "from_subquery", "from_values"}
    [] clearOp = "reset_limit" -> op = "limit"
    [] clearOp = "reset_offset" -> op = "offset"
    [] clearOp = "clear_order_by" -> op = "order_by"
Without(h, clearOp) == SelectSeq(h, LAMBDA c : ~FeedsCleared(clearOp, c.op))

\* one step on registers [m1, m2, h1, h2]; c.reg = 2 addresses the second register
StepRegsK(K, R, c) ==
  CASE c.op = "take" -> [m1 |-> NewOf(K), m2 |-> R.m1, h1 |-> <<>>, h2 |-> R.h1]
    [] c.op = "clone" -> [R EXCEPT !.m2 = R.m1, !.h2 = R.h1]
    [] c.op \in ClearOps ->
         IF "reg" \in DOMAIN c /\ c.reg = 2
         THEN [R EXCEPT !.m2 = ApplyCall(@, c), !.h2 = Without(@, c.op)]
         ELSE [R EXCEPT !.m1 = ApplyCall(@, c), !.h1 = Without(@, c.op)]
    [] OTHER ->
         IF "reg" \in DOMAIN c /\ c.reg = 2
         THEN [R EXCEPT !.m2 = ApplyCall(@, c), !.h2 = Append(@, c)]
         ELSE [R EXCEPT !.m1 = ApplyCall(@, c), !.h1 = Append(@, c)]
InitRegsK(K) == [m1 |-> NewOf(K), m2 |-> NewOf(K), h1 |-> <<>>, h2 |-> <<>>]
RECURSIVE RegsAfterK(_, _, _)
RegsAfterK(K, calls, n) == IF n = 0 THEN InitRegsK(K) ELSE StepRegsK(K, RegsAfterK(K, calls, n - 1), calls[n])
=============================================================================
