----------------------------- MODULE RefRender -----------------------------
(***************************************************************************)
(* Independently written, fully explicit rendering of a Canon tree for     *)
(* SQLite: every operator application is parenthesised, literals use       *)
(* SQLite's own rules.  Used to compare, on the real engine, what the      *)
(* crate rendered with what was meant.                                     *)
(***************************************************************************)
EXTENDS ExprLaw

RECURSIVE DblQ(_, _, _)
DblQ(s, i, q) == IF i > Len(s) THEN "" ELSE (IF Ch(s, i) = q THEN q \o q ELSE Ch(s, i)) \o DblQ(s, i + 1, q)
LitStr(s) == "'" \o DblQ(s, 1, "'") \o "'"
QId(s) == "\"" \o DblQ(s, 1, "\"") \o "\""
RECURSIVE JoinS(_, _)
JoinS(ss, sep) == IF Len(ss) = 0 THEN "" ELSE IF Len(ss) = 1 THEN ss[1] ELSE ss[1] \o sep \o JoinS(Tail(ss), sep)

RECURSIVE RefText(_)
RefText(t) ==
  CASE t.k = "col" -> JoinS([i \in 1..(Len(t.q) + 1) |-> IF i <= Len(t.q) THEN QId(t.q[i]) ELSE QId(t.n)], ".")
    [] t.k = "star" -> JoinS([i \in 1..(Len(t.q) + 1) |-> IF i <= Len(t.q) THEN QId(t.q[i]) ELSE "*"], ".")
    [] t.k = "num" -> t.t
    [] t.k = "str" -> LitStr(t.v)
    [] t.k = "blob" -> "x'" \o t.v \o "'"
    [] t.k = "kw" -> t.w
    [] t.k = "word" -> t.t
    [] t.k = "un" -> IF t.op \in {"ISNULL", "NOTNULL", "NOT NULL"} THEN "((" \o RefText(t.e) \o ") " \o t.op \o ")"
                     ELSE "(" \o t.op \o " (" \o RefText(t.e) \o "))"
    [] t.k = "bin" -> "((" \o RefText(t.l) \o ") " \o t.op \o " (" \o RefText(t.r) \o "))"
    [] t.k = "between" -> "((" \o RefText(t.e) \o ") " \o (IF t.neg THEN "NOT " ELSE "") \o "BETWEEN (" \o RefText(t.a) \o ") AND (" \o RefText(t.b) \o "))"
    [] t.k = "like" -> "((" \o RefText(t.e) \o ") " \o t.op \o " (" \o RefText(t.p) \o ")"
                       \o (IF t.esc = None THEN "" ELSE " ESCAPE (" \o RefText(t.esc) \o ")") \o ")"
    [] t.k = "in" -> "((" \o RefText(t.e) \o ") " \o (IF t.neg THEN "NOT " ELSE "") \o "IN (" \o
                     (IF t.set.k = "tuple" THEN JoinS([i \in DOMAIN t.set.es |-> RefText(t.set.es[i])], ", ") ELSE "SELECT 1") \o "))"
    [] t.k = "tuple" -> "(" \o JoinS([i \in DOMAIN t.es |-> RefText(t.es[i])], ", ") \o ")"
    [] t.k = "fn" -> t.name \o "(" \o JoinS([i \in DOMAIN t.args |-> (IF t.args[i].d THEN "DISTINCT " ELSE "") \o RefText(t.args[i].e)], ", ") \o ")"
    [] t.k = "cast" -> "CAST((" \o RefText(t.e) \o ") AS " \o JoinS(t.ty, " ") \o ")"
    [] t.k = "case" -> "(CASE" \o ConcatAll([i \in DOMAIN t.whens |-> " WHEN (" \o RefText(t.whens[i].c) \o ") THEN (" \o RefText(t.whens[i].r) \o ")"])
                       \o (IF t.else = None THEN "" ELSE " ELSE (" \o RefText(t.else) \o ")") \o " END)"
    [] OTHER -> "NULL"
=============================================================================
