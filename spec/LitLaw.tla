------------------------------- MODULE LitLaw -------------------------------
(***************************************************************************)
(* Property-level relations for C03 (literal decodes to the supplied       *)
(* value) and C17 (unescape o escape = id), phrased over the engine lexer. *)
(***************************************************************************)
EXTENDS EngineLex

\* Dom_C03: NUL has no representation in PostgreSQL and SQLite text
InDomStr(B, s) == B = "mysql" \/ ~HasChar(s, NUL)

\* Reasons why `text` is not a single string literal of engine B denoting s
StrLitReasons(B, text, s) ==
  LET toks == Lex(B, text) IN
  IF Len(toks) # 1 THEN {"not_single_token"}
  ELSE LET t == toks[1] IN
    IF t.k # "str" THEN {"not_a_string_literal:" \o t.k \o ":" \o t.f}
    ELSE IF t.f = "numeric_escape_unknown" THEN {"?undecidable"}
    ELSE IF t.v # s THEN {"decodes_differently"}
    ELSE {}

\* Reasons why `text` is not a single byte-string literal denoting hex
BytesLitReasons(B, text, hex) ==
  LET toks == Lex(B, text) IN
  IF Len(toks) # 1 THEN {"not_single_token"}
  ELSE LET t == toks[1] IN
    IF B = "pg" THEN
      IF t.k # "str" THEN {"not_a_string_literal:" \o t.k}
      ELSE IF Ch(t.t, 1) # "'" THEN {"bytea_hex_in_escape_string"}
      ELSE IF PgByteaHex(t.v) # hex THEN {"decodes_differently"} ELSE {}
    ELSE IF t.k # "blob" THEN {"not_a_blob_literal:" \o t.k \o ":" \o t.f}
    ELSE IF t.v # hex THEN {"decodes_differently"} ELSE {}
=============================================================================
