------------------------------ MODULE LitTrace ------------------------------
(***************************************************************************)
(* Trace validation for C03 (and the escape exactness of C17's model):     *)
(* recorded output of value_to_string and of statements with the value in  *)
(* every inlining position, validated with the engine lexers.              *)
(***************************************************************************)
EXTENDS LitLaw, Escape, IOUtils, TLCExt

Rec == ndJsonDeserialize(IOEnv.TRACE)
RefPos == JsonDeserialize(IOEnv.REFFILE).pos     \* positions rendered with "REFSTR"
Backends == {"mysql", "pg", "sqlite"}
VARIABLE l
Init == l = 1

Pfx(p, S) == {p \o x : x \in S}
IsPanic(o) == "panic" \in DOMAIN o

\* statement-level: nothing but the one literal token may depend on s
PosReasons(B, sql, ref, s) ==
  LET T == Lex(B, sql)
      R == Lex(B, ref)
      IsSlot(i) == R[i].k = "str" /\ R[i].v = "REFSTR"
  IN IF ~\E i \in DOMAIN R : IsSlot(i) THEN {}
     ELSE IF Len(T) # Len(R) THEN {"token_count_changes"}
     ELSE IF \E i \in DOMAIN R : T[i].k # R[i].k THEN {"token_kind_changes"}
     ELSE IF \E i \in DOMAIN R : IsSlot(i) /\ T[i].f = "numeric_escape_unknown" THEN {"?undecidable"}
     ELSE IF \E i \in DOMAIN R : IsSlot(i) /\ T[i].v # s THEN {"decodes_differently"}
     ELSE IF \E i \in DOMAIN R : ~IsSlot(i) /\ T[i].t # R[i].t THEN {"other_token_changes"}
     ELSE {}

StrKeys(r) ==
  UNION { IF ~InDomStr(B, r.s) THEN {}
          ELSE
            (IF IsPanic(r.v2s[B]) THEN {"C03/v2s/" \o B \o "/panic"}
             ELSE Pfx("C03/v2s/" \o B \o "/", StrLitReasons(B, r.v2s[B].r, r.s)))
            \cup
            (IF "chr" \notin DOMAIN r THEN {}
             ELSE IF IsPanic(r.chr[B]) THEN {"C03/char/" \o B \o "/panic"}
             ELSE Pfx("C03/char/" \o B \o "/", StrLitReasons(B, r.chr[B].r, r.s)))
            \cup
            (IF "json" \notin DOMAIN r THEN {}
             ELSE IF IsPanic(r.json[B]) THEN {"C03/json/" \o B \o "/panic"}
             ELSE Pfx("C03/json/" \o B \o "/", StrLitReasons(B, r.json[B].r, r.json_text)))
            \cup
            (IF "pos" \notin DOMAIN r THEN {}
             ELSE UNION { IF B \notin DOMAIN r.pos[p] THEN {}
                          ELSE IF IsPanic(r.pos[p][B]) THEN {"C03/" \o p \o "/" \o B \o "/panic"}
                          ELSE Pfx("C03/" \o p \o "/" \o B \o "/", PosReasons(B, r.pos[p][B].r, RefPos[p][B].r, r.s))
                          : p \in DOMAIN r.pos })
        : B \in Backends }

BytesKeys(r) ==
  UNION { (IF IsPanic(r.v2s[B]) THEN {"C03/bytes/" \o B \o "/panic"}
           ELSE Pfx("C03/bytes/" \o B \o "/", BytesLitReasons(B, r.v2s[B].r, r.hex)))
          \cup
          (IF IsPanic(r.sel[B]) THEN {"C03/bytes_select/" \o B \o "/panic"}
           ELSE LET T == Lex(B, r.sel[B].r) IN
                IF Len(T) = 2 /\ IsKw(T[1], "SELECT")
                THEN Pfx("C03/bytes_select/" \o B \o "/", BytesLitReasons(B, T[2].t, r.hex))
                ELSE {"C03/bytes_select/" \o B \o "/token_count_changes"})
        : B \in Backends }

\* exactness against the implementation-level model (informational)
Exact(r) ==
  IF r.kind = "str"
  THEN \A B \in Backends : IsPanic(r.v2s[B]) \/ r.v2s[B].r = WriteStringQuoted(B, r.s)
  ELSE \A B \in Backends : IsPanic(r.v2s[B]) \/ r.v2s[B].r = WriteBytes(B, r.hex)

NeedsEscape(s) == \E i \in 1..Len(s) : Ch(s, i) \in {"'", "\"", BSL, NUL, BS, "\t", "\n", "\r", SUB}

Verdict(r) ==
  LET keys == IF r.kind = "str" THEN StrKeys(r) ELSE BytesKeys(r) IN
  [id |-> r.id, keys |-> {k \in keys : ~\E i \in 1..Len(k) : Ch(k, i) = "?"},
   undecided |-> {k \in keys : \E i \in 1..Len(k) : Ch(k, i) = "?"} # {},
   exact |-> Exact(r),
   nt |-> IF r.kind = "str" THEN NeedsEscape(r.s) ELSE TRUE]

Step == /\ l <= Len(Rec)
        /\ PrintT(<<"R", ToJson(Verdict(Rec[l]))>>)
        /\ l' = l + 1
Spec == Init /\ [][Step]_l
AllConsumed == TLCGet("stats").diameter = Len(Rec) + 1
=============================================================================
