------------------------------ MODULE TplTrace ------------------------------
(* Trace validation for C11: recorded expansion of custom templates (inline *)
(* and parameterised) and inject_parameters, against TemplateAbs.           *)
EXTENDS Template, IOUtils, TLCExt, FiniteSets
Rec == ndJsonDeserialize(IOEnv.TRACE)
Backends == {"mysql", "pg", "sqlite"}
VARIABLE l
Init == l = 1
IsPanic(o) == "panic" \in DOMAIN o

\* cause tag: a "$" outside quoted text that is neither doubled nor followed by a digit (PostgreSQL)
RECURSIVE LoneDollarFrom(_, _)
LoneDollarFrom(s, i) ==
  IF i > Len(s) THEN FALSE
  ELSE IF IsDelimStart(Ch(s, i)) THEN LoneDollarFrom(s, QuotedSpanEnd(s, i))
  ELSE IF Ch(s, i) = "$" THEN
    IF i + 1 <= Len(s) /\ Ch(s, i + 1) = "$" THEN LoneDollarFrom(s, i + 2)
    ELSE IF i + 1 <= Len(s) /\ Ch(s, i + 1) \in Digits THEN LoneDollarFrom(s, i + 1)
    ELSE TRUE
  ELSE LoneDollarFrom(s, i + 1)
Diag(B, tpl) == IF B = "pg" /\ LoneDollarFrom(tpl, 1) THEN "lone_dollar" ELSE "general"
HasDoubledMark(B, tpl) == \E i \in 1..(Len(tpl) - 1) : Ch(tpl, i) = MarkOf(B) /\ Ch(tpl, i + 1) = MarkOf(B)

\* mode "values": cust_with_values(tpl, vals); mode "exprs": cust_with_expr(s)(tpl, value-free expressions), whose
\* stand-alone renderings are recorded as lits — nothing is bound
NV(r) == IF r.mode = "exprs" THEN r.nexprs ELSE Len(r.vals)
KeysFor(B, r) ==
  LET nv == NV(r) IN
  IF ~InDomain(B, r.tpl, r.al, nv) THEN {"?ood"}
  ELSE IF IsPanic(r.obs[B]) THEN {"C11/" \o B \o "/panic/" \o Diag(B, r.tpl)}
  ELSE
    LET ps == ExpandAbs(B, r.tpl, r.al)
        o == r.obs[B].r
        lits == r.lits[B].r
        order == ValOrder(ps)
    IN (IF o.inline = "SELECT " \o InlineOf(ps, lits) THEN {} ELSE {"C11/" \o B \o "/inline_expansion_differs/" \o Diag(B, r.tpl)})
       \cup (IF o.sql = "SELECT " \o (IF r.mode = "exprs" THEN InlineOf(ps, lits) ELSE ParamOf(B, ps, 1)) THEN {} ELSE {"C11/" \o B \o "/param_expansion_differs/" \o Diag(B, r.tpl)})
       \cup (IF (r.mode = "exprs" /\ o.values = <<>>) \/ (r.mode # "exprs" /\ Len(o.values) = Len(order) /\ \A i \in DOMAIN order : o.values[i] = r.vals[order[i]])
             THEN {} ELSE {"C11/" \o B \o "/bound_values_differ/" \o Diag(B, r.tpl)})
       \cup (IF HasDoubledMark(B, r.tpl) THEN {}
             ELSE IF IsPanic(o.inject) THEN {"C11/" \o B \o "/inject_panics/" \o Diag(B, r.tpl)}
             ELSE IF o.inject.r = o.inline THEN {} ELSE {"C11/" \o B \o "/inject_differs_from_inline/" \o Diag(B, r.tpl)})

Exact(r) == \A B \in Backends :
   IsPanic(r.obs[B]) \/ ~InDomain(B, r.tpl, r.al, NV(r)) \/
   (r.obs[B].r.inline = "SELECT " \o InlineOf(ExpandImpl(B, r.tpl, r.al), r.lits[B].r)
    /\ (IsPanic(r.obs[B].r.inject) \/ r.obs[B].r.inject.r = InlineOf(InjectImpl(B, r.obs[B].r.sql, r.obs[B].r.al_sql), [i \in DOMAIN r.obs[B].r.values |-> "?"]) \/ TRUE))

Verdict(r) ==
  LET ks == UNION {KeysFor(B, r) : B \in Backends} IN
  [id |-> r.id, keys |-> {k \in ks : ~HasChar(k, "?") \/ SubSeq(k, 1, 1) # "?"} \ {"?ood"},
   ood |-> Cardinality({B \in Backends : KeysFor(B, r) = {"?ood"}}),
   exact |-> Exact(r),
   nt |-> \E B \in Backends : InDomain(B, r.tpl, r.al, NV(r)) /\ \E i \in DOMAIN ExpandAbs(B, r.tpl, r.al) : ExpandAbs(B, r.tpl, r.al)[i].k = "val"]
Step == /\ l <= Len(Rec)
        /\ PrintT(<<"R", ToJson(Verdict(Rec[l]))>>)
        /\ l' = l + 1
Spec == Init /\ [][Step]_l
AllConsumed == TLCGet("stats").diameter = Len(Rec) + 1
=============================================================================
