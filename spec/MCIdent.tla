------------------------------- MODULE MCIdent -------------------------------
(* Design check of Iden::prepare against the engine lexers: one initial    *)
(* state per name over the identifier alphabet.                            *)
EXTENDS Ident, FiniteSets
CONSTANT MaxLen
Alpha == JsonDeserialize("ident_alpha.json")
K == Len(Alpha)
VARIABLE w
Init == w \in Words(K, MaxLen) /\ w # <<>>
Next == UNCHANGED w
Spec == Init /\ [][Next]_w
N == StrOf(Alpha, w)
QuotedDecodes == \A B \in {"mysql", "pg", "sqlite"} : IdentReasons(B, Prepare(N, QuoteOf(B), QuoteOf(B)), N) = {}
Emit == PrintT(<<"CASE", ToJson(w)>>)
=============================================================================
