-------------------------------- MODULE Stmt --------------------------------
(***************************************************************************)
(* Query statement builders (src/query/select.rs, insert.rs, update.rs,    *)
(* delete.rs, with.rs, window.rs, on_conflict.rs) as state machines — the  *)
(* state is the statement's fields, one action per public call — and the   *)
(* implementation-level model of prepare_*_statement                        *)
(* (src/backend/query_builder.rs with the MySQL / PostgreSQL / SQLite      *)
(* overrides), i.e. the order in which clauses are written.                *)
(*                                                                         *)
(* A case statement is [kind, calls]; calls use the same records the       *)
(* harness interprets (harness/src/stmt.rs).                               *)
(***************************************************************************)
EXTENDS Cond, Insert

NoneV == [k |-> "none"]
Has(r, f) == f \in DOMAIN r
Get(r, f, d) == IF f \in DOMAIN r THEN r[f] ELSE d
IsNone(x) == x.k = "none"
Some(x) == [k |-> "some", v |-> x]

(*****************************  builder state  *****************************)
NewSelect == [kind |-> "select", distinct |-> NoneV, selects |-> <<>>, from |-> <<>>, joins |-> <<>>,
              where |-> EmptyHolder, groups |-> <<>>, having |-> EmptyHolder, unions |-> <<>>, orders |-> <<>>,
              limit |-> NoneV, offset |-> NoneV, lock |-> NoneV, window |-> NoneV, with |-> NoneV, hints |-> <<>>, sample |-> NoneV]
NewInsert == [kind |-> "insert", replace |-> FALSE, table |-> NoneV, ins |-> InitStmt, on_conflict |-> NoneV,
              returning |-> NoneV, with |-> NoneV]
NewUpdate == [kind |-> "update", table |-> NoneV, talias |-> "", from |-> <<>>, values |-> <<>>, where |-> EmptyHolder,
              orders |-> <<>>, limit |-> NoneV, returning |-> NoneV, with |-> NoneV]
NewDelete == [kind |-> "delete", table |-> NoneV, where |-> EmptyHolder, orders |-> <<>>, limit |-> NoneV,
              returning |-> NoneV, with |-> NoneV]

RECURSIVE BuildStmt(_), ApplyAll(_, _, _), ApplySelect(_, _), ApplyInsert(_, _), ApplyUpdate(_, _), ApplyDelete(_, _),
          BuildWith(_), BuildTableRef(_)

OrderRec(c) == [e |-> c.e, o |-> c.o, nulls |-> Get(c, "nulls", "none")]
BuildTableRef(c) == c

\* CommonTableExpression::from_select: the name is cte_<first FROM table>, the column list the names of the
\* select items (alias, or column name, qualified ones joined with "_") when every item has one
FromSelect(c) == Has(c, "from_select") /\ c.from_select
CteNameOf(q) == IF Len(q.from) > 0 /\ q.from[1].k = "table" THEN "cte_" \o q.from[1].t[Len(q.from[1].t)]
                ELSE IF Len(q.from) > 0 /\ q.from[1].k = "alias" THEN "cte_" \o q.from[1].a ELSE "?"
ItemName(x) == IF x.a # "" THEN x.a
               ELSE IF x.e.k = "col" /\ x.e.n # "*" THEN JoinStrs(Get(x.e, "q", <<>>) \o <<x.e.n>>, "_") ELSE ""
CteColsOf(q) == IF \E i \in DOMAIN q.selects : ItemName(q.selects[i]) = "" THEN <<>> ELSE [i \in DOMAIN q.selects |-> ItemName(q.selects[i])]
BuildWith(w) ==
  [k |-> "with", recursive |-> Get(w, "recursive", FALSE),
   search |-> IF Has(w, "search") THEN Some(w.search) ELSE NoneV,      \* [order, e, set]
   cycle |-> IF Has(w, "cycle") THEN Some(w.cycle) ELSE NoneV,         \* [e, set, using]
   ctes |-> [i \in DOMAIN w.ctes |-> [name |-> IF FromSelect(w.ctes[i]) THEN CteNameOf(BuildStmt(w.ctes[i].q)) ELSE w.ctes[i].name,
                                      cols |-> IF FromSelect(w.ctes[i]) THEN CteColsOf(BuildStmt(w.ctes[i].q)) ELSE Get(w.ctes[i], "cols", <<>>),
                                      mat |-> IF Has(w.ctes[i], "mat") THEN (IF w.ctes[i].mat THEN "yes" ELSE "no") ELSE "none", q |-> BuildStmt(w.ctes[i].q)]]]

ApplySelect(s, c) ==
  CASE c.op = "column" -> [s EXCEPT !.selects = Append(@, [e |-> [k |-> "col", n |-> c.n, q |-> Get(c, "q", <<>>)], a |-> "", w |-> NoneV])]
    [] c.op = "expr" -> [s EXCEPT !.selects = Append(@, [e |-> c.e, a |-> "", w |-> NoneV])]
    [] c.op = "expr_as" -> [s EXCEPT !.selects = Append(@, [e |-> c.e, a |-> c.a, w |-> NoneV])]
    [] c.op = "expr_window" -> [s EXCEPT !.selects = Append(@, [e |-> c.e, a |-> Get(c, "a", ""), w |-> [k |-> "def", w |-> c.w]])]
    [] c.op = "expr_window_name" -> [s EXCEPT !.selects = Append(@, [e |-> c.e, a |-> Get(c, "a", ""), w |-> [k |-> "name", n |-> c.w]])]
    [] c.op = "distinct" -> [s EXCEPT !.distinct = [k |-> "distinct"]]
    [] c.op = "distinct_on" -> [s EXCEPT !.distinct = [k |-> "on", cols |-> c.cols]]
    [] c.op = "from" -> [s EXCEPT !.from = Append(@, [k |-> "table", t |-> c.t])]
    [] c.op = "from_as" -> [s EXCEPT !.from = Append(@, [k |-> "alias", t |-> c.t, a |-> c.a])]
    [] c.op = "from_subquery" -> [s EXCEPT !.from = Append(@, [k |-> "subq", q |-> BuildStmt(c.q), a |-> c.a])]
    [] c.op = "from_values" -> [s EXCEPT !.from = Append(@, [k |-> "values", rows |-> c.rows, a |-> c.a])]
    [] c.op = "join" ->
         [s EXCEPT !.joins = Append(@, [jt |-> c.jt, lateral |-> FALSE, on |-> Apply(EmptyHolder, c.on),
             t |-> IF Has(c, "a") THEN [k |-> "alias", t |-> c.t, a |-> c.a] ELSE [k |-> "table", t |-> c.t]])]
    [] c.op \in {"join_subquery", "join_lateral"} ->
         [s EXCEPT !.joins = Append(@, [jt |-> c.jt, lateral |-> c.op = "join_lateral", on |-> Apply(EmptyHolder, c.on),
             t |-> [k |-> "subq", q |-> BuildStmt(c.q), a |-> c.a]])]
    [] c.op = "and_where" -> [s EXCEPT !.where = Apply(@, c.e)]
    [] c.op = "cond_where" -> [s EXCEPT !.where = Apply(@, c.c)]
    [] c.op = "and_having" -> [s EXCEPT !.having = Apply(@, c.e)]
    [] c.op = "cond_having" -> [s EXCEPT !.having = Apply(@, c.c)]
    [] c.op = "group_by" -> [s EXCEPT !.groups = Append(@, c.e)]
    [] c.op = "group_by_col" -> [s EXCEPT !.groups = Append(@, [k |-> "col", n |-> c.n, q |-> Get(c, "q", <<>>)])]
    [] c.op = "order_by" -> [s EXCEPT !.orders = Append(@, OrderRec(c))]
    [] c.op = "limit" -> [s EXCEPT !.limit = [k |-> "n", n |-> c.n]]
    [] c.op = "offset" -> [s EXCEPT !.offset = [k |-> "n", n |-> c.n]]
    [] c.op = "reset_limit" -> [s EXCEPT !.limit = NoneV]
    [] c.op = "reset_offset" -> [s EXCEPT !.offset = NoneV]
    [] c.op = "clear_order_by" -> [s EXCEPT !.orders = <<>>]
    [] c.op = "clear_selects" -> [s EXCEPT !.selects = <<>>]
    [] c.op = "from_clear" -> [s EXCEPT !.from = <<>>]
    [] c.op = "lock" -> [s EXCEPT !.lock = [k |-> "lock", type |-> c.type, tables |-> Get(c, "tables", <<>>), behavior |-> Get(c, "behavior", "none")]]
    [] c.op = "union" -> [s EXCEPT !.unions = Append(@, [type |-> c.type, q |-> BuildStmt(c.q)])]
    [] c.op = "with_cte" -> [s EXCEPT !.with = BuildWith(c.w)]
    [] c.op = "table_sample" -> [s EXCEPT !.sample = [k |-> "sample", method |-> c.method, pct |-> c.pct, rep |-> IF Has(c, "rep") THEN Some(c.rep) ELSE NoneV]]
    [] c.op = "window" -> [s EXCEPT !.window = [k |-> "window", name |-> c.name, w |-> c.w]]
    [] c.op \in {"use_index", "force_index", "ignore_index"} ->
         [s EXCEPT !.hints = Append(@, [type |-> c.op, name |-> c.name, scope |-> Get(c, "scope", "All")])]

\* insert: the columns / source / default_values part is the Insert.tla state machine
ApplyInsert(s, c) ==
  CASE c.op = "into_table" -> [s EXCEPT !.table = Some(c.t)]
    [] c.op = "replace" -> [s EXCEPT !.replace = TRUE]
    [] c.op = "on_conflict" -> [s EXCEPT !.on_conflict = Some(c.oc)]
    [] c.op = "returning" -> [s EXCEPT !.returning = Some(c.r)]
    [] c.op = "with_cte" -> [s EXCEPT !.with = BuildWith(c.w)]
    [] c.op = "select_from" ->
         LET q == BuildStmt(c.q)
             r == DoSelectFrom(s.ins, [width |-> Len(q.selects)])
         IN [s EXCEPT !.ins = IF r.res.ok THEN [r.st EXCEPT !.source = [k |-> "select", width |-> Len(q.selects), q |-> q]] ELSE s.ins]
    [] OTHER -> [s EXCEPT !.ins = Call(@, c).st]

ApplyUpdate(s, c) ==
  CASE c.op = "table" -> [s EXCEPT !.table = Some(c.t), !.talias = ""]
    [] c.op = "table_as" -> [s EXCEPT !.table = Some(c.t), !.talias = c.a]          \* UPDATE t AS a
    [] c.op = "from" -> [s EXCEPT !.from = Append(@, [k |-> "table", t |-> c.t])]
    [] c.op = "value" -> [s EXCEPT !.values = Append(@, [c |-> c.col, e |-> c.e])]
    [] c.op = "and_where" -> [s EXCEPT !.where = Apply(@, c.e)]
    [] c.op = "cond_where" -> [s EXCEPT !.where = Apply(@, c.c)]
    [] c.op = "order_by" -> [s EXCEPT !.orders = Append(@, OrderRec(c))]
    [] c.op = "clear_order_by" -> [s EXCEPT !.orders = <<>>]
    [] c.op = "limit" -> [s EXCEPT !.limit = [k |-> "n", n |-> c.n]]
    [] c.op = "returning" -> [s EXCEPT !.returning = Some(c.r)]
    [] c.op = "with_cte" -> [s EXCEPT !.with = BuildWith(c.w)]

ApplyDelete(s, c) ==
  CASE c.op = "from_table" -> [s EXCEPT !.table = Some(c.t)]
    [] c.op = "and_where" -> [s EXCEPT !.where = Apply(@, c.e)]
    [] c.op = "cond_where" -> [s EXCEPT !.where = Apply(@, c.c)]
    [] c.op = "order_by" -> [s EXCEPT !.orders = Append(@, OrderRec(c))]
    [] c.op = "clear_order_by" -> [s EXCEPT !.orders = <<>>]
    [] c.op = "limit" -> [s EXCEPT !.limit = [k |-> "n", n |-> c.n]]
    [] c.op = "returning" -> [s EXCEPT !.returning = Some(c.r)]
    [] c.op = "with_cte" -> [s EXCEPT !.with = BuildWith(c.w)]

\* WindowStatement as a builder of its own (window.rs): partitions, orders, frame
NewWindowDef == [kind |-> "window", partition |-> <<>>, order |-> <<>>, frame |-> NoneV]
ApplyWindowDef(s, c) ==
  CASE c.op = "partition_by" -> [s EXCEPT !.partition = Append(@, c.e)]
    [] c.op = "order_by" -> [s EXCEPT !.order = Append(@, OrderRec(c))]
    [] c.op = "frame" -> [s EXCEPT !.frame = c.f]
    [] c.op = "clear_order_by" -> [s EXCEPT !.order = <<>>]

ApplyCall(s, c) ==
  CASE s.kind = "select" -> ApplySelect(s, c) [] s.kind = "insert" -> ApplyInsert(s, c)
    [] s.kind = "update" -> ApplyUpdate(s, c) [] s.kind = "delete" -> ApplyDelete(s, c)
    [] s.kind = "window" -> ApplyWindowDef(s, c)
ApplyAll(s, calls, i) == IF i > Len(calls) THEN s ELSE ApplyAll(ApplyCall(s, calls[i]), calls, i + 1)
NewOf(kind) == CASE kind = "select" -> NewSelect [] kind = "insert" -> NewInsert [] kind = "update" -> NewUpdate [] kind = "delete" -> NewDelete [] kind = "window" -> NewWindowDef
BuildStmt(j) ==
  IF j.kind = "with" THEN [kind |-> "withq", w |-> BuildWith(j.w), q |-> BuildStmt(j.q)]
  ELSE ApplyAll(NewOf(j.kind), j.calls, 1)

(**************************  rendering (impl level)  ***********************)
Q(B, n) == Prepare(n, QuoteOf(B), QuoteOf(B))
\* subqueries inside expressions are rendered first (field txt); MapSubq is
\* declared here and defined after RSelect
RECURSIVE MapSubq(_, _, _)
RExpr(B, O, e) == RenderI(B, O, Internal(MapSubq(B, O, e)))
RValue(B, O, v) == RenderI(B, O, [k |-> "Value", v |-> v])
RNum(B, O, n) == RValue(B, O, [t |-> "BigUnsigned", v |-> NatToStr(n)])
TableName(B, t) == JoinStrs([i \in DOMAIN t |-> Q(B, t[i])], ".")     \* t = sequence of 1..3 names
Sep(ss) == JoinStrs(ss, ", ")
Opt1(cond, s) == IF cond THEN s ELSE ""

RECURSIVE RStmt(_, _, _), RSelect(_, _, _), RTableRef(_, _, _), RWith(_, _, _), RWindow(_, _, _), ROrder(_, _, _)

RHolder(B, O, kw, h) == IF h.k = "empty" THEN "" ELSE " " \o kw \o " " \o RenderI(B, O, CondToExpr(MapSubq(B, O, h)))

ROrderTail(B, O, o) ==
  IF o.o.d # "Field" THEN (IF o.o.d = "Asc" THEN " ASC" ELSE " DESC")
  ELSE "CASE " \o ConcatAll([i \in DOMAIN o.o.field |->
          "WHEN " \o RExpr(B, O, o.e) \o "=" \o ValueToString(B, o.o.field[i]) \o " THEN " \o NatToStr(i - 1) \o " "])
       \o "ELSE " \o NatToStr(Len(o.o.field)) \o " END"
ROrder(B, O, o) ==
  LET isField == o.o.d = "Field"
      base == (IF isField THEN "" ELSE RExpr(B, O, o.e)) \o ROrderTail(B, O, o)
  IN IF B = "mysql" THEN
       (CASE o.nulls = "Last" -> RExpr(B, O, o.e) \o " IS NULL ASC, "
          [] o.nulls = "First" -> RExpr(B, O, o.e) \o " IS NULL DESC, "
          [] OTHER -> "") \o base
     ELSE base \o (CASE o.nulls = "Last" -> " NULLS LAST" [] o.nulls = "First" -> " NULLS FIRST" [] OTHER -> "")

RFrame(B, O, f) ==       \* f = [b: bound kind, n: offset]
  CASE f.b = "UnboundedPreceding" -> "UNBOUNDED PRECEDING"
    [] f.b = "CurrentRow" -> "CURRENT ROW"
    [] f.b = "UnboundedFollowing" -> "UNBOUNDED FOLLOWING"
    [] f.b = "Preceding" -> RValue(B, O, [t |-> "Unsigned", v |-> NatToStr(f.n)]) \o " PRECEDING"
    [] f.b = "Following" -> RValue(B, O, [t |-> "Unsigned", v |-> NatToStr(f.n)]) \o " FOLLOWING"

RWindow(B, O, w) ==
  LET ps == Get(w, "partition", <<>>)
      os == Get(w, "order", <<>>)
      fr == Get(w, "frame", NoneV)
  IN Opt1(Len(ps) > 0, "PARTITION BY " \o Sep([i \in DOMAIN ps |-> RExpr(B, O, ps[i])]))
     \o Opt1(Len(os) > 0, " ORDER BY " \o Sep([i \in DOMAIN os |-> ROrder(B, O, OrderRec(os[i]))]))
     \o (IF fr = NoneV THEN ""
         ELSE (IF fr.type = "Range" THEN " RANGE " ELSE " ROWS ")
              \o (IF Has(fr, "end")
                  THEN "BETWEEN " \o RFrame(B, O, fr.start) \o " AND " \o RFrame(B, O, fr.end)
                  ELSE RFrame(B, O, fr.start)))

RValuesList(B, O, rows) ==
  "VALUES " \o Sep([i \in DOMAIN rows |-> (IF B = "mysql" THEN "ROW" ELSE "") \o "(" \o Sep([j \in DOMAIN rows[i] |-> RValue(B, O, rows[i][j])]) \o ")"])

RTableRef(B, O, t) ==
  CASE t.k = "table" -> TableName(B, t.t)
    [] t.k = "alias" -> TableName(B, t.t) \o " AS " \o Q(B, t.a)
    [] t.k = "subq" -> "(" \o RSelect(B, O, t.q) \o ")" \o " AS " \o Q(B, t.a)
    [] t.k = "values" -> "(" \o RValuesList(B, O, t.rows) \o ")" \o " AS " \o Q(B, t.a)

JoinText(jt) == CASE jt = "Join" -> "JOIN" [] jt = "Cross" -> "CROSS JOIN" [] jt = "Inner" -> "INNER JOIN"
                  [] jt = "Left" -> "LEFT JOIN" [] jt = "Right" -> "RIGHT JOIN" [] OTHER -> "FULL OUTER JOIN"
UnionText(B, ty) ==
  LET w == CASE ty = "Intersect" -> "INTERSECT" [] ty = "Distinct" -> "UNION" [] ty = "Except" -> "EXCEPT" [] OTHER -> "UNION ALL"
  IN " " \o w \o (IF B = "sqlite" THEN " " ELSE " (")

RWith(B, O, w) ==
  "WITH " \o Opt1(w.recursive, "RECURSIVE ") \o
  Sep([i \in DOMAIN w.ctes |->
     Q(B, w.ctes[i].name) \o
     (IF Len(w.ctes[i].cols) = 0 THEN " " ELSE " (" \o Sep([j \in DOMAIN w.ctes[i].cols |-> Q(B, w.ctes[i].cols[j])]) \o ") ")
     \o "AS " \o
     (IF B = "mysql" \/ w.ctes[i].mat = "none" THEN "" ELSE (IF w.ctes[i].mat = "yes" THEN "" ELSE "NOT") \o " MATERIALIZED ")
     \o "(" \o RStmt(B, O, w.ctes[i].q) \o ") "])
  \* prepare_with_clause_recursive_options: PostgreSQL only (MySQL / SQLite override it to nothing)
  \o (IF B = "pg" /\ w.recursive
      THEN (IF IsNone(w.search) THEN "" ELSE "SEARCH " \o w.search.v.order \o " FIRST BY " \o RExpr(B, O, w.search.v.e) \o " SET " \o Q(B, w.search.v.set) \o " ")
           \o (IF IsNone(w.cycle) THEN "" ELSE "CYCLE " \o RExpr(B, O, w.cycle.v.e) \o " SET " \o Q(B, w.cycle.v.set) \o " USING " \o Q(B, w.cycle.v.using) \o " ")
      ELSE "")

RLock(B, O, lk) ==
  IF B = "sqlite" THEN ""
  ELSE "FOR " \o (CASE lk.type = "Update" -> "UPDATE" [] lk.type = "NoKeyUpdate" -> "NO KEY UPDATE" [] lk.type = "Share" -> "SHARE" [] OTHER -> "KEY SHARE")
       \o Opt1(Len(lk.tables) > 0, " OF " \o Sep([i \in DOMAIN lk.tables |-> TableName(B, lk.tables[i])]))
       \o (CASE lk.behavior = "Nowait" -> " NOWAIT" [] lk.behavior = "SkipLocked" -> " SKIP LOCKED" [] OTHER -> "")

RHints(B, O, hs) ==
  IF B # "mysql" \/ Len(hs) = 0 THEN ""
  ELSE " " \o JoinStrs([i \in DOMAIN hs |->
         (CASE hs[i].type = "use_index" -> "USE INDEX " [] hs[i].type = "ignore_index" -> "IGNORE INDEX " [] OTHER -> "FORCE INDEX ")
         \o (CASE hs[i].scope = "Join" -> "FOR JOIN " [] hs[i].scope = "OrderBy" -> "FOR ORDER BY " [] hs[i].scope = "GroupBy" -> "FOR GROUP BY " [] OTHER -> "")
         \o "(" \o Q(B, hs[i].name) \o ")"], " ")

\* PostgreSQL TABLESAMPLE (extension::postgres::PostgresSelectStatementExt::table_sample), written after the FROM list
RSample(B, sm) ==
  IF B # "pg" \/ IsNone(sm) THEN ""
  ELSE " TABLESAMPLE " \o sm.method \o " (" \o NatToStr(sm.pct) \o ")" \o (IF IsNone(sm.rep) THEN "" ELSE " REPEATABLE (" \o NatToStr(sm.rep.v) \o ")")

RSelectExpr(B, O, x) ==
  RExpr(B, O, x.e)
  \o (IF IsNone(x.w) THEN ""
      ELSE IF x.w.k = "name" THEN " OVER " \o Q(B, x.w.n)
      ELSE " OVER ( " \o RWindow(B, O, x.w.w) \o " )")
  \o Opt1(x.a # "", " AS " \o Q(B, x.a))

RSelect(B, O, s) ==
  (IF IsNone(s.with) THEN "" ELSE RWith(B, O, s.with))
  \o "SELECT "
  \o (IF IsNone(s.distinct) THEN ""
      ELSE IF s.distinct.k = "distinct" THEN "DISTINCT "
      ELSE IF B = "pg" THEN "DISTINCT ON (" \o Sep([i \in DOMAIN s.distinct.cols |-> Q(B, s.distinct.cols[i])]) \o ") "
      ELSE " ")
  \o Sep([i \in DOMAIN s.selects |-> RSelectExpr(B, O, s.selects[i])])
  \o Opt1(Len(s.from) > 0, " FROM " \o Sep([i \in DOMAIN s.from |-> RTableRef(B, O, s.from[i])]) \o RHints(B, O, s.hints) \o RSample(B, s.sample))
  \o ConcatAll([i \in DOMAIN s.joins |->
       " " \o JoinText(s.joins[i].jt) \o " " \o Opt1(s.joins[i].lateral, "LATERAL ") \o RTableRef(B, O, s.joins[i].t)
       \o RHolder(B, O, "ON", s.joins[i].on)])
  \o RHolder(B, O, "WHERE", s.where)
  \o Opt1(Len(s.groups) > 0, " GROUP BY " \o Sep([i \in DOMAIN s.groups |-> RExpr(B, O, s.groups[i])]))
  \o RHolder(B, O, "HAVING", s.having)
  \o ConcatAll([i \in DOMAIN s.unions |-> UnionText(B, s.unions[i].type) \o RSelect(B, O, s.unions[i].q) \o (IF B = "sqlite" THEN "" ELSE ")")])
  \o Opt1(Len(s.orders) > 0, " ORDER BY " \o Sep([i \in DOMAIN s.orders |-> ROrder(B, O, s.orders[i])]))
  \o (IF IsNone(s.limit) THEN "" ELSE " LIMIT " \o RNum(B, O, s.limit.n))
  \o (IF IsNone(s.offset) THEN "" ELSE " OFFSET " \o RNum(B, O, s.offset.n))
  \o (IF IsNone(s.lock) THEN "" ELSE " " \o RLock(B, O, s.lock))
  \o (IF IsNone(s.window) THEN "" ELSE " WINDOW " \o Q(B, s.window.name) \o " AS " \o RWindow(B, O, s.window.w))

MapSubq(B, O, e) ==
  LET M(x) == MapSubq(B, O, x)
      MS(xs) == [i \in DOMAIN xs |-> MapSubq(B, O, xs[i])]
  IN CASE e.k = "subq" -> [e EXCEPT !.q = NoneV] @@ [txt |-> RSelect(B, O, BuildStmt(e.q))]
       [] e.k = "insub" -> [e EXCEPT !.e = M(@), !.q = NoneV] @@ [txt |-> RSelect(B, O, BuildStmt(e.q))]
       [] e.k = "bin" -> [e EXCEPT !.l = M(@), !.r = M(@)]
       [] e.k \in {"not", "isnull", "cast", "like", "asenum"} -> [e EXCEPT !.e = M(@)]
       [] e.k = "between" -> [e EXCEPT !.e = M(@), !.a = M(@), !.b = M(@)]
       [] e.k = "in" -> [e EXCEPT !.e = M(@), !.vs = MS(@)]
       [] e.k = "fn" -> [e EXCEPT !.args = MS(@)]
       [] e.k = "tuple" -> [e EXCEPT !.es = MS(@)]
       [] e.k = "custv" -> [e EXCEPT !.vs = MS(@)]
       [] e.k = "case" -> IF "else" \in DOMAIN e
                          THEN [e EXCEPT !.whens = [i \in DOMAIN @ |-> [c |-> M(@[i].c), r |-> M(@[i].r)]], !.else = M(@)]
                          ELSE [e EXCEPT !.whens = [i \in DOMAIN @ |-> [c |-> M(@[i].c), r |-> M(@[i].r)]]]
       [] e.k = "cond" -> [e EXCEPT !.ms = [i \in DOMAIN @ |-> IF @[i].k = "null" THEN @[i] ELSE M(@[i])]]
       [] OTHER -> e

RReturning(B, O, r) ==
  IF IsNone(r) \/ B = "mysql" THEN ""
  ELSE " RETURNING " \o
    (IF Has(r.v, "all") THEN "*"
     ELSE IF Has(r.v, "cols") THEN Sep([i \in DOMAIN r.v.cols |-> Q(B, r.v.cols[i])])
     ELSE Sep([i \in DOMAIN r.v.exprs |-> RExpr(B, O, r.v.exprs[i])]))

ROnConflict(B, O, ocw) ==
  IF IsNone(ocw) THEN ""
  ELSE LET oc == ocw.v
           cols == Get(oc, "cols", <<>>)
           exprs == Get(oc, "exprs", <<>>)
           HolderAt(f) == IF Has(oc, f) THEN Apply(EmptyHolder, oc[f]) ELSE EmptyHolder
           hasAct == Has(oc, "action")
           actStr == hasAct /\ Has(oc.action, "nothing")
           actRec == hasAct /\ ~Has(oc.action, "nothing")
           targets == [i \in 1..(Len(cols) + Len(exprs)) |-> IF i <= Len(cols) THEN Q(B, cols[i]) ELSE RExpr(B, O, exprs[i - Len(cols)])]
           updCols == IF actRec THEN Get(oc.action, "update_cols", <<>>) ELSE <<>>
           updVals == IF actRec THEN Get(oc.action, "values", <<>>) ELSE <<>>
           nothingOn == IF actRec THEN Get(oc.action, "nothing_on", <<>>) ELSE <<>>
           isNothing == actStr \/ (actRec /\ Has(oc.action, "nothing_on") /\ Len(updCols) = 0 /\ Len(updVals) = 0)
           setList == Sep([i \in 1..(Len(updCols) + Len(updVals)) |->
                        IF i <= Len(updCols)
                        THEN Q(B, updCols[i]) \o " = " \o (IF B = "mysql" THEN "VALUES(" \o Q(B, updCols[i]) \o ")" ELSE Q(B, "excluded") \o "." \o Q(B, updCols[i]))
                        ELSE Q(B, updVals[i - Len(updCols)][1]) \o " = " \o RExpr(B, O, updVals[i - Len(updCols)][2])])
       IN IF B = "mysql" THEN
            " ON DUPLICATE KEY" \o
            (IF ~hasAct THEN ""
             ELSE IF isNothing THEN
               (IF Len(nothingOn) > 0 THEN " UPDATE " \o Sep([i \in DOMAIN nothingOn |-> Q(B, nothingOn[i]) \o " = " \o Q(B, nothingOn[i])]) ELSE " IGNORE")
             ELSE " UPDATE " \o setList)
          ELSE
            " ON CONFLICT " \o Opt1(Len(targets) > 0, "(" \o Sep(targets) \o ")")
            \o RHolder(B, O, "WHERE", HolderAt("target_where"))
            \o (IF ~hasAct THEN "" ELSE IF isNothing THEN " DO NOTHING" ELSE " DO UPDATE SET " \o setList)
            \o RHolder(B, O, "WHERE", HolderAt("action_where"))

RInsert(B, O, s) ==
  LET st == s.ins IN
  (IF IsNone(s.with) THEN "" ELSE RWith(B, O, s.with))
  \o (IF s.replace THEN "REPLACE" ELSE "INSERT")
  \o (IF IsNone(s.table) THEN "" ELSE " INTO " \o TableName(B, s.table.v))
  \o (IF st.dv > 0 /\ Len(st.cols) = 0 /\ st.source.k = "none" THEN
        " " \o (IF B = "sqlite" THEN "DEFAULT VALUES"
                ELSE "VALUES " \o JoinStrs([i \in 1..st.dv |-> IF B = "mysql" THEN "()" ELSE "(DEFAULT)"], ", "))
      ELSE " (" \o Sep([i \in DOMAIN st.cols |-> Q(B, st.cols[i])]) \o ")" \o
        (CASE st.source.k = "none" -> ""
           [] st.source.k = "values" ->
                " VALUES " \o Sep([i \in DOMAIN st.source.rows |-> "(" \o Sep([j \in DOMAIN st.source.rows[i] |-> RExpr(B, O, st.source.rows[i][j])]) \o ")"])
           [] st.source.k = "select" -> " " \o RSelect(B, O, st.source.q)))
  \o ROnConflict(B, O, s.on_conflict)
  \o RReturning(B, O, s.returning)

ROrders(B, O, os) == Opt1(Len(os) > 0, " ORDER BY " \o Sep([i \in DOMAIN os |-> ROrder(B, O, os[i])]))
RLimit(B, O, l) == IF IsNone(l) THEN "" ELSE " LIMIT " \o RNum(B, O, l.n)

RUpdate(B, O, s) ==
  LET myJoin == B = "mysql" /\ Len(s.from) > 0 IN
  (IF IsNone(s.with) THEN "" ELSE RWith(B, O, s.with))
  \o "UPDATE " \o (IF IsNone(s.table) THEN "" ELSE TableName(B, s.table.v) \o (IF s.talias # "" THEN " AS " \o Q(B, s.talias) ELSE ""))
  \o Opt1(myJoin, IF myJoin THEN " JOIN " \o RTableRef(B, O, s.from[1]) \o RHolder(B, O, "ON", s.where) ELSE "")
  \o " SET "
  \o Sep([i \in DOMAIN s.values |->
        (IF myJoin /\ ~IsNone(s.table) /\ Len(s.table.v) = 1 /\ s.talias = "" THEN Q(B, s.table.v[1]) \o "." ELSE "") \o Q(B, s.values[i].c)
        \o " = " \o RExpr(B, O, s.values[i].e)])
  \o Opt1(B # "mysql" /\ Len(s.from) > 0, " FROM " \o Sep([i \in DOMAIN s.from |-> RTableRef(B, O, s.from[i])]))
  \o Opt1(~myJoin, RHolder(B, O, "WHERE", s.where))
  \o (IF B = "sqlite" THEN RReturning(B, O, s.returning) ELSE "")         \* returning_precedes_order_by
  \o ROrders(B, O, s.orders) \o RLimit(B, O, s.limit)
  \o (IF B = "sqlite" THEN "" ELSE RReturning(B, O, s.returning))

RDelete(B, O, s) ==
  (IF IsNone(s.with) THEN "" ELSE RWith(B, O, s.with))
  \o "DELETE " \o (IF IsNone(s.table) THEN "" ELSE "FROM " \o TableName(B, s.table.v))
  \o RHolder(B, O, "WHERE", s.where)
  \o (IF B = "sqlite" THEN RReturning(B, O, s.returning) ELSE "")
  \o ROrders(B, O, s.orders) \o RLimit(B, O, s.limit)
  \o (IF B = "sqlite" THEN "" ELSE RReturning(B, O, s.returning))

RStmt(B, O, s) ==
  CASE s.kind = "select" -> RSelect(B, O, s) [] s.kind = "insert" -> RInsert(B, O, s)
    [] s.kind = "update" -> RUpdate(B, O, s) [] s.kind = "delete" -> RDelete(B, O, s)
    [] s.kind = "withq" -> RWith(B, O, s.w) \o RStmt(B, O, s.q)
    \* a window definition is observed inside SELECT SUM("a") OVER ( .. ) FROM "t1"
    [] s.kind = "window" ->
         RSelect(B, O, ApplyAll(NewSelect, <<[op |-> "expr_window", e |-> [k |-> "fn", f |-> "Sum", args |-> <<[k |-> "col", n |-> "a"]>>],
                                              w |-> [partition |-> s.partition, order |-> s.order, frame |-> s.frame]],
                                             [op |-> "from", t |-> <<"t1">>]>>, 1))

(************  Writer: String vs SqlWriterValues (src/prepare.rs)  *********)
\* ToParams(B, text): the text rendered in parameter mode carries each bound
\* value as POpen literal PClose; SqlWriterValues::push_param replaces it by
\* the mark (numbered for PostgreSQL) and collects the value.
RECURSIVE ToParamsFrom(_, _, _, _)
ToParamsFrom(B, s, i, n) ==
  IF i > Len(s) THEN [sql |-> "", vals |-> <<>>]
  ELSE IF Ch(s, i) = POpen THEN
    LET RECURSIVE Close(_)
        Close(j) == IF Ch(s, j) = PClose THEN j ELSE Close(j + 1)
        e == Close(i + 1)
        rest == ToParamsFrom(B, s, e + 1, n + 1)
    IN [sql |-> (IF B = "pg" THEN "$" \o NatToStr(n + 1) ELSE "?") \o rest.sql, vals |-> <<SubSeq(s, i + 1, e - 1)>> \o rest.vals]
  ELSE LET RECURSIVE Plain(_)
           Plain(j) == IF j > Len(s) \/ Ch(s, j) = POpen THEN j ELSE Plain(j + 1)
           e == Plain(i)
           rest == ToParamsFrom(B, s, e, n)
       IN [sql |-> SubSeq(s, i, e - 1) \o rest.sql, vals |-> rest.vals]
ToParams(B, s) == ToParamsFrom(B, s, 1, 0)

RenderInline(B, j) == RStmt(B, NoOpt, BuildStmt(j))
RenderParams(B, j) == ToParams(B, RStmt(B, Opt(FALSE, TRUE), BuildStmt(j)))
=============================================================================
