------------------------------- MODULE ValueEq -------------------------------
(***************************************************************************)
(* mod hashable_value (src/value.rs): equality and hashing of Value as the *)
(* hand-written match defines them, over a pool of abstract values named   *)
(* "Variant:payload".  Payload classes: OrderedFloat makes +0 = -0 and all *)
(* NaNs equal; JSON compares its serialisation (object keys sorted);       *)
(* decimals compare numerically; arrays element-wise with the same rules.  *)
(***************************************************************************)
EXTENDS Naturals, Sequences, TLC, FiniteSets

\* names whose payload is equal to another name's payload: <<name, representative>>
Merges == <<
  <<"Int:1b", "Int:1">>, <<"String:a2", "String:a">>,
  <<"Float:-0", "Float:+0">>, <<"Float:nan_b", "Float:nan_a">>, <<"Float:nan_neg", "Float:nan_a">>,
  <<"Double:-0", "Double:+0">>, <<"Double:nan_b", "Double:nan_a">>,
  <<"Json:ba", "Json:ab">>, <<"Decimal:1.00", "Decimal:1.0">>, <<"BigDecimal:1.00", "BigDecimal:1.0">>,
  <<"Vector:a2", "Vector:a">>, <<"Array:int_12b", "Array:int_12">>, <<"Array:f_nan2", "Array:f_nan">>, <<"Array:nested_b", "Array:nested">>,
  <<"ChronoDateTimeWithTimeZone:z2", "ChronoDateTimeWithTimeZone:z0">>, <<"TimeDateTimeWithTimeZone:z2", "TimeDateTimeWithTimeZone:z0">> >>
Class(n) == IF \E i \in DOMAIN Merges : Merges[i][1] = n
            THEN Merges[CHOOSE i \in DOMAIN Merges : Merges[i][1] = n][2] ELSE n
RECURSIVE UpTo(_, _, _)
UpTo(s, c, i) == IF i > Len(s) \/ SubSeq(s, i, i) = c THEN SubSeq(s, 1, i - 1) ELSE UpTo(s, c, i + 1)
\* the variant is the part of the name before ":" (arrays: element type is part of the payload name)
VariantOfName(n) == UpTo(n, ":", 1)

Eq(a, b) == Class(a) = Class(b)
\* payloads that denote the same mathematical value in different spellings: the property does not say
\* whether they are equal (the crate compares JSON by its serialisation, so they are not); either answer is
\* accepted as long as equality stays an equivalence and agrees with hashing
\* (likewise one instant written with two UTC offsets: chrono and time compare instants, so they are equal)
SoftGroups == { {"Json:f+0", "Json:f-0", "Json:i0"}, {"Json:arr+0", "Json:arr-0"}, {"Json:1", "Json:1.0"},
                {"ChronoDateTimeWithTimeZone:z0", "ChronoDateTimeWithTimeZone:z2"}, {"TimeDateTimeWithTimeZone:z0", "TimeDateTimeWithTimeZone:z2"} }
Soft(a, b) == \E g \in SoftGroups : a \in g /\ b \in g
HashKey(a) == <<VariantOfName(a), Class(a)>>
=============================================================================
