------------------------------ MODULE Portable ------------------------------
(***************************************************************************)
(* C09: statements built from the feature subset common to the three       *)
(* dialects denote the same query.  Portable(s) is that subset;            *)
(* Translit(B, sql) rewrites nothing but lexical spelling (identifier      *)
(* quotes, literal syntax, placeholder style, set-operation parentheses,   *)
(* ROW(..), the documented function-name substitutions) into SQLite's      *)
(* spelling, token by token.  The transliterated MySQL / PostgreSQL texts  *)
(* must be token-equal to the SQLite rendering (MySQL NULLS emulation      *)
(* excepted, which is compared by execution) and, executed on the real     *)
(* SQLite, return the same rows and leave the same tables.                 *)
(***************************************************************************)
EXTENDS GrammarLaw, RefRender

\* SEARCH / CYCLE options of a recursive WITH are PostgreSQL's
NoRecOpts(w) == IsNone(w) \/ (IsNone(w.search) /\ IsNone(w.cycle))
RECURSIVE Portable(_)
PortableTable(t) == t.k \in {"table", "alias"} \/ (t.k = "subq" /\ Portable(t.q)) \/ t.k = "values"
Portable(s) ==
  /\ \A B \in {"mysql", "pg", "sqlite"} : ~Unsupported(B, s)
  /\ CASE s.kind = "select" ->
            /\ IsNone(s.lock) /\ Len(s.hints) = 0 /\ IsNone(s.window) /\ IsNone(s.sample)
            /\ (IsNone(s.distinct) \/ s.distinct.k = "distinct")
            /\ \A i \in DOMAIN s.from : PortableTable(s.from[i])
            /\ \A i \in DOMAIN s.joins : PortableTable(s.joins[i].t) /\ ~s.joins[i].lateral
            /\ \A i \in DOMAIN s.unions : Portable(s.unions[i].q)
            /\ NoRecOpts(s.with)
            /\ (IsNone(s.with) \/ \A i \in DOMAIN s.with.ctes : s.with.ctes[i].mat = "none" /\ Portable(s.with.ctes[i].q))
            /\ \A i \in DOMAIN s.selects : IsNone(s.selects[i].w) \/ s.selects[i].w.k = "def"
       [] s.kind = "insert" ->
            /\ IsNone(s.on_conflict) /\ IsNone(s.returning) /\ IsNone(s.with) /\ ~s.replace
            /\ ~(s.ins.dv > 0 /\ Len(s.ins.cols) = 0 /\ s.ins.source.k = "none")
            /\ (s.ins.source.k = "select" => Portable(s.ins.source.q))
       [] s.kind = "update" -> NoRecOpts(s.with) /\ IsNone(s.returning) /\ Len(s.from) = 0 /\ Len(s.orders) = 0 /\ IsNone(s.limit) /\ (IsNone(s.with) \/ \A i \in DOMAIN s.with.ctes : Portable(s.with.ctes[i].q))
       [] s.kind = "delete" -> NoRecOpts(s.with) /\ IsNone(s.returning) /\ Len(s.orders) = 0 /\ IsNone(s.limit) /\ (IsNone(s.with) \/ \A i \in DOMAIN s.with.ctes : Portable(s.with.ctes[i].q))
       [] s.kind = "withq" -> NoRecOpts(s.w) /\ IsNone(s.q.with) /\ Portable(s.q) /\ \A i \in DOMAIN s.w.ctes : Portable(s.w.ctes[i].q)
RECURSIVE HasNullsOrder(_)
HasNullsOrder(s) ==
  CASE s.kind = "select" -> (\E i \in DOMAIN s.orders : s.orders[i].nulls # "none")
                            \/ (\E i \in DOMAIN s.selects : ~IsNone(s.selects[i].w) /\ s.selects[i].w.k = "def" /\ \E j \in DOMAIN Get(s.selects[i].w.w, "order", <<>>) : "nulls" \in DOMAIN s.selects[i].w.w.order[j])
                            \/ (\E i \in DOMAIN s.unions : HasNullsOrder(s.unions[i].q)) \/ (\E i \in DOMAIN s.from : s.from[i].k = "subq" /\ HasNullsOrder(s.from[i].q))
    [] OTHER -> FALSE

FnMap(u) == CASE u = "GREATEST" -> "MAX" [] u = "LEAST" -> "MIN" [] u = "CHAR_LENGTH" -> "LENGTH" [] u = "RAND" -> "RANDOM" [] u = "IFNULL" -> "COALESCE" [] OTHER -> u

\* indices of "(" that directly follow a set-operation keyword, and their matching ")" (MySQL / PostgreSQL parenthesise compound members)
SetParens(T) ==
  LET opens == {i \in DOMAIN T : T[i].k = "lp" /\ i > 1 /\ T[i - 1].k = "word" /\ T[i - 1].u \in SetKws /\ IsWordU(T, i + 1, "SELECT")} IN
  opens \cup {MatchParen(T, i) : i \in opens}

\* token i of the (fused, normalised) sequence T of dialect B, in SQLite spelling; "" = dropped
TokSpell(B, T, i, drop) ==
  LET t == T[i] IN
  IF i \in drop THEN ""
  ELSE CASE t.k = "qid" -> QId(t.v)
         [] t.k = "str" -> LitStr(t.v)
         [] t.k = "blob" -> "x'" \o t.v \o "'"
         [] t.k = "ph" -> IF B = "pg" THEN "?" \o t.v ELSE "?"
         [] t.k = "word" -> IF t.u = "ROW" /\ Tk(T, i + 1).k = "lp" /\ B = "mysql" THEN ""
                            ELSE IF Tk(T, i + 1).k = "lp" THEN FnMap(t.u) ELSE t.u
         [] OTHER -> t.t
Translit(B, sql) ==
  LET T == Fuse(Norm(Lex(B, sql)), 1)
      drop == IF B = "sqlite" THEN {} ELSE SetParens(T)
      ws == [i \in DOMAIN T |-> TokSpell(B, T, i, drop)]
  IN SelectSeq(ws, LAMBDA w : w # "")
TranslitText(B, sql) == JoinS(Translit(B, sql), " ")
=============================================================================
