-------------------------------- MODULE Writer --------------------------------
(***************************************************************************)
(* SqlWriterValues (src/prepare.rs): one build.  State: the SQL text       *)
(* written so far, the running parameter counter and the collected values. *)
(* Actions: Write(frag) — any fragment of SQL text — and PushParam(v) —    *)
(* the placeholder and the value in one step.  The history variable phs    *)
(* records the numbers of the placeholders emitted.                        *)
(***************************************************************************)
EXTENDS Chars
CONSTANTS Numbered, Mark, Frags, Vals, MaxLen
VARIABLES out, counter, values, phs
vars == <<out, counter, values, phs>>

Init == out = <<>> /\ counter = 0 /\ values = <<>> /\ phs = <<>>
Write(f) == out' = Append(out, f) /\ UNCHANGED <<counter, values, phs>>
PushParam(v) ==
  /\ counter' = counter + 1
  /\ out' = Append(out, IF Numbered THEN Mark \o NatToStr(counter + 1) ELSE Mark)
  /\ values' = Append(values, v)
  /\ phs' = Append(phs, counter + 1)
Next == Len(out) < MaxLen /\ ((\E f \in Frags : Write(f)) \/ (\E v \in Vals : PushParam(v)))
Spec == Init /\ [][Next]_vars

\* C01(a): the inductive invariant
WriterInv == /\ counter = Len(values)
             /\ Len(phs) = Len(values)
             /\ \A i \in DOMAIN phs : phs[i] = i
\* every placeholder fragment in out is the mark (numbered: with its own index), in order
MarksInOrder ==
  LET ms == SelectSeq(out, LAMBDA f : f \notin Frags) IN
  /\ Len(ms) = Len(values)
  /\ \A i \in DOMAIN ms : ms[i] = IF Numbered THEN Mark \o NatToStr(i) ELSE Mark
ValuesAppendOnly == [][Len(values') >= Len(values) /\ SubSeq(values', 1, Len(values)) = values]_vars

=============================================================================
