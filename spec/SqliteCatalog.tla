---------------------------- MODULE SqliteCatalog ----------------------------
(***************************************************************************)
(* C13: the schema a history of declarations creates, as SQLite's own      *)
(* catalogue reports it.  State: cat = sequence of tables; action          *)
(* Exec(decl) applies one declared schema statement (what was declared,    *)
(* not what was rendered).  Engine rules used: the five type-affinity      *)
(* rules, INTEGER PRIMARY KEY = rowid alias (no automatic index), one      *)
(* automatic index per UNIQUE / other PRIMARY KEY, PRAGMA output shapes.   *)
(***************************************************************************)
EXTENDS StmtLaw, FiniteSets

RECURSIVE HasSub(_, _, _)
HasSub(s, sub, i) == IF i + Len(sub) - 1 > Len(s) THEN FALSE ELSE IF SubSeq(s, i, i + Len(sub) - 1) = sub THEN TRUE ELSE HasSub(s, sub, i + 1)
\* SQLite's affinity of a declared type name (first match wins)
Affinity(ty) ==
  LET u == UpperStr(ty) IN
  IF HasSub(u, "INT", 1) THEN "INTEGER"
  ELSE IF HasSub(u, "CHAR", 1) \/ HasSub(u, "CLOB", 1) \/ HasSub(u, "TEXT", 1) THEN "TEXT"
  ELSE IF HasSub(u, "BLOB", 1) \/ u = "" THEN "BLOB"
  ELSE IF HasSub(u, "REAL", 1) \/ HasSub(u, "FLOA", 1) \/ HasSub(u, "DOUB", 1) THEN "REAL"
  ELSE "NUMERIC"
\* storage affinity intended for each abstract column type ("?" = no intention stated: custom)
Intended(t) ==
  CASE t.k \in {"TinyInteger", "SmallInteger", "Integer", "BigInteger", "TinyUnsigned", "SmallUnsigned", "Unsigned", "BigUnsigned"} -> "INTEGER"
    [] t.k \in {"Float", "Double", "Decimal", "Money"} -> "REAL"
    [] t.k \in {"Char", "String", "Text", "DateTime", "Timestamp", "TimestampWithTimeZone", "Time", "Date", "Json", "JsonBinary", "Uuid", "Enum"} -> "TEXT"
    [] t.k \in {"Blob", "Binary", "VarBinary"} -> "BLOB"
    [] t.k = "Boolean" -> "NUMERIC"
    [] OTHER -> "?"
SqliteHasType(t) == t.k \notin {"Interval", "Array", "Vector", "Cidr", "Inet", "MacAddr", "Year", "Bit", "VarBit", "LTree"}
                    /\ ~(t.k = "Decimal" /\ "p" \in DOMAIN t /\ t.p > 16)

HasSpec(c, k) == \E i \in DOMAIN c.specs : c.specs[i].k = k
SpecOf(c, k) == c.specs[CHOOSE i \in DOMAIN c.specs : c.specs[i].k = k]
\* declared column -> catalogue column (pk position filled in by the table)
DeclCol(c) == [name |-> c.name, ty |-> c.type, notnull |-> HasSpec(c, "NotNull"),
               dflt |-> IF HasSpec(c, "Default") THEN [k |-> "some", v |-> SpecOf(c, "Default").v] ELSE [k |-> "none"],
               unique |-> HasSpec(c, "Unique"), colpk |-> HasSpec(c, "PrimaryKey"), autoinc |-> HasSpec(c, "AutoIncrement"),
               nchecks |-> Cardinality({i \in DOMAIN c.specs : c.specs[i].k = "Check"}),
               \* generated column: PRAGMA table_xinfo reports hidden = 2 (virtual) / 3 (stored)
               hidden |-> IF HasSpec(c, "Generated") THEN (IF SpecOf(c, "Generated").stored THEN 3 ELSE 2) ELSE 0]
\* pcols: the columns the partial predicate mentions (declared next to it: "where_cols")
Idx(name, unique, origin, partial, cols, pcols) == [name |-> name, unique |-> unique, origin |-> origin, partial |-> partial, cols |-> cols, pcols |-> pcols]
PlainCols(ns) == [i \in DOMAIN ns |-> [n |-> ns[i], desc |-> FALSE]]
IdxCols(cs) == [i \in DOMAIN cs |-> [n |-> cs[i].n, desc |-> "o" \in DOMAIN cs[i] /\ cs[i].o = "Desc"]]

\* table_create declaration -> table record
DeclTable(d) ==
  LET cols == [i \in DOMAIN d.cols |-> DeclCol(d.cols[i])]
      tix == IF "indexes" \in DOMAIN d THEN d.indexes ELSE <<>>
      tpk == SelectSeq(tix, LAMBDA x : "primary" \in DOMAIN x /\ x.primary)
      pkcols == IF Len(tpk) > 0 THEN [i \in DOMAIN tpk[1].cols |-> tpk[1].cols[i].n]
                ELSE LET cp == SelectSeq(cols, LAMBDA c : c.colpk) IN [i \in DOMAIN cp |-> cp[i].name]
      uniqs == SelectSeq(tix, LAMBDA x : ~("primary" \in DOMAIN x /\ x.primary))
      IsDesc(c) == "o" \in DOMAIN c /\ c.o = "Desc"
  IN [name |-> d.table, cols |-> cols, pk |-> pkcols,
      \* declared direction of the key columns of table-level PRIMARY KEY / UNIQUE constraints (column-level ones: ascending)
      pkdesc |-> IF Len(tpk) > 0 THEN [i \in DOMAIN tpk[1].cols |-> IsDesc(tpk[1].cols[i])] ELSE [i \in DOMAIN pkcols |-> FALSE],
      udesc |-> [i \in DOMAIN SelectSeq(cols, LAMBDA c : c.unique) |-> <<FALSE>>]
                \o [i \in DOMAIN uniqs |-> [j \in DOMAIN uniqs[i].cols |-> IsDesc(uniqs[i].cols[j])]],
      \* declared uniqueness constraints (each gives an automatic index, origin "u"), in declaration order
      uniques |-> [i \in DOMAIN SelectSeq(cols, LAMBDA c : c.unique) |-> <<SelectSeq(cols, LAMBDA c : c.unique)[i].name>>]
                  \o [i \in DOMAIN uniqs |-> [j \in DOMAIN uniqs[i].cols |-> uniqs[i].cols[j].n]],
      indexes |-> <<>>,      \* explicit CREATE INDEX objects
      fks |-> IF "fks" \in DOMAIN d THEN [i \in DOMAIN d.fks |-> [table |-> d.fks[i].to_table, from |-> d.fks[i].from_cols, to |-> d.fks[i].to_cols,
                                                                  on_update |-> IF "on_update" \in DOMAIN d.fks[i] THEN d.fks[i].on_update ELSE "NoAction",
                                                                  on_delete |-> IF "on_delete" \in DOMAIN d.fks[i] THEN d.fks[i].on_delete ELSE "NoAction"]] ELSE <<>>,
      nchecks |-> (IF "checks" \in DOMAIN d THEN Len(d.checks) ELSE 0)]

TableIx(cat, n) == IF \E i \in DOMAIN cat : cat[i].name = n THEN CHOOSE i \in DOMAIN cat : cat[i].name = n ELSE 0
RemoveAt(s, i) == [j \in 1..(Len(s) - 1) |-> IF j < i THEN s[j] ELSE s[j + 1]]

\* which declarations SQLite supports (others: outside C13's domain)
Supported13(d) ==
  CASE d.stmt = "table_create" ->
         /\ \A i \in DOMAIN d.cols : "type" \in DOMAIN d.cols[i] /\ SqliteHasType(d.cols[i].type)
                                     /\ (HasSpec(d.cols[i], "AutoIncrement") => HasSpec(d.cols[i], "PrimaryKey") /\ d.cols[i].type.k \in {"Integer", "BigInteger", "Unsigned", "BigUnsigned"})
         /\ ("indexes" \in DOMAIN d => \A i \in DOMAIN d.indexes : ("primary" \in DOMAIN d.indexes[i] /\ d.indexes[i].primary) \/ ("unique" \in DOMAIN d.indexes[i] /\ d.indexes[i].unique))
         /\ ("indexes" \in DOMAIN d => \A i \in DOMAIN d.indexes : "where" \notin DOMAIN d.indexes[i])      \* no partial table constraints in SQLite
         /\ ~("temporary" \in DOMAIN d /\ d.temporary)
         /\ "engine" \notin DOMAIN d /\ "collate" \notin DOMAIN d /\ "character_set" \notin DOMAIN d        \* MySQL table options
         /\ ~((\E i \in DOMAIN d.cols : HasSpec(d.cols[i], "PrimaryKey")) /\ "indexes" \in DOMAIN d /\ \E i \in DOMAIN d.indexes : "primary" \in DOMAIN d.indexes[i] /\ d.indexes[i].primary)
         /\ Cardinality({i \in DOMAIN d.cols : HasSpec(d.cols[i], "PrimaryKey")}) <= 1
         /\ \A i \in DOMAIN d.cols : HasSpec(d.cols[i], "Generated") => ~HasSpec(d.cols[i], "PrimaryKey") /\ ~HasSpec(d.cols[i], "Default") /\ ~HasSpec(d.cols[i], "AutoIncrement")
    [] d.stmt = "table_alter" -> Len(d.ops) = 1 /\ d.ops[1].k \in {"add_column", "rename_column", "drop_column"}
                                 /\ (d.ops[1].k = "add_column" => "type" \in DOMAIN d.ops[1].col /\ SqliteHasType(d.ops[1].col.type)
                                        /\ ~HasSpec(d.ops[1].col, "PrimaryKey") /\ ~HasSpec(d.ops[1].col, "Unique")
                                        /\ (HasSpec(d.ops[1].col, "NotNull") => HasSpec(d.ops[1].col, "Default"))
                                        /\ (HasSpec(d.ops[1].col, "Generated") => ~SpecOf(d.ops[1].col, "Generated").stored /\ ~HasSpec(d.ops[1].col, "Default")))
    [] d.stmt \in {"index_create", "index_drop", "table_rename", "table_drop"} ->
         ~(d.stmt = "index_create" /\ "primary" \in DOMAIN d /\ d.primary) /\ ~(d.stmt = "table_drop" /\ Len(d.tables) # 1)
         /\ ~(d.stmt = "index_drop" /\ "schema" \in DOMAIN d)
    [] OTHER -> FALSE

\* enabled = the engine would accept the declaration in catalogue cat
Enabled13(cat, d) ==
  CASE d.stmt = "table_create" -> TableIx(cat, d.table) = 0 \/ ("if_not_exists" \in DOMAIN d /\ d.if_not_exists)
    [] d.stmt = "table_alter" ->
         LET t == TableIx(cat, d.table) IN t # 0 /\
           (CASE d.ops[1].k = "add_column" -> ~\E i \in DOMAIN cat[t].cols : cat[t].cols[i].name = d.ops[1].col.name
              [] d.ops[1].k = "rename_column" -> (\E i \in DOMAIN cat[t].cols : cat[t].cols[i].name = d.ops[1].from) /\ (~\E i \in DOMAIN cat[t].cols : cat[t].cols[i].name = d.ops[1].to)
              [] d.ops[1].k = "drop_column" ->
                   LET n == d.ops[1].name IN
                   (\E i \in DOMAIN cat[t].cols : cat[t].cols[i].name = n) /\ Len(cat[t].cols) > 1
                   /\ (~\E i \in DOMAIN cat[t].pk : cat[t].pk[i] = n)
                   /\ (~\E i \in DOMAIN cat[t].uniques : \E j \in DOMAIN cat[t].uniques[i] : cat[t].uniques[i][j] = n)
                   /\ (~\E i \in DOMAIN cat[t].indexes : \E j \in DOMAIN cat[t].indexes[i].cols : cat[t].indexes[i].cols[j].n = n)
                   /\ (~\E i \in DOMAIN cat[t].indexes : \E j \in DOMAIN cat[t].indexes[i].pcols : cat[t].indexes[i].pcols[j] = n)      \* nor in an index predicate
                   /\ (~\E i \in DOMAIN cat[t].fks : \E j \in DOMAIN cat[t].fks[i].from : cat[t].fks[i].from[j] = n)
                   /\ cat[t].nchecks = 0 /\ (\A i \in DOMAIN cat[t].cols : cat[t].cols[i].nchecks = 0))
    [] d.stmt = "index_create" -> LET t == TableIx(cat, d.table) IN t # 0 /\ (\A i \in DOMAIN d.cols : \E j \in DOMAIN cat[t].cols : cat[t].cols[j].name = d.cols[i].n)
                                  /\ (("if_not_exists" \in DOMAIN d /\ d.if_not_exists) \/ (~\E k \in DOMAIN cat : \E i \in DOMAIN cat[k].indexes : cat[k].indexes[i].name = d.name))
    [] d.stmt = "index_drop" -> ("if_exists" \in DOMAIN d /\ d.if_exists) \/ \E k \in DOMAIN cat : \E i \in DOMAIN cat[k].indexes : cat[k].indexes[i].name = d.name
    [] d.stmt = "table_rename" -> TableIx(cat, d.from) # 0 /\ TableIx(cat, d.to) = 0
    [] d.stmt = "table_drop" -> ("if_exists" \in DOMAIN d /\ d.if_exists) \/ \A i \in DOMAIN d.tables : TableIx(cat, d.tables[i]) # 0
    [] OTHER -> FALSE

Exec(cat, d) ==
  CASE d.stmt = "table_create" -> IF TableIx(cat, d.table) # 0 THEN cat ELSE Append(cat, DeclTable(d))
    [] d.stmt = "table_alter" ->
         LET t == TableIx(cat, d.table)  o == d.ops[1] IN
         (CASE o.k = "add_column" -> [cat EXCEPT ![t].cols = Append(@, DeclCol(o.col))]
            [] o.k = "rename_column" ->
                 LET Rn(x) == IF x = o.from THEN o.to ELSE x IN
                 LET tb == cat[t]
                     tb2 == [name |-> tb.name, nchecks |-> tb.nchecks, pkdesc |-> tb.pkdesc, udesc |-> tb.udesc,
                             cols |-> [i1 \in DOMAIN tb.cols |-> [tb.cols[i1] EXCEPT !.name = Rn(@)]],
                             pk |-> [i2 \in DOMAIN tb.pk |-> Rn(tb.pk[i2])],
                             uniques |-> [i3 \in DOMAIN tb.uniques |-> [j3 \in DOMAIN tb.uniques[i3] |-> Rn(tb.uniques[i3][j3])]],
                             indexes |-> [i4 \in DOMAIN tb.indexes |-> [tb.indexes[i4] EXCEPT !.cols = [j4 \in DOMAIN tb.indexes[i4].cols |-> [n |-> Rn(tb.indexes[i4].cols[j4].n), desc |-> tb.indexes[i4].cols[j4].desc]],
                                                                                     !.pcols = [j6 \in DOMAIN tb.indexes[i4].pcols |-> Rn(tb.indexes[i4].pcols[j6])]]],
                             fks |-> [i5 \in DOMAIN tb.fks |-> [tb.fks[i5] EXCEPT !.from = [j5 \in DOMAIN tb.fks[i5].from |-> Rn(tb.fks[i5].from[j5])]]]]
                 IN [cat EXCEPT ![t] = tb2]
            [] o.k = "drop_column" -> [cat EXCEPT ![t].cols = SelectSeq(@, LAMBDA c : c.name # o.name)])
    [] d.stmt = "index_create" ->
         LET t == TableIx(cat, d.table) IN
         IF \E k \in DOMAIN cat : \E i \in DOMAIN cat[k].indexes : cat[k].indexes[i].name = d.name THEN cat
         ELSE [cat EXCEPT ![t].indexes = Append(@, Idx(d.name, "unique" \in DOMAIN d /\ d.unique, "c", "where" \in DOMAIN d, IdxCols(d.cols), IF "where_cols" \in DOMAIN d THEN d.where_cols ELSE <<>>))]
    [] d.stmt = "index_drop" -> [k \in DOMAIN cat |-> [cat[k] EXCEPT !.indexes = SelectSeq(@, LAMBDA x : x.name # d.name)]]
    [] d.stmt = "table_rename" -> LET t == TableIx(cat, d.from) IN [cat EXCEPT ![t].name = d.to]
    [] d.stmt = "table_drop" -> SelectSeq(cat, LAMBDA tb : ~\E i \in DOMAIN d.tables : d.tables[i] = tb.name)

(***********  comparison of the engine's dump with the model state  ********)
FkAct(a) == CASE a = "Restrict" -> "RESTRICT" [] a = "Cascade" -> "CASCADE" [] a = "SetNull" -> "SET NULL" [] a = "SetDefault" -> "SET DEFAULT" [] OTHER -> "NO ACTION"
\* reasons why dumped table dt differs from declared table mt
TableReasons(mt, dt) ==
  LET dcols == SelectSeq(dt.cols, LAMBDA c : c.hidden \in {0, 2, 3})
      rowidAlias == Len(mt.pk) = 1 /\ \E i \in DOMAIN dcols : dcols[i].name = mt.pk[1] /\ UpperStr(dcols[i].type) = "INTEGER"
      \* automatic indexes the declaration implies
      wantAuto == (IF Len(mt.pk) > 0 /\ ~rowidAlias THEN {[unique |-> 1, origin |-> "pk", cols |-> [j \in DOMAIN mt.pk |-> [n |-> mt.pk[j], desc |-> mt.pkdesc[j]]]]} ELSE {})
                  \cup {[unique |-> 1, origin |-> "u", cols |-> [j \in DOMAIN mt.uniques[i] |-> [n |-> mt.uniques[i][j], desc |-> mt.udesc[i][j]]]] : i \in DOMAIN mt.uniques}
      gotAuto == {[unique |-> dt.indexes[i].unique, origin |-> dt.indexes[i].origin, cols |-> [j \in DOMAIN dt.indexes[i].cols |-> [n |-> dt.indexes[i].cols[j].n, desc |-> dt.indexes[i].cols[j].desc = 1]]]
                    : i \in {k \in DOMAIN dt.indexes : dt.indexes[k].origin # "c"}}
      wantIdx == {[name |-> mt.indexes[i].name, unique |-> IF mt.indexes[i].unique THEN 1 ELSE 0, partial |-> IF mt.indexes[i].partial THEN 1 ELSE 0, cols |-> mt.indexes[i].cols] : i \in DOMAIN mt.indexes}
      gotIdx == {[name |-> dt.indexes[i].name, unique |-> dt.indexes[i].unique, partial |-> dt.indexes[i].partial,
                  cols |-> [j \in DOMAIN dt.indexes[i].cols |-> [n |-> dt.indexes[i].cols[j].n, desc |-> dt.indexes[i].cols[j].desc = 1]]] : i \in {k \in DOMAIN dt.indexes : dt.indexes[k].origin = "c"}}
      wantFk == {[table |-> mt.fks[i].table, from |-> mt.fks[i].from, to |-> mt.fks[i].to, on_update |-> FkAct(mt.fks[i].on_update), on_delete |-> FkAct(mt.fks[i].on_delete)] : i \in DOMAIN mt.fks}
      gotFk == {[table |-> dt.fks[i].table, from |-> dt.fks[i].from, to |-> dt.fks[i].to, on_update |-> dt.fks[i].on_update, on_delete |-> dt.fks[i].on_delete] : i \in DOMAIN dt.fks}
      nchk == mt.nchecks + (LET RECURSIVE S(_) S(i) == IF i = 0 THEN 0 ELSE mt.cols[i].nchecks + S(i - 1) IN S(Len(mt.cols)))
      T == Norm(Lex("sqlite", dt.sql))
  IN (IF [i \in DOMAIN dcols |-> dcols[i].name] = [i \in DOMAIN mt.cols |-> mt.cols[i].name] THEN {} ELSE {"columns_differ"})
     \cup (IF Len(dcols) = Len(mt.cols) THEN UNION {
             (IF (dcols[i].notnull = 1) = mt.cols[i].notnull THEN {} ELSE {"nullability_differs"})
             \cup (IF mt.cols[i].dflt.k = "none" THEN (IF dcols[i].has_dflt THEN {"default_not_declared"} ELSE {})
                   ELSE IF ~dcols[i].has_dflt THEN {"default_missing"}
                   ELSE IF LitDenotes("sqlite", Lex("sqlite", dcols[i].dflt), mt.cols[i].dflt.v) THEN {} ELSE {"default_differs"})
             \cup (IF dcols[i].hidden = mt.cols[i].hidden THEN {} ELSE {"generated_column_differs"})
             \cup (IF Intended(mt.cols[i].ty) = "?" \/ Affinity(dcols[i].type) = Intended(mt.cols[i].ty) THEN {} ELSE {"affinity_differs:" \o mt.cols[i].ty.k})
             \cup (LET pos == IF \E j \in DOMAIN mt.pk : mt.pk[j] = mt.cols[i].name THEN CHOOSE j \in DOMAIN mt.pk : mt.pk[j] = mt.cols[i].name ELSE 0
                   IN IF dcols[i].pk = pos THEN {} ELSE {"primary_key_differs"})
             : i \in DOMAIN dcols } ELSE {})
     \cup (IF gotAuto = wantAuto THEN {} ELSE {"constraint_indexes_differ"})
     \cup (IF gotIdx = wantIdx THEN {} ELSE {"indexes_differ"})
     \cup (IF gotFk = wantFk THEN {} ELSE {"foreign_keys_differ"})
     \cup (IF dt.autoinc = (\E i \in DOMAIN mt.cols : mt.cols[i].autoinc) THEN {} ELSE {"autoincrement_differs"})
     \cup (IF Cardinality({i \in DOMAIN T : T[i].k = "word" /\ T[i].u = "CHECK"}) = nchk THEN {} ELSE {"checks_differ"})

CatReasons(cat, dumpTables) ==
  (IF {cat[i].name : i \in DOMAIN cat} = {dumpTables[i].name : i \in DOMAIN dumpTables} THEN {} ELSE {"tables_differ"})
  \cup UNION { IF \E j \in DOMAIN dumpTables : dumpTables[j].name = cat[i].name
               THEN TableReasons(cat[i], dumpTables[CHOOSE j \in DOMAIN dumpTables : dumpTables[j].name = cat[i].name]) ELSE {} : i \in DOMAIN cat }
=============================================================================
