----------------------------- MODULE DeriveTrace -----------------------------
(* Trace validation for C19: names and quoted texts observed from types    *)
(* compiled with the real derive macros, against Derive.tla.               *)
EXTENDS Derive, IOUtils, TLCExt
Rec == ndJsonDeserialize(IOEnv.TRACE)
VARIABLE l
Init == l = 1
IsPanic(o) == "panic" \in DOMAIN o

\* which row of the attribute table a value exercises
RowOf(d, i) ==
  CASE d.kind = "unit" -> "unit/" \o d.crename.k
    [] d.kind = "enumdef" -> IF i = 1 THEN "enumdef/table/" \o d.tname.k ELSE "enumdef/field"
    [] OTHER -> "enum/" \o (IF d.vs[i].attr.k = "none" THEN (IF d.vs[i].n = "Table" THEN "table/" \o d.crename.k ELSE "snake") ELSE d.vs[i].attr.k)

KeysAt(r, i) ==
  LET o == r.obs[i]  n == Names(r.def)[i]  row == RowOf(r.def, i) IN
  IF IsPanic(o) THEN {"C19/" \o row \o "/panic"}
  ELSE (IF o.s # n THEN {"C19/" \o row \o "/name_differs"} ELSE {})
       \cup {"C19/" \o row \o "/quoted_text_differs:" \o q[1] : q \in {q \in Quotes : o.p[q[1]] # Prepare(n, q[2], q[3])}}
       \cup (IF o.st.k = "some" /\ o.st.s # n THEN {"C19/" \o row \o "/as_str_differs"} ELSE {})
       \cup (IF o.st.k = "none" /\ (r.def.kind = "enumdef" \/ (r.def.kind # "enumdef" /\ r.def.derive = "IdenStatic")) THEN {"C19/" \o row \o "/?no_as_str_recorded"} ELSE {})

Keys(r) == IF Len(r.obs) # Len(Names(r.def)) THEN {"C19/?observation_count"}
           ELSE UNION {KeysAt(r, i) : i \in DOMAIN r.obs}

Exact(r) == /\ Len(r.obs) = Len(NamesImpl(r.def))
            /\ \A i \in DOMAIN r.obs : IsPanic(r.obs[i]) \/
                 /\ r.obs[i].s = NamesImpl(r.def)[i]
                 /\ \A q \in Quotes : r.obs[i].p[q[1]] = PrepareImpl(r.def, NamesImpl(r.def)[i], q[2], q[3])
Rows(r) == {RowOf(r.def, i) : i \in DOMAIN Names(r.def)}
Verdict(r) ==
  LET ks == Keys(r) IN
  [id |-> r.id, keys |-> {k \in ks : ~HasChar(k, "?")}, skipped |-> {k \in ks : HasChar(k, "?")},
   exact |-> Exact(r), fast |-> AllValid(r.def), rows |-> Rows(r),
   nt |-> AllValid(r.def) \/ \E i \in DOMAIN Names(r.def) : \E q \in Quotes : Prepare(Names(r.def)[i], q[2], q[3]) # FastPrepare(Names(r.def)[i], q[2], q[3])]
Step == /\ l <= Len(Rec)
        /\ PrintT(<<"R", ToJson(Verdict(Rec[l]))>>)
        /\ l' = l + 1
Spec == Init /\ [][Step]_l
AllConsumed == TLCGet("stats").diameter = Len(Rec) + 1
=============================================================================
