------------------------------ MODULE EngineDDL ------------------------------
(***************************************************************************)
(* C14: DDL grammars of MySQL 8.0 and PostgreSQL >= 15 for the statements  *)
(* sea-query's schema builders emit (from the reference manuals), the data *)
(* types each dialect defines, and DdlReasons(B, decl, sql): why the       *)
(* rendering sql is not a complete, well-formed statement of dialect B for *)
(* the declaration decl.                                                   *)
(***************************************************************************)
EXTENDS EngineGrammar, FiniteSets

SpecKws == {"NOT", "NULL", "DEFAULT", "PRIMARY", "UNIQUE", "AUTO_INCREMENT", "CHECK", "GENERATED", "COMMENT", "REFERENCES"}
\* tokens [s, e) as upper-cased words / texts
Texts(T, s, e) == [i \in 1..(e - s) |-> IF T[s + i - 1].k = "word" THEN T[s + i - 1].u ELSE IF T[s + i - 1].k \in {"qid", "str"} THEN T[s + i - 1].v ELSE T[s + i - 1].t]
RECURSIVE NextSpec(_, _, _, _, _)
NextSpec(T, D, i, e, d) == IF i >= e THEN e ELSE IF T[i].k = "word" /\ D[i] = d /\ T[i].u \in SpecKws THEN i ELSE NextSpec(T, D, i + 1, e, d)

\* column specifications from s: sequence of [k, ...]
RECURSIVE Specs(_, _, _, _, _, _)
Specs(B, T, D, s, e, acc) ==
  IF s >= e THEN GOk(acc, e)
  ELSE LET u == IF T[s].k = "word" THEN T[s].u ELSE T[s].t
           nx == NextSpec(T, D, s + 1, e, D[s]) IN
    CASE u = "NOT" /\ IsWordU(T, s + 1, "NULL") -> Specs(B, T, D, s + 2, e, Append(acc, [k |-> "NotNull"]))
      [] u = "NULL" -> Specs(B, T, D, s + 1, e, Append(acc, [k |-> "Null"]))
      [] u = "UNIQUE" -> Specs(B, T, D, IF IsWordU(T, s + 1, "KEY") THEN s + 2 ELSE s + 1, e, Append(acc, [k |-> "Unique"]))
      [] u = "PRIMARY" /\ IsWordU(T, s + 1, "KEY") -> Specs(B, T, D, s + 2, e, Append(acc, [k |-> "PrimaryKey"]))
      [] u = "AUTO_INCREMENT" -> IF B = "mysql" THEN Specs(B, T, D, s + 1, e, Append(acc, [k |-> "AutoIncrement"])) ELSE GErr("auto_increment_keyword_is_mysql_only")
      [] u = "DEFAULT" ->
           \* the default value may itself be the keyword NULL
           LET nx2 == NextSpec(T, D, s + 2, e, D[s])
               x == ExprOf(B, T, s + 1, nx2) IN IF ~x.ok THEN GErr("default:" \o x.tr.why) ELSE Specs(B, T, D, nx2, e, Append(acc, [k |-> "Default", e |-> x.tr]))
      [] u = "CHECK" ->
           IF Tk(T, s + 1).k # "lp" THEN GErr("check_without_parentheses")
           ELSE LET m == MatchParen(T, s + 1)  x == ExprOf(B, T, s + 2, m) IN
             IF m = 0 THEN GErr("unbalanced_check") ELSE IF ~x.ok THEN GErr("check:" \o x.tr.why) ELSE Specs(B, T, D, m + 1, e, Append(acc, [k |-> "Check", e |-> x.tr]))
      [] u = "COMMENT" -> IF B = "mysql" /\ Tk(T, s + 1).k = "str" THEN Specs(B, T, D, s + 2, e, Append(acc, [k |-> "Comment", s |-> T[s + 1].v])) ELSE GErr("malformed_comment")
      [] u = "GENERATED" ->
           \* GENERATED ALWAYS AS ( expr ) [STORED | VIRTUAL]   (PostgreSQL: STORED is mandatory)
           IF ~(IsWordU(T, s + 1, "ALWAYS") /\ IsWordU(T, s + 2, "AS") /\ Tk(T, s + 3).k = "lp") THEN GErr("malformed_generated_clause")
           ELSE LET m == MatchParen(T, s + 3)  x == ExprOf(B, T, s + 4, m)
                    st == IsWordU(T, m + 1, "STORED")  vi == IsWordU(T, m + 1, "VIRTUAL") IN
             IF m = 0 THEN GErr("unbalanced_generated_expression") ELSE IF ~x.ok THEN GErr("generated:" \o x.tr.why)
             ELSE IF B = "pg" /\ ~st THEN GErr("pg_generated_column_must_be_STORED")
             ELSE Specs(B, T, D, IF st \/ vi THEN m + 2 ELSE m + 1, e, Append(acc, [k |-> "Generated", e |-> x.tr, stored |-> st]))
      [] OTHER -> GErr("unexpected_token_in_column_definition:" \o u)

\* name type specs... filling [s, e)
ColumnDefAt(B, T, D, s, e) ==
  IF s >= e \/ T[s].k # "qid" THEN GErr("expected_column_name")
  ELSE LET ts == s + 1
           te == NextSpec(T, D, ts, e, D[s])
           sp == Specs(B, T, D, te, e, <<>>)
       IN IF ~sp.ok THEN sp ELSE GOk([kind |-> "column", name |-> T[s].v, type |-> Texts(T, ts, te), specs |-> sp.v], e)

RECURSIVE QidList(_, _, _, _)
QidList(T, s, e, acc) ==    \* qid [ (n) ] [ASC|DESC] {, ...} filling [s, e)
  IF s >= e \/ T[s].k # "qid" THEN GErr("expected_column_in_list")
  ELSE LET p == IF Tk(T, s + 1).k = "lp" THEN MatchParen(T, s + 1) + 1 ELSE s + 1
           o == IF p < e /\ T[p].k = "word" /\ T[p].u \in {"ASC", "DESC"} THEN T[p].u ELSE ""
           nx == IF o = "" THEN p ELSE p + 1
           item == [n |-> T[s].v, o |-> o, pfx |-> IF Tk(T, s + 1).k = "lp" THEN Texts(T, s + 2, p - 1) ELSE <<>>]
       IN IF nx >= e THEN GOk(Append(acc, item), e)
          ELSE IF T[nx].k = "comma" THEN QidList(T, nx + 1, e, Append(acc, item)) ELSE GErr("malformed_column_list")

FkTail(T, s, e) ==      \* [ON DELETE a] [ON UPDATE a] as texts
  Texts(T, s, e)

\* table-level element filling [s, e): constraint / index / foreign key / check
TableElemAt(B, T, D, s, e) ==
  LET hasC == IsWordU(T, s, "CONSTRAINT")
      cname == IF hasC /\ Tk(T, s + 1).k = "qid" THEN T[s + 1].v ELSE ""
      a == IF hasC THEN (IF Tk(T, s + 1).k = "qid" THEN s + 2 ELSE s + 1) ELSE s
  IN IF a >= e THEN GErr("empty_table_element")
     ELSE IF IsWordU(T, a, "PRIMARY") /\ IsWordU(T, a + 1, "KEY") THEN
       LET lp == IF Tk(T, a + 2).k = "lp" THEN a + 2 ELSE IF Tk(T, a + 3).k = "lp" THEN a + 3 ELSE 0
           m == IF lp = 0 THEN 0 ELSE MatchParen(T, lp)
           cols == IF m = 0 THEN GErr("primary_key_without_column_list") ELSE QidList(T, lp + 1, m, <<>>)
           \* MySQL accepts (and ignores) an index name after PRIMARY KEY
           pkname == IF cname # "" THEN cname ELSE IF B = "mysql" /\ lp = a + 3 /\ T[a + 2].k = "qid" THEN T[a + 2].v ELSE ""
       IN IF ~cols.ok THEN cols
          ELSE IF lp = a + 3 /\ ~(B = "mysql" /\ T[a + 2].k = "qid") THEN GErr("unexpected_token_after_PRIMARY_KEY")
          ELSE GOk([kind |-> "primary", name |-> pkname, cols |-> cols.v, rest |-> Texts(T, m + 1, e)], e)
     ELSE IF IsWordU(T, a, "UNIQUE") \/ ((IsWordU(T, a, "KEY") \/ IsWordU(T, a, "INDEX") \/ IsWordU(T, a, "FULLTEXT")) /\ B = "mysql") THEN
       LET RECURSIVE FirstLp(_)
           FirstLp(i) == IF i >= e THEN 0 ELSE IF T[i].k = "lp" /\ D[i] = D[s] THEN i ELSE FirstLp(i + 1)
           lp == FirstLp(a)
           m == IF lp = 0 THEN 0 ELSE MatchParen(T, lp)
           cols == IF m = 0 THEN GErr("index_without_column_list") ELSE QidList(T, lp + 1, m, <<>>)
           \* MySQL: [UNIQUE | FULLTEXT] {KEY | INDEX} [name] [USING type] ( cols );  PostgreSQL: UNIQUE [NULLS NOT DISTINCT] ( cols )
           k0 == IF (IsWordU(T, a, "UNIQUE") \/ IsWordU(T, a, "FULLTEXT")) /\ (IsWordU(T, a + 1, "KEY") \/ IsWordU(T, a + 1, "INDEX")) THEN a + 2 ELSE a + 1
           hasNm == lp # 0 /\ k0 < lp /\ T[k0].k = "qid"
           k1 == IF hasNm THEN k0 + 1 ELSE k0
           hasUs == lp # 0 /\ k1 + 2 = lp /\ IsWordU(T, k1, "USING") /\ T[k1 + 1].k = "word"
           nnd == lp # 0 /\ B = "pg" /\ k1 + 3 = lp /\ IsWordU(T, k1, "NULLS") /\ IsWordU(T, k1 + 1, "NOT") /\ IsWordU(T, k1 + 2, "DISTINCT")
           wellFormed == lp # 0 /\ (k1 = lp \/ (hasUs /\ B = "mysql") \/ nnd) /\ (hasNm => B = "mysql")
           nm == IF cname # "" THEN cname ELSE IF hasNm THEN T[k0].v ELSE ""
       IN IF ~cols.ok THEN cols
          ELSE IF ~wellFormed THEN GErr("index_definition_out_of_order")
          ELSE GOk([kind |-> IF IsWordU(T, a, "UNIQUE") THEN "unique" ELSE "index", name |-> nm, cols |-> cols.v,
                    using |-> IF hasUs THEN T[k1 + 1].u ELSE "", fulltext |-> IsWordU(T, a, "FULLTEXT"), rest |-> Texts(T, m + 1, e)], e)
     ELSE IF IsWordU(T, a, "FOREIGN") /\ IsWordU(T, a + 1, "KEY") /\ Tk(T, a + 2).k = "lp" THEN
       LET m1 == MatchParen(T, a + 2)
           from == IF m1 = 0 THEN GErr("unbalanced_fk") ELSE QidList(T, a + 3, m1, <<>>)
           IsRef == IsWordU(T, m1 + 1, "REFERENCES")
           RECURSIVE FirstLp(_)
           FirstLp(i) == IF i >= e THEN 0 ELSE IF T[i].k = "lp" /\ D[i] = D[s] THEN i ELSE FirstLp(i + 1)
           lp2 == FirstLp(m1 + 2)
           m2 == IF lp2 = 0 THEN 0 ELSE MatchParen(T, lp2)
           tbl == IF lp2 = 0 THEN GErr("fk_without_referenced_columns") ELSE QualName(T, m1 + 2, lp2, <<>>)
           to == IF m2 = 0 THEN GErr("fk_without_referenced_columns") ELSE QidList(T, lp2 + 1, m2, <<>>)
       IN IF ~from.ok THEN from ELSE IF ~IsRef THEN GErr("fk_without_REFERENCES") ELSE IF ~tbl.ok THEN tbl ELSE IF ~to.ok THEN to
          ELSE GOk([kind |-> "fk", name |-> cname, from |-> [i \in DOMAIN from.v |-> from.v[i].n], table |-> tbl.v, to |-> [i \in DOMAIN to.v |-> to.v[i].n], rest |-> FkTail(T, m2 + 1, e)], e)
     ELSE IF IsWordU(T, a, "CHECK") /\ Tk(T, a + 1).k = "lp" THEN
       LET m == MatchParen(T, a + 1)  x == ExprOf(B, T, a + 2, m) IN
       IF m = 0 \/ m + 1 # e THEN GErr("malformed_check") ELSE IF ~x.ok THEN GErr("check:" \o x.tr.why) ELSE GOk([kind |-> "check", e |-> x.tr], e)
     ELSE IF hasC THEN GErr("constraint_without_definition")
     ELSE ColumnDefAt(B, T, D, s, e)

RECURSIVE Elems(_, _, _, _, _, _)
Elems(B, T, D, parts, i, acc) ==
  IF i > Len(parts) THEN GOk(acc, 0)
  ELSE IF parts[i][1] >= parts[i][2] THEN GErr("empty_element_between_commas")
  ELSE LET r == TableElemAt(B, T, D, parts[i][1], parts[i][2]) IN IF ~r.ok THEN r ELSE Elems(B, T, D, parts, i + 1, Append(acc, r.v))

\* ALTER TABLE actions (comma separated): each must be a complete action
AlterActionAt(B, T, D, s, e) ==
  IF s >= e THEN GErr("empty_alter_action")
  ELSE LET u == IF T[s].k = "word" THEN T[s].u ELSE T[s].t
           skipCol(i) == IF IsWordU(T, i, "COLUMN") THEN i + 1 ELSE i
           skipIne(i) == IF IsWordU(T, i, "IF") /\ IsWordU(T, i + 1, "NOT") /\ IsWordU(T, i + 2, "EXISTS") THEN i + 3 ELSE i IN
    CASE u = "ADD" /\ (IsWordU(T, s + 1, "CONSTRAINT") \/ IsWordU(T, s + 1, "FOREIGN") \/ IsWordU(T, s + 1, "UNIQUE") \/ IsWordU(T, s + 1, "PRIMARY") \/ IsWordU(T, s + 1, "CHECK")) ->
           LET r == TableElemAt(B, T, D, s + 1, e) IN IF ~r.ok THEN r ELSE GOk([k |-> "add_constraint", c |-> r.v], e)
      [] u = "ADD" -> LET hasIne == skipIne(skipCol(s + 1)) # skipCol(s + 1)
                          c == ColumnDefAt(B, T, D, skipIne(skipCol(s + 1)), e)
                      IN IF hasIne /\ B = "mysql" THEN GErr("mysql_has_no_ADD_COLUMN_IF_NOT_EXISTS")
                         ELSE IF ~c.ok THEN c ELSE GOk([k |-> "add_column", col |-> c.v, ine |-> hasIne], e)
      [] u = "MODIFY" -> IF B # "mysql" THEN GErr("MODIFY_is_mysql_only")
                         ELSE LET c == ColumnDefAt(B, T, D, skipCol(s + 1), e) IN IF ~c.ok THEN c ELSE GOk([k |-> "modify_column", col |-> c.v], e)
      [] u = "RENAME" /\ IsWordU(T, s + 1, "COLUMN") ->
           IF e - s = 5 /\ T[s + 2].k = "qid" /\ IsWordU(T, s + 3, "TO") /\ T[s + 4].k = "qid" THEN GOk([k |-> "rename_column", from |-> T[s + 2].v, to |-> T[s + 4].v], e) ELSE GErr("malformed_rename_column")
      [] u = "DROP" /\ IsWordU(T, s + 1, "COLUMN") -> IF e - s = 3 /\ T[s + 2].k = "qid" THEN GOk([k |-> "drop_column", name |-> T[s + 2].v], e) ELSE GErr("malformed_drop_column")
      [] u = "DROP" /\ IsWordU(T, s + 1, "FOREIGN") /\ IsWordU(T, s + 2, "KEY") ->
           IF B = "mysql" /\ e - s = 4 /\ T[s + 3].k = "qid" THEN GOk([k |-> "drop_fk", name |-> T[s + 3].v], e) ELSE GErr("malformed_drop_foreign_key")
      [] u = "DROP" /\ IsWordU(T, s + 1, "CONSTRAINT") ->
           IF e - s = 3 /\ T[s + 2].k = "qid" THEN GOk([k |-> "drop_fk", name |-> T[s + 2].v], e) ELSE GErr("malformed_drop_constraint")
      [] u = "ALTER" /\ IsWordU(T, s + 1, "COLUMN") /\ Tk(T, s + 2).k = "qid" ->
           IF B # "pg" THEN GErr("ALTER_COLUMN_form_is_pg_only")
           ELSE LET a == s + 3 IN
             IF IsWordU(T, a, "TYPE") /\ a + 1 < e THEN GOk([k |-> "alter_type", name |-> T[s + 2].v, type |-> Texts(T, a + 1, NextAt(T, D, a + 1, e, D[s], {"USING"}))], e)
             ELSE IF IsWordU(T, a, "SET") /\ IsWordU(T, a + 1, "NOT") /\ IsWordU(T, a + 2, "NULL") /\ a + 3 = e THEN GOk([k |-> "set_not_null", name |-> T[s + 2].v], e)
             ELSE IF IsWordU(T, a, "DROP") /\ IsWordU(T, a + 1, "NOT") /\ IsWordU(T, a + 2, "NULL") /\ a + 3 = e THEN GOk([k |-> "drop_not_null", name |-> T[s + 2].v], e)
             ELSE IF IsWordU(T, a, "SET") /\ IsWordU(T, a + 1, "DEFAULT") THEN
               LET x == ExprOf(B, T, a + 2, e) IN IF ~x.ok THEN GErr("set_default:" \o x.tr.why) ELSE GOk([k |-> "set_default", name |-> T[s + 2].v, e |-> x.tr], e)
             ELSE GErr("malformed_alter_column")
      [] OTHER -> GErr("unknown_alter_action:" \o u)
RECURSIVE AlterActions(_, _, _, _, _, _)
AlterActions(B, T, D, parts, i, acc) ==
  IF i > Len(parts) THEN GOk(acc, 0)
  ELSE LET r == AlterActionAt(B, T, D, parts[i][1], parts[i][2]) IN IF ~r.ok THEN r ELSE AlterActions(B, T, D, parts, i + 1, Append(acc, r.v))
\* SplitCommas drops nothing: an empty part (s = e) is a stray comma
RECURSIVE SplitAll(_, _, _, _, _)
SplitAll(T, D, s, e, d) ==
  LET c == NextComma(T, D, s, e, d) IN <<<<s, c>>>> \o (IF c >= e THEN <<>> ELSE SplitAll(T, D, c + 1, e, d))

ParseDDL(B, sql) ==
  LET T0 == Lex(B, sql) IN
  IF \E i \in DOMAIN T0 : T0[i].k = "bad" THEN GErr("illegal_token:" \o (T0[CHOOSE i \in DOMAIN T0 : T0[i].k = "bad"]).f)
  ELSE
  LET T == Norm(T0)
      D == DepthsOf(T)
      n == Len(T)
      W(i, u) == IsWordU(T, i, u)
  IN IF \E i \in DOMAIN D : D[i] < 0 THEN GErr("unbalanced_parentheses")
     ELSE IF W(1, "CREATE") /\ (W(2, "TABLE") \/ (W(2, "TEMPORARY") /\ W(3, "TABLE"))) THEN
       LET a == IF W(2, "TABLE") THEN 3 ELSE 4
           ine == W(a, "IF") /\ W(a + 1, "NOT") /\ W(a + 2, "EXISTS")
           b == IF ine THEN a + 3 ELSE a
           RECURSIVE FirstLp(_)
           FirstLp(i) == IF i > n THEN 0 ELSE IF T[i].k = "lp" THEN i ELSE FirstLp(i + 1)
           lp == FirstLp(b)
           m == IF lp = 0 THEN 0 ELSE MatchParen(T, lp)
           name == IF lp = 0 THEN GErr("create_table_without_element_list") ELSE QualName(T, b, lp, <<>>)
           els == IF m = 0 THEN GErr("unbalanced_element_list") ELSE Elems(B, T, D, SplitAll(T, D, lp + 1, m, 1), 1, <<>>)
       IN IF ~name.ok THEN name ELSE IF ~els.ok THEN els
          ELSE GOk([kind |-> "create_table", name |-> name.v, if_not_exists |-> ine, temporary |-> ~W(2, "TABLE"), elems |-> els.v, options |-> Texts(T, m + 1, n + 1)], n + 1)
     ELSE IF W(1, "ALTER") /\ W(2, "TABLE") THEN
       LET RECURSIVE NameEnd(_)
           NameEnd(i) == IF i > n THEN i ELSE IF T[i].k \in {"qid", "dot"} THEN NameEnd(i + 1) ELSE i
           ne == NameEnd(3)
           name == QualName(T, 3, ne, <<>>)
       IN IF ~name.ok THEN name
          ELSE IF W(ne, "RENAME") /\ W(ne + 1, "TO") THEN
            LET to == QualName(T, ne + 2, n + 1, <<>>) IN IF ~to.ok THEN to ELSE GOk([kind |-> "rename_table", from |-> name.v, to |-> to.v], n + 1)
          ELSE LET acts == AlterActions(B, T, D, SplitAll(T, D, ne, n + 1, 0), 1, <<>>) IN
            IF ~acts.ok THEN acts ELSE GOk([kind |-> "alter_table", name |-> name.v, actions |-> acts.v], n + 1)
     ELSE IF W(1, "RENAME") /\ W(2, "TABLE") /\ B = "mysql" THEN
       LET IsTo == NextAt(T, D, 3, n + 1, 0, {"TO"})
           f == QualName(T, 3, IsTo, <<>>)
           t == QualName(T, IsTo + 1, n + 1, <<>>)
       IN IF ~f.ok THEN f ELSE IF ~t.ok THEN t ELSE GOk([kind |-> "rename_table", from |-> f.v, to |-> t.v], n + 1)
     ELSE IF W(1, "DROP") /\ W(2, "TABLE") THEN
       LET ie == W(3, "IF") /\ W(4, "EXISTS")
           a == IF ie THEN 5 ELSE 3
           opt == IF W(n, "CASCADE") \/ W(n, "RESTRICT") THEN T[n].u ELSE ""
           e == IF opt = "" THEN n + 1 ELSE n
           parts == SplitAll(T, D, a, e, 0)
           names == [i \in DOMAIN parts |-> QualName(T, parts[i][1], parts[i][2], <<>>)]
       IN IF \E i \in DOMAIN names : ~names[i].ok THEN GErr("malformed_drop_table")
          ELSE GOk([kind |-> "drop_table", if_exists |-> ie, names |-> [i \in DOMAIN names |-> names[i].v], opt |-> opt], n + 1)
     ELSE IF W(1, "TRUNCATE") /\ W(2, "TABLE") THEN
       LET nm == QualName(T, 3, n + 1, <<>>) IN IF ~nm.ok THEN nm ELSE GOk([kind |-> "truncate", name |-> nm.v], n + 1)
     ELSE IF W(1, "CREATE") /\ (W(2, "INDEX") \/ (W(2, "UNIQUE") /\ W(3, "INDEX")) \/ (W(2, "FULLTEXT") /\ W(3, "INDEX") /\ B = "mysql")) THEN
       LET a == IF W(2, "INDEX") THEN 3 ELSE 4
           ine == W(a, "IF") /\ W(a + 1, "NOT") /\ W(a + 2, "EXISTS")
           b == IF ine THEN a + 3 ELSE a
           on == NextAt(T, D, b, n + 1, 0, {"ON"})
           RECURSIVE FirstLp(_)
           FirstLp(i) == IF i > n THEN 0 ELSE IF T[i].k = "lp" /\ D[i] = 0 THEN i ELSE FirstLp(i + 1)
           lp == FirstLp(on)
           m == IF lp = 0 THEN 0 ELSE MatchParen(T, lp)
           using1 == IF lp # 0 /\ W(lp - 2, "USING") THEN T[lp - 1].u ELSE ""
           tblEnd == IF using1 # "" THEN lp - 2 ELSE lp
           tbl == IF on > n \/ lp = 0 THEN GErr("create_index_without_ON_or_columns") ELSE QualName(T, on + 1, tblEnd, <<>>)
           cols == IF m = 0 THEN GErr("create_index_without_columns") ELSE QidList(T, lp + 1, m, <<>>)
       IN IF ine /\ B = "mysql" THEN GErr("mysql_has_no_CREATE_INDEX_IF_NOT_EXISTS")
          ELSE IF ~(on = b + 1 /\ T[b].k = "qid") THEN GErr("create_index_name")
          ELSE IF ~tbl.ok THEN tbl ELSE IF ~cols.ok THEN cols
          ELSE LET \* after the column list:  PostgreSQL [INCLUDE ( cols )] [NULLS NOT DISTINCT] [WHERE predicate]
                   \*                          SQLite [WHERE predicate]        MySQL [USING type]
                   r0 == m + 1
                   hasInc == W(r0, "INCLUDE") /\ Tk(T, r0 + 1).k = "lp"
                   incEnd == IF hasInc THEN MatchParen(T, r0 + 1) ELSE 0
                   inc == IF hasInc THEN QidList(T, r0 + 2, incEnd, <<>>) ELSE GOk(<<>>, 0)
                   r1 == IF hasInc THEN incEnd + 1 ELSE r0
                   nnd == W(r1, "NULLS") /\ W(r1 + 1, "NOT") /\ W(r1 + 2, "DISTINCT")
                   r2 == IF nnd THEN r1 + 3 ELSE r1
                   using2 == IF W(r2, "USING") /\ r2 + 1 <= n THEN T[r2 + 1].u ELSE ""
                   r3 == IF using2 # "" THEN r2 + 2 ELSE r2
                   hasWhere == W(r3, "WHERE")
                   wh == IF hasWhere THEN ExprOf(B, T, r3 + 1, n + 1) ELSE Ok([k |-> "none"], 0)
               IN IF (hasInc \/ nnd) /\ B # "pg" THEN GErr("include_and_nulls_not_distinct_are_postgres_only")
                  ELSE IF hasWhere /\ B = "mysql" THEN GErr("mysql_has_no_partial_indexes")
                  ELSE IF using2 # "" /\ B # "mysql" THEN GErr("index_type_after_columns_is_mysql_only")
                  ELSE IF using1 # "" /\ using2 # "" THEN GErr("index_type_given_twice")
                  ELSE IF ~inc.ok THEN inc
                  ELSE IF ~hasWhere /\ r3 <= n THEN GErr("unexpected_tokens_after_index_columns")
                  ELSE IF ~wh.ok THEN GErr("index_predicate:" \o wh.tr.why)
                  ELSE GOk([kind |-> "create_index", name |-> T[b].v, unique |-> W(2, "UNIQUE"), fulltext |-> W(2, "FULLTEXT"), if_not_exists |-> ine,
                            table |-> tbl.v, cols |-> cols.v, using |-> IF using1 # "" THEN using1 ELSE using2,
                            include |-> [i \in DOMAIN inc.v |-> inc.v[i].n], nnd |-> nnd, where |-> wh.tr], n + 1)
     ELSE IF W(1, "DROP") /\ W(2, "INDEX") THEN
       LET ie == W(3, "IF") /\ W(4, "EXISTS")
           a == IF ie THEN 5 ELSE 3
           on == NextAt(T, D, a, n + 1, 0, {"ON"})
       IN IF B = "mysql" THEN
            (IF ie THEN GErr("mysql_has_no_DROP_INDEX_IF_EXISTS")
             ELSE IF on > n THEN GErr("mysql_drop_index_needs_ON_table")
             ELSE IF ~(on = a + 1 /\ T[a].k = "qid") THEN GErr("drop_index_name")
             ELSE LET t == QualName(T, on + 1, n + 1, <<>>) IN IF ~t.ok THEN t ELSE GOk([kind |-> "drop_index", name |-> T[a].v, qual |-> <<T[a].v>>, table |-> t.v, if_exists |-> FALSE], n + 1))
          ELSE (IF on <= n THEN GErr("pg_drop_index_has_no_ON")
                ELSE LET nm == QualName(T, a, n + 1, <<>>) IN IF ~nm.ok THEN nm ELSE GOk([kind |-> "drop_index", name |-> nm.v[Len(nm.v)], qual |-> nm.v, table |-> <<>>, if_exists |-> ie], n + 1))
     ELSE IF W(1, "CREATE") /\ W(2, "TYPE") /\ B = "pg" THEN
       LET asAt == NextAt(T, D, 3, n + 1, 0, {"AS"})
           nm == QualName(T, 3, asAt, <<>>)
       IN IF ~nm.ok THEN nm
          ELSE IF ~(W(asAt + 1, "ENUM") /\ Tk(T, asAt + 2).k = "lp" /\ MatchParen(T, asAt + 2) = n) THEN GErr("malformed_create_type")
          ELSE LET parts == SplitAll(T, D, asAt + 3, n, 1) IN
            IF \E i \in DOMAIN parts : ~(parts[i][2] = parts[i][1] + 1 /\ T[parts[i][1]].k = "str") THEN GErr("enum_label_not_a_string_literal")
            ELSE GOk([kind |-> "create_type", name |-> nm.v, labels |-> [i \in DOMAIN parts |-> T[parts[i][1]].v]], n + 1)
     ELSE IF W(1, "DROP") /\ W(2, "TYPE") /\ B = "pg" THEN
       LET ie == W(3, "IF") /\ W(4, "EXISTS")
           a == IF ie THEN 5 ELSE 3
           opt == IF W(n, "CASCADE") \/ W(n, "RESTRICT") THEN T[n].u ELSE ""
           e == IF opt = "" THEN n + 1 ELSE n
           parts == SplitAll(T, D, a, e, 0)
           names == [i \in DOMAIN parts |-> QualName(T, parts[i][1], parts[i][2], <<>>)]
       IN IF \E i \in DOMAIN names : ~names[i].ok THEN GErr("malformed_drop_type") ELSE GOk([kind |-> "drop_type", if_exists |-> ie, names |-> [i \in DOMAIN names |-> names[i].v], opt |-> opt], n + 1)
     ELSE IF W(1, "CREATE") /\ W(2, "EXTENSION") /\ B = "pg" THEN
       \* CREATE EXTENSION [IF NOT EXISTS] name [WITH] [SCHEMA s] [VERSION v] [CASCADE]; name, s: identifiers; v: identifier or string literal
       LET ine == W(3, "IF") /\ W(4, "NOT") /\ W(5, "EXISTS")
           a == IF ine THEN 6 ELSE 3
           IsName(i) == i <= n /\ T[i].k \in {"word", "qid"}
           NameOf(i) == IF T[i].k = "qid" THEN T[i].v ELSE T[i].t
           w1 == IF W(a + 1, "WITH") THEN a + 2 ELSE a + 1
           hasS == W(w1, "SCHEMA")
           s1 == IF hasS THEN w1 + 2 ELSE w1
           hasV == W(s1, "VERSION")
           vOk == hasV /\ s1 + 1 <= n /\ T[s1 + 1].k \in {"word", "qid", "str"}
           v1 == IF hasV THEN s1 + 2 ELSE s1
           casc == W(v1, "CASCADE")
           endAt == IF casc THEN v1 + 1 ELSE v1
       IN IF ~IsName(a) THEN GErr("extension_name_expected")
          ELSE IF hasS /\ ~IsName(w1 + 1) THEN GErr("extension_schema_expected")
          ELSE IF hasV /\ ~vOk THEN GErr("extension_version_needs_identifier_or_string_literal")
          ELSE IF endAt # n + 1 THEN GErr("extension_version_needs_identifier_or_string_literal_or_trailing_tokens")
          ELSE GOk([kind |-> "create_extension", name |-> NameOf(a), if_not_exists |-> ine, schema |-> IF hasS THEN NameOf(w1 + 1) ELSE "",
                    version |-> IF hasV THEN (IF T[s1 + 1].k = "word" THEN T[s1 + 1].t ELSE T[s1 + 1].v) ELSE "", cascade |-> casc], n + 1)
     ELSE IF W(1, "DROP") /\ W(2, "EXTENSION") /\ B = "pg" THEN
       LET ie == W(3, "IF") /\ W(4, "EXISTS")
           a == IF ie THEN 5 ELSE 3
           opt == IF W(n, "CASCADE") \/ W(n, "RESTRICT") THEN T[n].u ELSE ""
       IN IF ~(a <= n /\ T[a].k \in {"word", "qid"}) THEN GErr("extension_name_expected")
          ELSE IF a + (IF opt = "" THEN 0 ELSE 1) # n THEN GErr("malformed_drop_extension")
          ELSE GOk([kind |-> "drop_extension", name |-> IF T[a].k = "qid" THEN T[a].v ELSE T[a].t, if_exists |-> ie, opt |-> opt], n + 1)
     ELSE IF W(1, "ALTER") /\ W(2, "TYPE") /\ B = "pg" THEN
       LET RECURSIVE NameEnd(_)
           NameEnd(i) == IF i > n THEN i ELSE IF T[i].k \in {"qid", "dot"} THEN NameEnd(i + 1) ELSE i
           ne == NameEnd(3)
           nm == QualName(T, 3, ne, <<>>)
       IN IF ~nm.ok THEN nm
          ELSE IF W(ne, "ADD") /\ W(ne + 1, "VALUE") THEN
            LET a == IF W(ne + 2, "IF") /\ W(ne + 3, "NOT") /\ W(ne + 4, "EXISTS") THEN ne + 5 ELSE ne + 2 IN
            IF Tk(T, a).k # "str" THEN GErr("add_value_label_not_a_string_literal")
            ELSE IF a = n THEN GOk([kind |-> "alter_type", name |-> nm.v, op |-> "add_value", value |-> T[a].v, place |-> "", ref |-> "", ine |-> a = ne + 5], n + 1)
            ELSE IF (W(a + 1, "BEFORE") \/ W(a + 1, "AFTER")) /\ a + 2 = n /\ T[n].k = "str" THEN GOk([kind |-> "alter_type", name |-> nm.v, op |-> "add_value", value |-> T[a].v, place |-> T[a + 1].u, ref |-> T[n].v, ine |-> a = ne + 5], n + 1)
            ELSE GErr("malformed_add_value")
          ELSE IF W(ne, "RENAME") /\ W(ne + 1, "TO") THEN
            (IF ne + 2 = n /\ T[n].k \in {"qid", "word"} THEN GOk([kind |-> "alter_type", name |-> nm.v, op |-> "rename_to", value |-> IF T[n].k = "qid" THEN T[n].v ELSE T[n].t, place |-> "", ref |-> ""], n + 1)
             ELSE GErr("rename_to_needs_an_identifier"))
          ELSE IF W(ne, "RENAME") /\ W(ne + 1, "VALUE") THEN
            (IF ne + 4 = n /\ T[ne + 2].k = "str" /\ W(ne + 3, "TO") /\ T[n].k = "str" THEN GOk([kind |-> "alter_type", name |-> nm.v, op |-> "rename_value", value |-> T[ne + 2].v, place |-> "TO", ref |-> T[n].v], n + 1)
             ELSE GErr("malformed_rename_value"))
          ELSE GErr("unknown_alter_type_action")
     ELSE GErr("unknown_ddl_statement")

(******************  data types each dialect defines  **********************)
\* does the type text (upper-cased token texts) name a type dialect B defines for abstract type t, with its parameters preserved?
Params2(p, s) == <<"(", NatToStr(p), ",", NatToStr(s), ")">>
Param1(n) == <<"(", NatToStr(n), ")">>
OptLen(t, f) == IF f \in DOMAIN t THEN Param1(t[f]) ELSE <<>>
OptPS(t) == IF "p" \in DOMAIN t /\ "s" \in DOMAIN t THEN Params2(t.p, t.s) ELSE <<>>
RECURSIVE TypeOk(_, _, _, _)
TypeOk(B, t, ty, autoinc) ==
  LET Is(names, suffix) == \E nm \in names : ty = nm \o suffix IN
  IF B = "mysql" THEN
    LET uns == IF t.k \in {"TinyUnsigned", "SmallUnsigned", "Unsigned", "BigUnsigned"} THEN <<"UNSIGNED">> ELSE <<>> IN
    CASE t.k = "Char" -> Is({<<"CHAR">>}, OptLen(t, "n"))
      [] t.k = "String" -> IF "n" \in DOMAIN t THEN Is({<<"VARCHAR">>}, Param1(t.n)) ELSE Len(ty) = 4 /\ ty[1] = "VARCHAR" /\ ty[2] = "("
      [] t.k = "Text" -> Is({<<"TEXT">>, <<"LONGTEXT">>, <<"MEDIUMTEXT">>}, <<>>)
      [] t.k \in {"TinyInteger", "TinyUnsigned"} -> Is({<<"TINYINT">>}, uns)
      [] t.k \in {"SmallInteger", "SmallUnsigned"} -> Is({<<"SMALLINT">>}, uns)
      [] t.k \in {"Integer", "Unsigned"} -> Is({<<"INT">>, <<"INTEGER">>}, uns)
      [] t.k \in {"BigInteger", "BigUnsigned"} -> Is({<<"BIGINT">>}, uns)
      [] t.k = "Float" -> Is({<<"FLOAT">>}, <<>>)
      [] t.k = "Double" -> Is({<<"DOUBLE">>, <<"DOUBLE", "PRECISION">>}, <<>>)
      [] t.k \in {"Decimal", "Money"} -> Is({<<"DECIMAL">>, <<"NUMERIC">>}, OptPS(t))
      [] t.k = "DateTime" -> Is({<<"DATETIME">>}, <<>>)
      [] t.k \in {"Timestamp", "TimestampWithTimeZone"} -> Is({<<"TIMESTAMP">>}, <<>>)
      [] t.k = "Time" -> Is({<<"TIME">>}, <<>>) [] t.k = "Date" -> Is({<<"DATE">>}, <<>>) [] t.k = "Year" -> Is({<<"YEAR">>}, <<>>)
      [] t.k = "Binary" -> Is({<<"BINARY">>}, Param1(t.n))
      [] t.k = "VarBinary" -> IF "n" \in DOMAIN t THEN Is({<<"VARBINARY">>}, Param1(t.n)) ELSE Len(ty) = 4 /\ ty[1] = "VARBINARY"
      [] t.k = "Blob" -> Is({<<"BLOB">>, <<"LONGBLOB">>}, <<>>)
      [] t.k = "Bit" -> Is({<<"BIT">>}, OptLen(t, "n")) [] t.k = "VarBit" -> Is({<<"BIT">>}, Param1(t.n))
      [] t.k = "Boolean" -> Is({<<"BOOL">>, <<"BOOLEAN">>, <<"TINYINT", "(", "1", ")">>}, <<>>)
      [] t.k \in {"Json", "JsonBinary"} -> Is({<<"JSON">>}, <<>>)
      [] t.k = "Uuid" -> Is({<<"BINARY", "(", "16", ")">>, <<"CHAR", "(", "36", ")">>}, <<>>)
      [] t.k = "Custom" -> ty = <<UpperStr(t.name)>>
      [] t.k = "Enum" -> Len(ty) >= 4 /\ ty[1] = "ENUM" /\ ty[2] = "(" /\ ty[Len(ty)] = ")" /\ [i \in 1..Len(t.variants) |-> ty[2 * i + 1]] = [i \in 1..Len(t.variants) |-> UpperStr(t.variants[i])] /\ Len(ty) = 2 * Len(t.variants) + 2
      [] OTHER -> TRUE
  ELSE
    CASE autoinc -> (t.k = "SmallInteger" /\ Is({<<"SMALLSERIAL">>}, <<>>)) \/ (t.k = "Integer" /\ Is({<<"SERIAL">>}, <<>>)) \/ (t.k = "BigInteger" /\ Is({<<"BIGSERIAL">>}, <<>>))
      [] t.k = "Char" -> Is({<<"CHAR">>, <<"CHARACTER">>}, OptLen(t, "n"))
      [] t.k = "String" -> Is({<<"VARCHAR">>, <<"CHARACTER", "VARYING">>}, OptLen(t, "n"))
      [] t.k = "Text" -> Is({<<"TEXT">>}, <<>>)
      [] t.k \in {"TinyInteger", "TinyUnsigned", "SmallInteger", "SmallUnsigned"} -> Is({<<"SMALLINT">>, <<"INT2">>}, <<>>)
      [] t.k \in {"Integer", "Unsigned"} -> Is({<<"INTEGER">>, <<"INT">>, <<"INT4">>}, <<>>)
      [] t.k \in {"BigInteger", "BigUnsigned"} -> Is({<<"BIGINT">>, <<"INT8">>}, <<>>)
      [] t.k = "Float" -> Is({<<"REAL">>, <<"FLOAT4">>}, <<>>)
      [] t.k = "Double" -> Is({<<"DOUBLE", "PRECISION">>, <<"FLOAT8">>}, <<>>)
      [] t.k = "Decimal" -> Is({<<"DECIMAL">>, <<"NUMERIC">>}, OptPS(t))
      [] t.k = "Money" -> Is({<<"MONEY">>}, <<>>) \/ Is({<<"DECIMAL">>, <<"NUMERIC">>}, OptPS(t))       \* PostgreSQL's money takes no parameters
      [] t.k = "DateTime" -> Is({<<"TIMESTAMP">>, <<"TIMESTAMP", "WITHOUT", "TIME", "ZONE">>}, <<>>)
      [] t.k = "Timestamp" -> Is({<<"TIMESTAMP">>, <<"TIMESTAMP", "WITHOUT", "TIME", "ZONE">>}, <<>>)
      [] t.k = "TimestampWithTimeZone" -> Is({<<"TIMESTAMP", "WITH", "TIME", "ZONE">>, <<"TIMESTAMPTZ">>}, <<>>)
      [] t.k = "Time" -> Is({<<"TIME">>}, <<>>) [] t.k = "Date" -> Is({<<"DATE">>}, <<>>)
      [] t.k \in {"Binary", "VarBinary", "Blob"} -> Is({<<"BYTEA">>}, <<>>)
      [] t.k = "Bit" -> Is({<<"BIT">>}, OptLen(t, "n")) [] t.k = "VarBit" -> Is({<<"VARBIT">>, <<"BIT", "VARYING">>}, Param1(t.n))
      [] t.k = "Boolean" -> Is({<<"BOOL">>, <<"BOOLEAN">>}, <<>>)
      [] t.k = "Json" -> Is({<<"JSON">>}, <<>>) [] t.k = "JsonBinary" -> Is({<<"JSONB">>}, <<>>) [] t.k = "Uuid" -> Is({<<"UUID">>}, <<>>)
      [] t.k = "Cidr" -> Is({<<"CIDR">>}, <<>>) [] t.k = "Inet" -> Is({<<"INET">>}, <<>>) [] t.k = "MacAddr" -> Is({<<"MACADDR">>}, <<>>) [] t.k = "LTree" -> Is({<<"LTREE">>}, <<>>)
      [] t.k \in {"Enum", "Custom"} -> ty = <<UpperStr(t.name)>>                   \* a user-defined type by its name
      [] t.k = "Array" -> Len(ty) >= 3 /\ ty[Len(ty) - 1] = "[" /\ ty[Len(ty)] = "]" /\ TypeOk(B, t.elem, SubSeq(ty, 1, Len(ty) - 2), FALSE)
      [] t.k = "Interval" -> Is({<<"INTERVAL">>}, OptLen(t, "n"))
      [] t.k = "Vector" -> Is({<<"VECTOR">>}, OptLen(t, "n"))
      [] OTHER -> TRUE
\* declarations dialect B has no form for (outside C14's domain for B)
\* a column prefix length (MySQL `col (n)`) among the columns of an index or key
HasPrefixCol(cs) == \E i \in DOMAIN cs : "p" \in DOMAIN cs[i]
Unsupported14(B, d) ==
  \* MySQL (8.0) has no ADD COLUMN IF NOT EXISTS
  (B = "mysql" /\ d.stmt = "table_alter" /\ \E i \in DOMAIN d.ops : d.ops[i].k = "add_column_if_not_exists") \/
  \* PostgreSQL has no prefix indexes (`"c" (8)` would be a call of a function c)
  (B = "pg" /\ ((d.stmt = "index_create" /\ HasPrefixCol(d.cols)) \/ (d.stmt = "table_create" /\ "indexes" \in DOMAIN d /\ \E i \in DOMAIN d.indexes : HasPrefixCol(d.indexes[i].cols)))) \/
  (d.stmt = "table_create" /\ B = "pg" /\ "indexes" \in DOMAIN d /\ \E i \in DOMAIN d.indexes : ~("primary" \in DOMAIN d.indexes[i] /\ d.indexes[i].primary) /\ ~("unique" \in DOMAIN d.indexes[i] /\ d.indexes[i].unique))
  \/ (d.stmt = "table_create" /\ B = "pg" /\ ("engine" \in DOMAIN d \/ "collate" \in DOMAIN d \/ "character_set" \in DOMAIN d))
  \* MySQL has no partial indexes, covering columns or NULLS NOT DISTINCT; the builder drops them silently there
  \/ (d.stmt = "index_create" /\ B = "mysql" /\ ("where" \in DOMAIN d \/ "include" \in DOMAIN d \/ ("nulls_not_distinct" \in DOMAIN d /\ d.nulls_not_distinct)))
  \* PostgreSQL (<= 17) has stored generated columns only
  \/ (B = "pg" /\ LET VirtualGen(c) == \E j \in DOMAIN c.specs : c.specs[j].k = "Generated" /\ ~c.specs[j].stored IN
        (d.stmt = "table_create" /\ \E i \in DOMAIN d.cols : VirtualGen(d.cols[i]))
        \/ (d.stmt = "table_alter" /\ \E i \in DOMAIN d.ops : "col" \in DOMAIN d.ops[i] /\ VirtualGen(d.ops[i].col)))
DialectHasType(B, t) ==
  IF B = "mysql" THEN t.k \notin {"Interval", "Array", "Vector", "Cidr", "Inet", "MacAddr", "LTree"}
  ELSE t.k \notin {"Year"}
=============================================================================
