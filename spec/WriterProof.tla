---------------------------- MODULE WriterProof ----------------------------
(***************************************************************************)
(* Unbounded safety of the writer automaton of Writer.tla: the C01(a)      *)
(* invariant is inductive, for any set of fragments and values, any length *)
(* of build and either placeholder style.  Checked by TLAPS (tlapm); the   *)
(* bounded TLC check of Writer.tla is the same statement with MaxLen.      *)
(* The text of a placeholder is abstracted to an operator MarkText(n).     *)
(***************************************************************************)
EXTENDS Naturals, Sequences, TLAPS
CONSTANTS Frags, Vals, MarkText(_)
VARIABLES out, counter, values, phs
vars == <<out, counter, values, phs>>

Init == out = <<>> /\ counter = 0 /\ values = <<>> /\ phs = <<>>
Write(f) == out' = Append(out, f) /\ UNCHANGED <<counter, values, phs>>
PushParam(v) ==
  /\ counter' = counter + 1
  /\ out' = Append(out, MarkText(counter + 1))
  /\ values' = Append(values, v)
  /\ phs' = Append(phs, counter + 1)
Next == (\E f \in Frags : Write(f)) \/ (\E v \in Vals : PushParam(v))
Spec == Init /\ [][Next]_vars

TypeOK == /\ counter \in Nat
          /\ values \in Seq(Vals)
          /\ phs \in Seq(Nat)
WriterInv == /\ counter = Len(values)
             /\ Len(phs) = Len(values)
             /\ \A i \in 1..Len(phs) : phs[i] = i
Inv == TypeOK /\ WriterInv

LEMMA InitInv == Init => Inv
  BY DEF Init, Inv, TypeOK, WriterInv

LEMMA NextInv == Inv /\ [Next]_vars => Inv'
<1> SUFFICES ASSUME Inv, [Next]_vars PROVE Inv'
  OBVIOUS
<1>1. CASE UNCHANGED vars
  BY <1>1 DEF Inv, TypeOK, WriterInv, vars
<1>2. ASSUME NEW f \in Frags, Write(f) PROVE Inv'
  BY <1>2 DEF Inv, TypeOK, WriterInv, Write
<1>3. ASSUME NEW v \in Vals, PushParam(v) PROVE Inv'
  <2>1. counter' \in Nat /\ values' \in Seq(Vals) /\ phs' \in Seq(Nat)
    BY <1>3 DEF Inv, TypeOK, PushParam
  <2>2. Len(values') = Len(values) + 1 /\ Len(phs') = Len(phs) + 1
    BY <1>3 DEF Inv, TypeOK, PushParam
  <2>3. counter' = Len(values') /\ Len(phs') = Len(values')
    BY <1>3, <2>2 DEF Inv, TypeOK, WriterInv, PushParam
  <2>4. \A i \in 1..Len(phs') : phs'[i] = i
    <3> SUFFICES ASSUME NEW i \in 1..Len(phs') PROVE phs'[i] = i
      OBVIOUS
    <3>1. CASE i <= Len(phs)
      BY <3>1, <1>3 DEF Inv, TypeOK, WriterInv, PushParam
    <3>2. CASE i = Len(phs) + 1
      BY <3>2, <1>3 DEF Inv, TypeOK, WriterInv, PushParam
    <3> QED BY <3>1, <3>2, <2>2 DEF Inv, TypeOK
  <2> QED BY <2>1, <2>3, <2>4 DEF Inv, TypeOK, WriterInv
<1> QED BY <1>1, <1>2, <1>3 DEF Next

THEOREM Safety == Spec => []Inv
<1>1. Init => Inv BY InitInv
<1>2. Inv /\ [Next]_vars => Inv' BY NextInv
<1> QED BY <1>1, <1>2, PTL DEF Spec
=============================================================================
