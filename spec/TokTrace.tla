------------------------------ MODULE TokTrace ------------------------------
(* Trace validation for C16: every recorded (input, token list) of the real *)
(* Tokenizer must satisfy TokenizerAbs (verdict) and is compared with the   *)
(* implementation-level model (exactness, informational).                   *)
EXTENDS Tokenizer, IOUtils, TLCExt

Rec == ndJsonDeserialize(IOEnv.TRACE)
VARIABLE l
Init == l = 1

TokList(r) == [i \in 1..Len(r.obs.r.toks) |-> [k |-> r.obs.r.toks[i].k, t |-> r.obs.r.toks[i].t]]

Verdict(r) ==
  LET toks == TokList(r)
      keys == AbsReasons(r.s, toks)
      model == Tokenize(r.s, r.al)
      exact == /\ toks = model
               /\ \A i \in 1..Len(r.obs.r.toks) :
                     r.obs.r.toks[i].k = "Quoted" => r.obs.r.toks[i].hu /\ r.obs.r.toks[i].u = Unquote(r.obs.r.toks[i].t)
  IN [id |-> r.id, keys |-> keys, exact |-> exact, nt |-> HasQuoteOrMark(r.s)]

Step == /\ l <= Len(Rec)
        /\ PrintT(<<"R", ToJson(Verdict(Rec[l]))>>)
        /\ l' = l + 1
Spec == Init /\ [][Step]_l
AllConsumed == TLCGet("stats").diameter = Len(Rec) + 1
=============================================================================
