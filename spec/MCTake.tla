------------------------------- MODULE MCTake -------------------------------
(* State space of the two-register builder machine: every history of <=     *)
(* MaxCalls steps over one representative call per SelectStatement field,   *)
(* take, clone and the clear / reset operations, on either register.        *)
EXTENDS Take, FiniteSets
CONSTANT MaxCalls
Menu == JsonDeserialize("take_menu.json")
Clear(op) == [op |-> op]
Actions ==
  {Menu[i] : i \in DOMAIN Menu}
  \cup {Menu[i] @@ [reg |-> 2] : i \in DOMAIN Menu}
  \cup {[op |-> "take"], [op |-> "clone"]}
  \cup {Clear(o) : o \in ClearOps} \cup {Clear(o) @@ [reg |-> 2] : o \in ClearOps}
VARIABLES R, hist
vars == <<R, hist>>
Init == R = InitRegs /\ hist = <<>>
Next == Len(hist) < MaxCalls /\ \E c \in Actions : R' = StepRegs(R, c) /\ hist' = Append(hist, c)
Spec == Init /\ [][Next]_vars

\* the histories rebuild the registers (what the replay's reference statements rely on)
HistoriesRebuild == ApplyAll(NewSelect, R.h1, 1) = R.m1 /\ ApplyAll(NewSelect, R.h2, 1) = R.m2
\* a step addressed to one register never changes the other (value semantics)
NonInterference ==
  [][ LET c == hist'[Len(hist')] IN
      (c.op \notin {"take", "clone"}) =>
        IF "reg" \in DOMAIN c /\ c.reg = 2 THEN R'.m1 = R.m1 ELSE R'.m2 = R.m2 ]_vars
TakeLeavesNew == (Len(hist) > 0 /\ hist[Len(hist)].op = "take") => R.m1 = NewSelect
CloneEqual == (Len(hist) > 0 /\ hist[Len(hist)].op = "clone") => R.m2 = R.m1
\* refs: for every clear step on register 1, the calls that rebuild the cleared statement
RECURSIVE RefsOf(_, _)
RefsOf(calls, n) ==
  IF n = 0 THEN <<>>
  ELSE RefsOf(calls, n - 1) \o
       (IF calls[n].op \in ClearOps /\ ~("reg" \in DOMAIN calls[n]) THEN <<[step |-> n, calls |-> RegsAfter(calls, n).h1]>> ELSE <<>>)
Emit == Len(hist) = 0 \/ PrintT(<<"CASE", ToJson([calls |-> hist, refs |-> RefsOf(hist, Len(hist))])>>)
=============================================================================
