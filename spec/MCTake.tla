------------------------------- MODULE MCTake -------------------------------
(* State space of the two-register builder machine for one statement kind:  *)
(* every history of <= MaxCalls steps over one representative call per      *)
(* field of the builder, take (where the builder has it), clone and the     *)
(* clear / reset operations, on either register.                            *)
EXTENDS Take, FiniteSets
CONSTANTS MaxCalls, Kind
Menu == JsonDeserialize("take_menu.json")[Kind]
Clear(op) == [op |-> op]
Actions ==
  {Menu[i] : i \in DOMAIN Menu}
  \cup {Menu[i] @@ [reg |-> 2] : i \in DOMAIN Menu}
  \cup (IF HasTake(Kind) THEN {[op |-> "take"]} ELSE {}) \cup {[op |-> "clone"]}
  \cup {Clear(o) : o \in ClearOpsOf(Kind)} \cup {Clear(o) @@ [reg |-> 2] : o \in ClearOpsOf(Kind)}
VARIABLES R, hist
vars == <<R, hist>>
Init == R = InitRegsK(Kind) /\ hist = <<>>
Next == Len(hist) < MaxCalls /\ \E c \in Actions : R' = StepRegsK(Kind, R, c) /\ hist' = Append(hist, c)
Spec == Init /\ [][Next]_vars

\* the histories rebuild the registers (what the replay's reference statements rely on)
HistoriesRebuild == ApplyAll(NewOf(Kind), R.h1, 1) = R.m1 /\ ApplyAll(NewOf(Kind), R.h2, 1) = R.m2
\* a step addressed to one register never changes the other (value semantics)
NonInterference ==
  [][ LET c == hist'[Len(hist')] IN
      (c.op \notin {"take", "clone"}) =>
        IF "reg" \in DOMAIN c /\ c.reg = 2 THEN R'.m1 = R.m1 ELSE R'.m2 = R.m2 ]_vars
TakeLeavesNew == (Len(hist) > 0 /\ hist[Len(hist)].op = "take") => R.m1 = NewOf(Kind)
CloneEqual == (Len(hist) > 0 /\ hist[Len(hist)].op = "clone") => R.m2 = R.m1
\* a clear operation changes nothing but its own clause
ClearOnlyThatClause ==
  [][ LET c == hist'[Len(hist')] IN
      (c.op \in ClearOps /\ ~("reg" \in DOMAIN c)) => R'.m1 = ApplyAll(NewOf(Kind), Without(R.h1, c.op), 1) ]_vars
\* refs: for every clear step on register 1, the calls that rebuild the cleared statement
RECURSIVE RefsOf(_, _)
RefsOf(calls, n) ==
  IF n = 0 THEN <<>>
  ELSE RefsOf(calls, n - 1) \o
       (IF calls[n].op \in ClearOps /\ ~("reg" \in DOMAIN calls[n]) THEN <<[step |-> n, calls |-> RegsAfterK(Kind, calls, n).h1]>> ELSE <<>>)
Emit == Len(hist) = 0 \/ PrintT(<<"CASE", ToJson([kind |-> Kind, calls |-> hist, refs |-> RefsOf(hist, Len(hist))])>>)
=============================================================================
