------------------------------ MODULE SchemaLaw ------------------------------
(***************************************************************************)
(* C14: DdlReasons(B, d, sql) — why the MySQL / PostgreSQL rendering sql   *)
(* is not a complete, well-formed statement for the declaration d: every   *)
(* column once with one type the dialect defines (parameters preserved)    *)
(* and each specification once, table-level indexes / foreign keys /       *)
(* checks, in declaration order, correctly separated.                      *)
(***************************************************************************)
EXTENDS EngineDDL, SqliteCatalog

\* the type-setting methods of ColumnDef (column_methods.json): the type each is documented to set
ColMethod == JsonDeserialize("column_methods.json")
ColMethodOk(c) ==
  "m" \notin DOMAIN c \/
  ("type" \in DOMAIN c /\ c.m \in DOMAIN ColMethod /\
   LET t == ColMethod[c.m] IN
     /\ t.k = c.type.k
     /\ \A i \in DOMAIN t.need : t.need[i] \in DOMAIN c.type
     /\ \A i \in DOMAIN t.forbid : t.forbid[i] \notin DOMAIN c.type
     /\ (c.m = "binary" => c.type.n = 1))
DeclMethodsOk(d) ==
  \* "wheres": an index predicate given in two and_where calls; "where" must be their conjunction
  /\ ("wheres" \in DOMAIN d => "where" \in DOMAIN d /\ Len(d.wheres) = 2 /\ d.where.k = "bin" /\ d.where.op = "And" /\ d.where.l = d.wheres[1] /\ d.where.r = d.wheres[2])
  /\ ("cols" \in DOMAIN d => \A i \in DOMAIN d.cols : ColMethodOk(d.cols[i]))
  /\ ("ops" \in DOMAIN d => \A i \in DOMAIN d.ops : "col" \in DOMAIN d.ops[i] => ColMethodOk(d.ops[i].col))

UpSeq(ss) == [i \in DOMAIN ss |-> UpperStr(ss[i])]
\* specifications dialect B shows for a declared column, in declaration order
ExpSpecs(B, c) ==
  LET keep == SelectSeq(c.specs, LAMBDA s : ~(s.k = "AutoIncrement" /\ B = "pg") /\ ~(s.k = "Comment" /\ B = "pg")) IN
  [i \in DOMAIN keep |->
     CASE keep[i].k = "Default" -> [k |-> "Default", e |-> CanonVal(keep[i].v)]
       [] keep[i].k = "Check" -> [k |-> "Check", e |-> Canon(B, keep[i].e)]
       [] keep[i].k = "Comment" -> [k |-> "Comment", s |-> keep[i].s]
       [] keep[i].k = "Generated" -> [k |-> "Generated", e |-> Canon(B, keep[i].e), stored |-> keep[i].stored]
       [] OTHER -> [k |-> keep[i].k]]
ColumnReasons(B, c, p) ==
  IF p.kind # "column" THEN {"column_expected:" \o c.name}
  ELSE (IF p.name = c.name THEN {} ELSE {"column_name_differs"})
       \cup (IF "type" \notin DOMAIN c THEN (IF Len(p.type) = 0 THEN {} ELSE {"type_not_declared"})
             ELSE IF ~DialectHasType(B, c.type) THEN {"?dialect_lacks_type"}
             ELSE IF Len(p.type) = 0 THEN {"type_missing:" \o c.type.k}
             ELSE IF TypeOk(B, c.type, UpSeq(p.type), HasSpec(c, "AutoIncrement")) THEN {} ELSE {"type_not_the_dialects:" \o c.type.k})
       \cup (IF p.specs = ExpSpecs(B, c) THEN {} ELSE {"column_specifications_differ"})
FkRest(f) ==
  LET A(a) == CASE a = "Restrict" -> <<"RESTRICT">> [] a = "Cascade" -> <<"CASCADE">> [] a = "SetNull" -> <<"SET", "NULL">> [] a = "SetDefault" -> <<"SET", "DEFAULT">> [] OTHER -> <<"NO", "ACTION">> IN
  (IF "on_delete" \in DOMAIN f THEN <<"ON", "DELETE">> \o A(f.on_delete) ELSE <<>>) \o (IF "on_update" \in DOMAIN f THEN <<"ON", "UPDATE">> \o A(f.on_update) ELSE <<>>)
FkElem(f) == [kind |-> "fk", name |-> IF "name" \in DOMAIN f THEN f.name ELSE "", from |-> f.from_cols, table |-> <<f.to_table>>, to |-> f.to_cols, rest |-> FkRest(f)]
IdxColsExp(B, cs) == [i \in DOMAIN cs |-> [n |-> cs[i].n, o |-> IF "o" \in DOMAIN cs[i] THEN UpperStr(cs[i].o) ELSE "",
                                            pfx |-> IF "p" \in DOMAIN cs[i] /\ B = "mysql" THEN <<NatToStr(cs[i].p)>> ELSE <<>>]]
IndexElem(B, x) == [kind |-> IF "primary" \in DOMAIN x /\ x.primary THEN "primary" ELSE IF "unique" \in DOMAIN x /\ x.unique THEN "unique" ELSE "index",
                 name |-> IF "name" \in DOMAIN x THEN x.name ELSE "", cols |-> IdxColsExp(B, x.cols)]
StripRest(p) == [kind |-> p.kind, name |-> p.name, cols |-> p.cols]
\* MySQL writes the index type of a table-level key (USING BTREE / HASH after the name; FULLTEXT as a prefix)
IndexTypeOk(B, x, p) ==
  LET ty == IF "index_type" \in DOMAIN x THEN x.index_type ELSE "" IN
  p.kind = "primary" \/ B # "mysql" \/
  (p.using = (CASE ty = "BTree" -> "BTREE" [] ty = "Hash" -> "HASH" [] OTHER -> "") /\ p.fulltext = (ty = "FullText"))

\* the table options the text after the element list declares (MySQL: COMMENT, ENGINE, COLLATE,
\* [DEFAULT] CHARSET | CHARACTER SET, each with an optional "="), as a sequence of <<name, value>>
RECURSIVE ParseOpts(_, _)
ParseOpts(o, i) ==
  LET n == Len(o)
      OVal(j) == IF j <= n /\ o[j] = "=" THEN j + 1 ELSE j
      OOne(name, j) == IF OVal(j) > n THEN <<<<"?", name>>>> ELSE <<<<name, o[OVal(j)]>>>> \o ParseOpts(o, OVal(j) + 1)
  IN IF i > n THEN <<>>
     ELSE IF o[i] \in {"COMMENT", "ENGINE", "COLLATE", "CHARSET"} THEN OOne(o[i], i + 1)
     ELSE IF o[i] = "CHARACTER" /\ i < n /\ o[i + 1] = "SET" THEN OOne("CHARSET", i + 2)
     ELSE IF o[i] = "DEFAULT" /\ i < n /\ o[i + 1] \in {"CHARSET", "CHARACTER", "COLLATE"} THEN ParseOpts(o, i + 1)
     ELSE <<<<"?", o[i]>>>> \o ParseOpts(o, i + 1)
ExpOpts(B, d) ==
  (IF B = "mysql" /\ "comment" \in DOMAIN d THEN {<<"COMMENT", d.comment>>} ELSE {})
  \cup (IF "engine" \in DOMAIN d THEN {<<"ENGINE", UpperStr(d.engine)>>} ELSE {})
  \cup (IF "collate" \in DOMAIN d THEN {<<"COLLATE", UpperStr(d.collate)>>} ELSE {})
  \cup (IF "character_set" \in DOMAIN d THEN {<<"CHARSET", UpperStr(d.character_set)>>} ELSE {})
OptionReasons(B, d, p) ==
  LET po == ParseOpts(p.options, 1) IN
  IF {po[i] : i \in DOMAIN po} = ExpOpts(B, d) /\ Len(po) = Cardinality(ExpOpts(B, d)) THEN {} ELSE {"table_options_differ"}

CreateTableReasons(B, d, p) ==
  IF p.kind # "create_table" THEN {"not_a_create_table"}
  ELSE LET ix == IF "indexes" \in DOMAIN d THEN d.indexes ELSE <<>>
           fk == IF "fks" \in DOMAIN d THEN d.fks ELSE <<>>
           ck == IF "checks" \in DOMAIN d THEN d.checks ELSE <<>>
           nc == Len(d.cols)  ni == Len(ix)  nf == Len(fk)  nk == Len(ck)
       IN (IF p.name = <<d.table>> THEN {} ELSE {"table_name_differs"})
          \cup (IF p.if_not_exists = ("if_not_exists" \in DOMAIN d /\ d.if_not_exists) THEN {} ELSE {"if_not_exists_differs"})
          \cup OptionReasons(B, d, p)
          \cup (IF Len(p.elems) # nc + ni + nf + nk THEN {"element_count_differs"}
                ELSE UNION {ColumnReasons(B, d.cols[i], p.elems[i]) : i \in 1..nc}
                     \cup (IF \A i \in 1..ni : p.elems[nc + i].kind \in {"primary", "unique", "index"} /\ StripRest(p.elems[nc + i]) = IndexElem(B, ix[i]) /\ IndexTypeOk(B, ix[i], p.elems[nc + i]) THEN {} ELSE {"table_indexes_differ"})
                     \* a table constraint has no predicate in either dialect (only CREATE INDEX takes WHERE)
                     \cup (IF \E i \in 1..ni : "rest" \in DOMAIN p.elems[nc + i] /\ \E j \in DOMAIN p.elems[nc + i].rest : p.elems[nc + i].rest[j] = "WHERE" THEN {"table_constraint_with_predicate"} ELSE {})
                     \cup (IF \A i \in 1..nf : p.elems[nc + ni + i] = FkElem(fk[i]) THEN {} ELSE {"foreign_keys_differ"})
                     \cup (IF \A i \in 1..nk : p.elems[nc + ni + nf + i] = [kind |-> "check", e |-> Canon(B, ck[i])] THEN {} ELSE {"checks_differ"}))

\* actions dialect B needs for the declared ALTER options, in order
ExpActions(B, d) ==
  FlatSeq([i \in DOMAIN d.ops |->
    LET o == d.ops[i] IN
    CASE o.k \in {"add_column", "add_column_if_not_exists"} -> <<[k |-> "add_column", col |-> o.col, ine |-> o.k = "add_column_if_not_exists"]>>
      [] o.k = "modify_column" ->
           IF B = "mysql" THEN <<[k |-> "modify_column", col |-> o.col]>>
           ELSE (IF "type" \in DOMAIN o.col THEN <<[k |-> "alter_type", name |-> o.col.name, type |-> o.col.type]>> ELSE <<>>)
                \o FlatSeq([j \in DOMAIN o.col.specs |->
                      CASE o.col.specs[j].k = "NotNull" -> <<[k |-> "set_not_null", name |-> o.col.name]>>
                        [] o.col.specs[j].k = "Null" -> <<[k |-> "drop_not_null", name |-> o.col.name]>>
                        [] o.col.specs[j].k = "Default" -> <<[k |-> "set_default", name |-> o.col.name, e |-> CanonVal(o.col.specs[j].v)]>>
                        [] o.col.specs[j].k = "Unique" -> <<[k |-> "add_constraint", c |-> [kind |-> "unique", name |-> "", cols |-> <<[n |-> o.col.name, o |-> "", pfx |-> <<>>]>>]]>>
                        [] o.col.specs[j].k = "PrimaryKey" -> <<[k |-> "add_constraint", c |-> [kind |-> "primary", name |-> "", cols |-> <<[n |-> o.col.name, o |-> "", pfx |-> <<>>]>>]]>>
                        [] o.col.specs[j].k = "Check" -> <<[k |-> "add_constraint", c |-> [kind |-> "check", e |-> Canon(B, o.col.specs[j].e)]]>>
                        [] OTHER -> <<>>])
      [] o.k = "rename_column" -> <<[k |-> "rename_column", from |-> o.from, to |-> o.to]>>
      [] o.k = "drop_column" -> <<[k |-> "drop_column", name |-> o.name]>>
      [] o.k = "add_fk" -> <<[k |-> "add_constraint", c |-> FkElem(o.fk)]>>
      [] o.k = "drop_fk" -> <<[k |-> "drop_fk", name |-> o.name]>>])
ActionReasons(B, x, p) ==
  IF x.k # p.k THEN {"alter_action_differs:" \o x.k}
  ELSE CASE x.k = "add_column" -> ColumnReasons(B, x.col, p.col) \cup (IF p.ine = x.ine THEN {} ELSE {"add_column_if_not_exists_differs"})
         [] x.k = "modify_column" -> ColumnReasons(B, x.col, p.col)
         [] x.k = "alter_type" -> IF ~DialectHasType(B, x.type) THEN {"?dialect_lacks_type"} ELSE IF p.name = x.name /\ TypeOk(B, x.type, UpSeq(p.type), FALSE) THEN {} ELSE {"alter_type_differs"}
         [] x.k = "add_constraint" -> IF (IF "rest" \in DOMAIN p.c /\ p.c.kind # "fk" THEN StripRest(p.c) ELSE p.c) = x.c THEN {} ELSE {"added_constraint_differs"}
         [] OTHER -> IF p = x THEN {} ELSE {"alter_action_differs:" \o x.k}

DdlReasons(B, d, sql) ==
  LET pr == ParseDDL(B, sql) IN
  IF ~pr.ok THEN {"rejected:" \o pr.why}
  ELSE LET p == pr.v IN
    CASE d.stmt = "table_create" -> CreateTableReasons(B, d, p)
      [] d.stmt = "table_alter" ->
           IF p.kind # "alter_table" THEN {"not_an_alter_table"}
           ELSE LET xs == ExpActions(B, d) IN
             (IF p.name = <<d.table>> THEN {} ELSE {"table_name_differs"})
             \cup (IF Len(xs) # Len(p.actions) THEN {"alter_action_count_differs"} ELSE UNION {ActionReasons(B, xs[i], p.actions[i]) : i \in DOMAIN xs})
      [] d.stmt = "table_rename" -> IF p.kind = "rename_table" /\ p.from = <<d.from>> /\ p.to = <<d.to>> THEN {} ELSE {"rename_differs"}
      [] d.stmt = "table_drop" -> IF p.kind = "drop_table" /\ p.names = [i \in DOMAIN d.tables |-> <<d.tables[i]>>] /\ p.if_exists = ("if_exists" \in DOMAIN d /\ d.if_exists)
                                     /\ (p.opt = "CASCADE") = ("cascade" \in DOMAIN d /\ d.cascade) THEN {} ELSE {"drop_table_differs"}
      [] d.stmt = "table_truncate" -> IF p.kind = "truncate" /\ p.name = <<d.table>> THEN {} ELSE {"truncate_differs"}
      [] d.stmt = "index_create" ->
           IF p.kind # "create_index" THEN {"not_a_create_index"}
           ELSE (IF p.name = d.name /\ p.table = <<d.table>> THEN {} ELSE {"index_name_or_table_differs"})
                \cup (IF p.cols = IdxColsExp(B, d.cols) THEN {} ELSE {"index_columns_differ"})
                \cup (IF p.unique = ("unique" \in DOMAIN d /\ d.unique) THEN {} ELSE {"index_uniqueness_differs"})
                \cup (IF p.if_not_exists = ("if_not_exists" \in DOMAIN d /\ d.if_not_exists /\ B = "pg") THEN {} ELSE {"if_not_exists_differs"})
                \cup (LET ty == IF "index_type" \in DOMAIN d THEN d.index_type ELSE ""
                          wantUsing == CASE ty = "BTree" -> "BTREE" [] ty = "Hash" -> "HASH" [] ty = "FullText" -> (IF B = "pg" THEN "GIN" ELSE "") [] OTHER -> ""
                      IN (IF p.using = wantUsing THEN {} ELSE {"index_type_differs"})
                         \cup (IF p.fulltext = (B = "mysql" /\ ty = "FullText") THEN {} ELSE {"index_type_differs"}))
                \cup (IF p.include = (IF "include" \in DOMAIN d THEN d.include ELSE <<>>) THEN {} ELSE {"index_include_columns_differ"})
                \cup (IF p.nnd = ("nulls_not_distinct" \in DOMAIN d /\ d.nulls_not_distinct) THEN {} ELSE {"index_nulls_not_distinct_differs"})
                \cup (IF p.where = (IF "where" \in DOMAIN d THEN Canon(B, d.where) ELSE [k |-> "none"]) THEN {} ELSE {"index_predicate_differs"})
      [] d.stmt = "index_drop" -> IF p.kind = "drop_index" /\ p.name = d.name /\ (B = "pg" \/ p.table = <<d.table>>)
                                     /\ (B # "pg" \/ p.qual = (IF "schema" \in DOMAIN d THEN <<d.schema, d.name>> ELSE <<d.name>>))
                                     /\ p.if_exists = ("if_exists" \in DOMAIN d /\ d.if_exists) THEN {} ELSE {"drop_index_differs"}
      [] d.stmt = "fk_create" -> IF p.kind = "alter_table" /\ p.name = <<d.from_table>> /\ Len(p.actions) = 1 /\ p.actions[1] = [k |-> "add_constraint", c |-> FkElem(d)] THEN {} ELSE {"foreign_key_differs"}
      [] d.stmt = "fk_drop" -> IF p.kind = "alter_table" /\ p.name = <<d.table>> /\ p.actions = <<[k |-> "drop_fk", name |-> d.name]>> THEN {} ELSE {"drop_foreign_key_differs"}
      [] d.stmt = "type_create" -> IF p.kind = "create_type" /\ p.name = <<d.name>> /\ p.labels = d.values THEN {} ELSE {"create_type_differs"}
      [] d.stmt = "type_drop" -> IF p.kind = "drop_type" /\ p.names = <<<<d.name>>>> /\ p.if_exists = ("if_exists" \in DOMAIN d /\ d.if_exists) THEN {} ELSE {"drop_type_differs"}
      [] d.stmt = "extension_create" ->
           IF p.kind = "create_extension" /\ p.name = d.name /\ p.if_not_exists = ("if_not_exists" \in DOMAIN d /\ d.if_not_exists)
              /\ p.schema = (IF "schema" \in DOMAIN d THEN d.schema ELSE "") /\ p.version = (IF "version" \in DOMAIN d THEN d.version ELSE "")
              /\ p.cascade = ("cascade" \in DOMAIN d /\ d.cascade) THEN {} ELSE {"create_extension_differs"}
      [] d.stmt = "extension_drop" ->
           IF p.kind = "drop_extension" /\ p.name = d.name /\ p.if_exists = ("if_exists" \in DOMAIN d /\ d.if_exists)
              /\ p.opt = (IF "cascade" \in DOMAIN d /\ d.cascade THEN "CASCADE" ELSE IF "restrict" \in DOMAIN d /\ d.restrict THEN "RESTRICT" ELSE "") THEN {} ELSE {"drop_extension_differs"}
      [] d.stmt = "type_alter" ->
           IF p.kind # "alter_type" \/ p.name # <<d.name>> \/ p.op # d.op THEN {"alter_type_differs"}
           ELSE IF d.op = "add_value" THEN (IF p.value = d.value /\ p.ref = (IF "before" \in DOMAIN d THEN d.before ELSE IF "after" \in DOMAIN d THEN d.after ELSE "")
                                                 /\ p.place = (IF "before" \in DOMAIN d THEN "BEFORE" ELSE IF "after" \in DOMAIN d THEN "AFTER" ELSE "")
                                                 /\ p.ine = ("if_not_exists" \in DOMAIN d /\ d.if_not_exists) THEN {} ELSE {"alter_type_differs"})
           ELSE IF d.op = "rename_to" THEN (IF p.value = d.value THEN {} ELSE {"alter_type_differs"})
           ELSE (IF p.value = d.value /\ p.ref = d.to THEN {} ELSE {"alter_type_differs"})
=============================================================================
