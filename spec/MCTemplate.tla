----------------------------- MODULE MCTemplate -----------------------------
(* Design check for C11: for every template assembled from <= MaxItems     *)
(* items, the token loop of CustomWithExpr expands exactly the             *)
(* placeholders TemplateAbs defines.                                       *)
EXTENDS Template, FiniteSets
CONSTANTS MaxItems, NVals
Items == JsonDeserialize("tpl_items.json")       \* sequence of [s, al]
K == Len(Items)
ItemS == [i \in 1..K |-> Items[i].s]
ItemA == [i \in 1..K |-> Items[i].al]
VARIABLE w
Init == w \in Words(K, MaxItems)
Next == UNCHANGED w
Spec == Init /\ [][Next]_w
Tpl == StrOf(ItemS, w)
Al  == StrOf(ItemA, w)
Backends == {"mysql", "pg", "sqlite"}
Viol == {B \in Backends : InDomain(B, Tpl, Al, NVals) /\ ExpandImpl(B, Tpl, Al) # ExpandAbs(B, Tpl, Al)}
Check == Viol = {} \/ PrintT(<<"MV", ToJson([w |-> w, where |-> Viol])>>)
Emit == PrintT(<<"CASE", ToJson(w)>>)
=============================================================================
