------------------------------ MODULE MCValueEq ------------------------------
(* Laws of C18 on the model, over all triples of the pool. *)
EXTENDS ValueEq, Json
Pool == JsonDeserialize("valeq_pool.json")     \* sequence of names (written by the driver from the harness's pool)
N == Len(Pool)
VARIABLES a, b, c
Init == a \in 1..N /\ b \in 1..N /\ c \in 1..N
Next == UNCHANGED <<a, b, c>>
Spec == Init /\ [][Next]_<<a, b, c>>
Reflexive == Eq(Pool[a], Pool[a])
Symmetric == Eq(Pool[a], Pool[b]) = Eq(Pool[b], Pool[a])
Transitive == (Eq(Pool[a], Pool[b]) /\ Eq(Pool[b], Pool[c])) => Eq(Pool[a], Pool[c])
VariantsNeverEqual == VariantOfName(Pool[a]) # VariantOfName(Pool[b]) => ~Eq(Pool[a], Pool[b])
EqualHashEqually == Eq(Pool[a], Pool[b]) => HashKey(Pool[a]) = HashKey(Pool[b])
=============================================================================
