---------------------------- MODULE EngineGrammar ----------------------------
(***************************************************************************)
(* Clause-level grammars of the query statements of MySQL 8.0, PostgreSQL  *)
(* >= 15 and SQLite 3.40 for the subset sea-query can emit (DESIGN.md      *)
(* Appendix C.3), written from the reference manuals: ParseStmt(B, sql)    *)
(* returns the abstract statement an engine of dialect B reads — clause by *)
(* clause, items in order, expressions as EnginePrec trees — or a reject   *)
(* with a reason (clause out of grammar order, duplicate clause, malformed *)
(* item).  Independent of sea-query's source.                              *)
(***************************************************************************)
EXTENDS EnginePrec

NoneG == [k |-> "none"]
GOk(v, i) == [ok |-> TRUE, v |-> v, i |-> i]
GErr(why) == [ok |-> FALSE, why |-> why]

(****************************  multi-word keywords  ************************)
W3 == { <<"FOR", "ORDER", "BY">>, <<"FOR", "GROUP", "BY">>,      \* scope of a MySQL index hint, not a clause
        <<"FULL", "OUTER", "JOIN">>, <<"DO", "UPDATE", "SET">>, <<"ON", "DUPLICATE", "KEY">>, <<"FOR", "KEY", "SHARE">> }
W2 == { <<"FOR", "JOIN">>, <<"GROUP", "BY">>, <<"ORDER", "BY">>, <<"PARTITION", "BY">>, <<"LEFT", "JOIN">>, <<"RIGHT", "JOIN">>, <<"INNER", "JOIN">>,
        <<"CROSS", "JOIN">>, <<"UNION", "ALL">>, <<"NOT", "MATERIALIZED">>, <<"ON", "CONFLICT">>, <<"DO", "NOTHING">>,
        <<"DEFAULT", "VALUES">>, <<"FOR", "UPDATE">>, <<"FOR", "SHARE">>, <<"SKIP", "LOCKED">>, <<"NULLS", "FIRST">>,
        <<"NULLS", "LAST">>, <<"INSERT", "INTO">>, <<"REPLACE", "INTO">>, <<"DELETE", "FROM">>, <<"DISTINCT", "ON">>,
        <<"UNBOUNDED", "PRECEDING">>, <<"UNBOUNDED", "FOLLOWING">>, <<"CURRENT", "ROW">> }
IsWordU(T, i, u) == i <= Len(T) /\ T[i].k = "word" /\ T[i].u = u
RECURSIVE Fuse(_, _)
Fuse(T, i) ==
  IF i > Len(T) THEN <<>>
  ELSE IF T[i].k = "word" /\ i + 3 <= Len(T) /\ T[i].u = "FOR" /\ IsWordU(T, i + 1, "NO") /\ IsWordU(T, i + 2, "KEY") /\ IsWordU(T, i + 3, "UPDATE")
       THEN <<[T[i] EXCEPT !.u = "FOR NO KEY UPDATE"]>> \o Fuse(T, i + 4)
  ELSE IF T[i].k = "word" /\ i + 2 <= Len(T) /\ T[i + 1].k = "word" /\ T[i + 2].k = "word" /\ <<T[i].u, T[i + 1].u, T[i + 2].u>> \in W3
       THEN <<[T[i] EXCEPT !.u = T[i].u \o " " \o T[i + 1].u \o " " \o T[i + 2].u]>> \o Fuse(T, i + 3)
  ELSE IF T[i].k = "word" /\ i + 1 <= Len(T) /\ T[i + 1].k = "word" /\ <<T[i].u, T[i + 1].u>> \in W2
       THEN <<[T[i] EXCEPT !.u = T[i].u \o " " \o T[i + 1].u]>> \o Fuse(T, i + 2)
  ELSE <<T[i]>> \o Fuse(T, i + 1)

\* parenthesis depth before each token
RECURSIVE DepthsFrom(_, _, _)
DepthsFrom(T, i, d) ==
  IF i > Len(T) THEN <<>>
  ELSE <<d>> \o DepthsFrom(T, i + 1, IF T[i].k = "lp" THEN d + 1 ELSE IF T[i].k = "rp" THEN d - 1 ELSE d)
DepthsOf(T) == DepthsFrom(T, 1, 0)

JoinKws == {"JOIN", "LEFT JOIN", "RIGHT JOIN", "INNER JOIN", "CROSS JOIN", "FULL OUTER JOIN"}
SetKws == {"UNION", "UNION ALL", "INTERSECT", "EXCEPT"}
LockKws == {"FOR UPDATE", "FOR SHARE", "FOR NO KEY UPDATE", "FOR KEY SHARE"}
\* rank of a clause keyword inside a SELECT (0 = not a clause keyword)
SelRank(u) ==
  CASE u = "FROM" -> 1 [] u \in JoinKws -> 2 [] u = "WHERE" -> 3 [] u = "GROUP BY" -> 4 [] u = "HAVING" -> 5
    [] u = "WINDOW" -> 6 [] u \in SetKws -> 7 [] u = "ORDER BY" -> 8 [] u = "LIMIT" -> 9 [] u = "OFFSET" -> 10
    [] u \in LockKws -> 11 [] OTHER -> 0

\* next index >= i (up to e - 1) whose token is a word at depth d in the keyword set S; e if none
RECURSIVE NextAt(_, _, _, _, _, _)
NextAt(T, D, i, e, d, S) == IF i >= e THEN e ELSE IF T[i].k = "word" /\ D[i] = d /\ T[i].u \in S THEN i ELSE NextAt(T, D, i + 1, e, d, S)
SelClauseKws == {"FROM", "WHERE", "GROUP BY", "HAVING", "WINDOW", "ORDER BY", "LIMIT", "OFFSET"} \cup JoinKws \cup SetKws \cup LockKws
SelTailKws == {"WINDOW", "ORDER BY", "LIMIT", "OFFSET"} \cup SetKws \cup LockKws
DmlKws == {"SET", "FROM", "WHERE", "ORDER BY", "LIMIT", "RETURNING"} \cup JoinKws
RECURSIVE NextComma(_, _, _, _, _)
NextComma(T, D, i, e, d) == IF i >= e THEN e ELSE IF T[i].k = "comma" /\ D[i] = d THEN i ELSE NextComma(T, D, i + 1, e, d)
\* split [s, e) at depth-d commas: sequence of <<start, end>>
RECURSIVE SplitCommas(_, _, _, _, _)
SplitCommas(T, D, s, e, d) ==
  IF s >= e THEN <<>>
  ELSE LET c == NextComma(T, D, s, e, d) IN <<<<s, c>>>> \o (IF c >= e THEN <<>> ELSE SplitCommas(T, D, c + 1, e, d))

ExprOf(B, T, s, e) == IF s >= e THEN Err("empty_expression", s) ELSE ParseWhole(B, SubSeq(T, s, e - 1))

(*******************************  items  ***********************************)
\* expr [ASC|DESC] [NULLS FIRST|NULLS LAST]
OrderItem(B, T, s, e) ==
  LET nulls == IF e - 1 >= s /\ T[e - 1].k = "word" /\ T[e - 1].u \in {"NULLS FIRST", "NULLS LAST"} THEN T[e - 1].u ELSE "none"
      e1 == IF nulls = "none" THEN e ELSE e - 1
      dir == IF e1 - 1 >= s /\ T[e1 - 1].k = "word" /\ T[e1 - 1].u \in {"ASC", "DESC"} THEN T[e1 - 1].u ELSE "none"
      e2 == IF dir = "none" THEN e1 ELSE e1 - 1
      x == ExprOf(B, T, s, e2)
  IN IF ~x.ok THEN GErr("order_item:" \o x.tr.why)
     ELSE IF nulls # "none" /\ B = "mysql" THEN GErr("mysql_has_no_nulls_ordering")
     ELSE GOk([e |-> x.tr, dir |-> dir, nulls |-> nulls], e)

ExprItem(B, T, s, e) == LET x == ExprOf(B, T, s, e) IN IF x.ok THEN GOk(x.tr, e) ELSE GErr("item:" \o x.tr.why)
SetItem(B, T, s, e) ==     \* [tbl .] col = expr
  LET IsEq(i) == T[i].k = "op" /\ T[i].t = "="
      q == IF e - s >= 3 /\ T[s].k = "qid" /\ T[s + 1].k = "dot" /\ T[s + 2].k = "qid" THEN 2 ELSE 0
  IN IF ~(s + q + 1 < e /\ T[s + q].k = "qid" /\ IsEq(s + q + 1)) THEN GErr("malformed_assignment")
     ELSE LET x == ExprOf(B, T, s + q + 2, e) IN IF ~x.ok THEN GErr("assignment:" \o x.tr.why)
          ELSE GOk([c |-> T[s + q].v, q |-> IF q = 2 THEN T[s].v ELSE "", e |-> x.tr], e)
\* apply an item parser to each comma-separated part (which = "expr" / "order" / "set")
RECURSIVE ItemsOf(_, _, _, _, _, _)
ItemsOf(which, B, T, parts, i, acc) ==
  IF i > Len(parts) THEN GOk(acc, 0)
  ELSE LET r == CASE which = "expr" -> ExprItem(B, T, parts[i][1], parts[i][2])
                  [] which = "order" -> OrderItem(B, T, parts[i][1], parts[i][2])
                  [] which = "set" -> SetItem(B, T, parts[i][1], parts[i][2])
       IN IF ~r.ok THEN r ELSE ItemsOf(which, B, T, parts, i + 1, Append(acc, r.v))

FrameBound(T, s, e) ==
  IF e - s = 1 /\ T[s].k = "word" /\ T[s].u \in {"UNBOUNDED PRECEDING", "UNBOUNDED FOLLOWING", "CURRENT ROW"} THEN GOk([b |-> T[s].u, n |-> ""], e)
  ELSE IF e - s = 2 /\ T[s].k \in {"num", "ph"} /\ T[s + 1].k = "word" /\ T[s + 1].u \in {"PRECEDING", "FOLLOWING"} THEN GOk([b |-> T[s + 1].u, n |-> T[s].t], e)
  ELSE GErr("malformed_frame_bound")

\* window definition between (but not including) parentheses: [s, e)
WindowDef(B, T, D, s, e) ==
  LET d == IF s < e THEN D[s] ELSE 0
      p == NextAt(T, D, s, e, d, {"PARTITION BY"})
      o == NextAt(T, D, s, e, d, {"ORDER BY"})
      f == NextAt(T, D, s, e, d, {"ROWS", "RANGE", "GROUPS"})
      pEnd == IF o < e THEN o ELSE f
      oEnd == f
      parts == IF p < e THEN ItemsOf("expr", B, T, SplitCommas(T, D, p + 1, pEnd, d), 1, <<>>) ELSE GOk(<<>>, 0)
      ords == IF o < e THEN ItemsOf("order", B, T, SplitCommas(T, D, o + 1, oEnd, d), 1, <<>>) ELSE GOk(<<>>, 0)
      frame == IF f >= e THEN GOk(NoneG, 0)
               ELSE IF f + 1 < e /\ T[f + 1].k = "word" /\ T[f + 1].u = "BETWEEN" THEN
                 LET a == NextAt(T, D, f + 2, e, d, {"AND"})
                     b1 == FrameBound(T, f + 2, a)
                     b2 == IF a < e THEN FrameBound(T, a + 1, e) ELSE GErr("frame_between_without_and")
                 IN IF ~b1.ok THEN b1 ELSE IF ~b2.ok THEN b2 ELSE GOk([type |-> T[f].u, start |-> b1.v, end |-> b2.v], 0)
               ELSE LET b1 == FrameBound(T, f + 1, e) IN IF ~b1.ok THEN b1 ELSE GOk([type |-> T[f].u, start |-> b1.v, end |-> NoneG], 0)
      first == IF p < e THEN p ELSE IF o < e THEN o ELSE f
  IN IF first > s /\ first <= e /\ s < e /\ first # s THEN GErr("window_def_unexpected_tokens")
     ELSE IF p < e /\ (o < p \/ (f < p)) THEN GErr("window_def_clause_order")
     ELSE IF o < e /\ f < o THEN GErr("window_def_clause_order")
     ELSE IF ~parts.ok THEN parts ELSE IF ~ords.ok THEN ords ELSE IF ~frame.ok THEN frame
     ELSE GOk([partition |-> parts.v, orders |-> ords.v, frame |-> frame.v], e)

\* select item: expr [OVER name | OVER ( def )] [AS alias]
SelectItem(B, T, D, s, e) ==
  LET hasAs == e - 2 >= s /\ T[e - 2].k = "word" /\ T[e - 2].u = "AS" /\ T[e - 1].k = "qid" /\ D[e - 2] = D[s]
      e1 == IF hasAs THEN e - 2 ELSE e
      ov == NextAt(T, D, s, e1, D[s], {"OVER"})
      x == ExprOf(B, T, s, ov)
      over == IF ov >= e1 THEN GOk(NoneG, 0)
              ELSE IF e1 - ov = 2 /\ T[ov + 1].k = "qid" THEN GOk([k |-> "name", n |-> T[ov + 1].v], 0)
              ELSE IF T[ov + 1].k = "lp" /\ T[e1 - 1].k = "rp" /\ MatchParen(T, ov + 1) = e1 - 1 THEN
                LET w == WindowDef(B, T, D, ov + 2, e1 - 1) IN IF ~w.ok THEN w ELSE GOk([k |-> "def", w |-> w.v], 0)
              ELSE GErr("malformed_over_clause")
  IN IF ~x.ok THEN GErr("select_item:" \o x.tr.why) ELSE IF ~over.ok THEN over
     ELSE GOk([e |-> x.tr, over |-> over.v, alias |-> IF hasAs THEN T[e - 1].v ELSE ""], e)

RECURSIVE QualName(_, _, _, _)
QualName(T, s, e, acc) ==      \* qid { . qid } exactly filling [s, e)
  IF s >= e \/ T[s].k # "qid" THEN GErr("expected_table_name")
  ELSE IF s + 1 = e THEN GOk(Append(acc, T[s].v), e)
  ELSE IF T[s + 1].k = "dot" THEN QualName(T, s + 2, e, Append(acc, T[s].v))
  ELSE GErr("malformed_table_name")

RECURSIVE ParseSelectAt(_, _, _, _, _, _), ParseCore(_, _, _, _, _), ParseQueryIn(_, _, _, _, _), TableRef(_, _, _, _, _), ParseWithAt(_, _, _, _, _),
          ParseAnyAt(_, _, _, _, _)

RECURSIVE ValuesRows(_, _, _, _, _, _)
ValuesRows(B, T, D, s, e, acc) ==       \* [ROW] ( list ) { , [ROW] ( list ) } filling [s, e)
  LET s1 == IF s < e /\ T[s].k = "word" /\ T[s].u = "ROW" THEN s + 1 ELSE s IN
  IF s1 >= e \/ T[s1].k # "lp" THEN GErr("expected_values_row")
  ELSE LET m == MatchParen(T, s1) IN
    IF m = 0 \/ m >= e THEN GErr("unbalanced_values_row")
    ELSE LET r == IF m = s1 + 1 THEN GOk(<<>>, 0) ELSE ItemsOf("expr", B, T, SplitCommas(T, D, s1 + 1, m, D[s1] + 1), 1, <<>>) IN
      IF ~r.ok THEN r
      ELSE IF m + 1 = e THEN GOk(Append(acc, [row |-> r.v, rowkw |-> s1 # s]), e)
      ELSE IF T[m + 1].k = "comma" THEN ValuesRows(B, T, D, m + 2, e, Append(acc, [row |-> r.v, rowkw |-> s1 # s]))
      ELSE GErr("expected_comma_between_rows")

\* table reference filling [s, e): name [AS a] | ( query ) AS a | ( VALUES .. ) AS a ; MySQL index hints may follow
TableRef(B, T, D, s, e) ==
  IF s >= e THEN GErr("empty_table_reference")
  ELSE IF T[s].k = "lp" THEN
    LET m == MatchParen(T, s) IN
    IF m = 0 THEN GErr("unbalanced_paren")
    ELSE IF ~(m + 3 = e /\ T[m + 1].k = "word" /\ T[m + 1].u = "AS" /\ T[m + 2].k = "qid") THEN GErr("derived_table_needs_alias")
    ELSE IF T[s + 1].k = "word" /\ T[s + 1].u = "VALUES" THEN
      LET r == ValuesRows(B, T, D, s + 2, m, <<>>) IN IF ~r.ok THEN r ELSE GOk([k |-> "values", rows |-> r.v, a |-> T[m + 2].v], e)
    ELSE LET q == ParseQueryIn(B, T, D, s + 1, m) IN IF ~q.ok THEN q ELSE GOk([k |-> "subq", q |-> q.v, a |-> T[m + 2].v], e)
  ELSE
    LET h == IF B = "mysql" THEN NextAt(T, D, s, e, D[s], {"USE", "FORCE", "IGNORE"})
             ELSE IF B = "pg" THEN NextAt(T, D, s, e, D[s], {"TABLESAMPLE"}) ELSE e
        hasAs == h - 2 >= s /\ T[h - 2].k = "word" /\ T[h - 2].u = "AS" /\ T[h - 1].k = "qid"
        n == QualName(T, s, IF hasAs THEN h - 2 ELSE h, <<>>)
        \* PostgreSQL: TABLESAMPLE method ( number ) [REPEATABLE ( number )]
        smOk == B = "pg" /\ h < e /\ h + 4 < e + 1 /\ T[h + 1].k = "word" /\ T[h + 2].k = "lp" /\ T[h + 3].k = "num" /\ T[h + 4].k = "rp"
                /\ (h + 5 = e \/ (h + 9 = e /\ IsWordU(T, h + 5, "REPEATABLE") /\ T[h + 6].k = "lp" /\ T[h + 7].k = "num" /\ T[h + 8].k = "rp"))
    IN IF ~n.ok THEN n
       ELSE IF B = "pg" /\ h < e /\ ~smOk THEN GErr("malformed_TABLESAMPLE_clause")
       ELSE GOk([k |-> "table", names |-> n.v, a |-> IF hasAs THEN T[h - 1].v ELSE "",
                 hints |-> IF B = "mysql" /\ h < e THEN [i \in 1..(e - h) |-> IF T[h + i - 1].k = "qid" THEN T[h + i - 1].v ELSE T[h + i - 1].u] ELSE <<>>,
                 sample |-> IF B = "pg" /\ h < e THEN [k |-> "sample", method |-> T[h + 1].u, pct |-> T[h + 3].t, rep |-> IF h + 5 = e THEN "" ELSE T[h + 7].t]
                            ELSE [k |-> "none"]], e)

RECURSIVE TableRefs(_, _, _, _, _, _)
TableRefs(B, T, D, parts, i, acc) ==
  IF i > Len(parts) THEN GOk(acc, 0)
  ELSE LET r == TableRef(B, T, D, parts[i][1], parts[i][2]) IN IF ~r.ok THEN r ELSE TableRefs(B, T, D, parts, i + 1, Append(acc, r.v))

RECURSIVE SelItems(_, _, _, _, _, _)
SelItems(B, T, D, parts, i, acc) ==
  IF i > Len(parts) THEN GOk(acc, 0)
  ELSE LET r == SelectItem(B, T, D, parts[i][1], parts[i][2]) IN IF ~r.ok THEN r ELSE SelItems(B, T, D, parts, i + 1, Append(acc, r.v))

\* the clauses of one SELECT core starting at s (T[s] = SELECT), ending before index e.
\* Clauses are the depth-d keyword tokens; a core ends at the first clause of rank >= 7 (set operation,
\* ORDER BY, LIMIT, OFFSET, lock) — those belong to the compound statement.
RECURSIVE CoreClauses(_, _, _, _, _, _)
CoreClauses(T, D, i, e, d, acc) ==
  LET j == NextAt(T, D, i, e, d, SelClauseKws)
  IN IF j >= e \/ SelRank(T[j].u) >= 7 THEN [cl |-> acc, end |-> j]
     ELSE CoreClauses(T, D, j + 1, e, d, Append(acc, j))

ParseCore(B, T, D, s, e) ==
  IF ~IsWordU(T, s, "SELECT") THEN GErr("expected_SELECT")
  ELSE
  LET d == D[s]
      cc == CoreClauses(T, D, s + 1, e, d, <<>>)
      cl == cc.cl
      n == Len(cl)
      endOf(k) == IF k < n THEN cl[k + 1] ELSE cc.end
      ranks == [k \in 1..n |-> SelRank(T[cl[k]].u)]
      outOfOrder == \E k \in 1..(n - 1) : ranks[k + 1] < ranks[k]
      dup == \E k \in 1..(n - 1) : ranks[k + 1] = ranks[k] /\ ranks[k] # 2
      itemsEnd == IF n = 0 THEN cc.end ELSE cl[1]
      \* DISTINCT / ALL / DISTINCT ON ( cols )
      dist == IF IsWordU(T, s + 1, "DISTINCT") THEN [v |-> [k |-> "distinct"], i |-> s + 2]
              ELSE IF IsWordU(T, s + 1, "ALL") THEN [v |-> [k |-> "all"], i |-> s + 2]
              ELSE IF IsWordU(T, s + 1, "DISTINCTROW") THEN [v |-> [k |-> "distinctrow"], i |-> s + 2]
              ELSE IF IsWordU(T, s + 1, "DISTINCT ON") /\ Tk(T, s + 2).k = "lp" THEN
                LET m == MatchParen(T, s + 2) IN [v |-> [k |-> "on", cols |-> [x \in 1..((m - s - 2) \div 2) |-> T[s + 1 + 2 * x].v]], i |-> m + 1]
              ELSE [v |-> NoneG, i |-> s + 1]
      items == SelItems(B, T, D, SplitCommas(T, D, dist.i, itemsEnd, d), 1, <<>>)
      Find(r) == IF \E k \in 1..n : ranks[k] = r THEN CHOOSE k \in 1..n : ranks[k] = r ELSE 0
      kFrom == Find(1)  kWhere == Find(3)  kGroup == Find(4)  kHaving == Find(5)  kWin == Find(6)
      from == IF kFrom = 0 THEN GOk(<<>>, 0) ELSE TableRefs(B, T, D, SplitCommas(T, D, cl[kFrom] + 1, endOf(kFrom), d), 1, <<>>)
      joinIdx == SelectSeq([k \in 1..n |-> k], LAMBDA k : ranks[k] = 2)
      JoinAt(k) ==
        LET a == cl[k] + 1
            b == endOf(k)
            lat == IsWordU(T, a, "LATERAL")
            a1 == IF lat THEN a + 1 ELSE a
            o == NextAt(T, D, a1, b, d, {"ON"})
            t == TableRef(B, T, D, a1, o)
            p == IF o < b THEN ExprOf(B, T, o + 1, b) ELSE Ok(NoneG, 0)
        IN IF lat /\ B = "sqlite" THEN GErr("sqlite_has_no_LATERAL")
           ELSE IF ~t.ok THEN t ELSE IF ~p.ok THEN GErr("join_on:" \o p.tr.why)
           ELSE GOk([jt |-> T[cl[k]].u, lateral |-> lat, t |-> t.v, on |-> p.tr], 0)
      joins == [x \in DOMAIN joinIdx |-> JoinAt(joinIdx[x])]
      where == IF kWhere = 0 THEN Ok(NoneG, 0) ELSE ExprOf(B, T, cl[kWhere] + 1, endOf(kWhere))
      groups == IF kGroup = 0 THEN GOk(<<>>, 0) ELSE ItemsOf("expr", B, T, SplitCommas(T, D, cl[kGroup] + 1, endOf(kGroup), d), 1, <<>>)
      having == IF kHaving = 0 THEN Ok(NoneG, 0) ELSE ExprOf(B, T, cl[kHaving] + 1, endOf(kHaving))
      \* WINDOW name AS ( def )
      win == IF kWin = 0 THEN GOk(NoneG, 0)
             ELSE LET a == cl[kWin] + 1  b == endOf(kWin) IN
               IF ~(b - a >= 2 /\ T[a].k = "qid" /\ IsWordU(T, a + 1, "AS")) THEN GErr("malformed_window_clause")
               ELSE IF Tk(T, a + 2).k # "lp" THEN GErr("window_definition_not_parenthesised")
               ELSE IF MatchParen(T, a + 2) # b - 1 THEN GErr("malformed_window_clause")
               ELSE LET w == WindowDef(B, T, D, a + 3, b - 1) IN IF ~w.ok THEN w ELSE GOk([name |-> T[a].v, w |-> w.v], 0)
  IN IF outOfOrder THEN GErr("clause_out_of_order:" \o T[cl[CHOOSE k \in 1..(n - 1) : ranks[k + 1] < ranks[k]] + 0].u \o "_before_" \o T[cl[(CHOOSE k \in 1..(n - 1) : ranks[k + 1] < ranks[k]) + 1]].u)
     ELSE IF dup THEN GErr("duplicate_clause")
     ELSE IF ~items.ok THEN items ELSE IF ~from.ok THEN from
     ELSE IF \E x \in DOMAIN joins : ~joins[x].ok THEN joins[CHOOSE x \in DOMAIN joins : ~joins[x].ok]
     ELSE IF ~where.ok THEN GErr("where:" \o where.tr.why) ELSE IF ~groups.ok THEN groups
     ELSE IF ~having.ok THEN GErr("having:" \o having.tr.why) ELSE IF ~win.ok THEN win
     ELSE GOk([distinct |-> dist.v, items |-> items.v, from |-> from.v, joins |-> [x \in DOMAIN joins |-> joins[x].v],
               where |-> where.tr, groups |-> groups.v, having |-> having.tr, window |-> win.v], cc.end)

\* tail of a compound select from index i: set operations, then ORDER BY / LIMIT / OFFSET / lock (/ misplaced WINDOW)
RECURSIVE SetOps(_, _, _, _, _, _)
SetOps(B, T, D, i, e, acc) ==
  IF i >= e \/ ~(T[i].k = "word" /\ T[i].u \in SetKws) THEN GOk(acc, i)
  ELSE IF Tk(T, i + 1).k = "lp" THEN
    LET m == MatchParen(T, i + 1) IN
    IF m = 0 THEN GErr("unbalanced_paren_in_set_operation")
    ELSE IF B = "sqlite" THEN GErr("sqlite_rejects_parenthesised_compound_member")
    ELSE LET q == ParseQueryIn(B, T, D, i + 2, m) IN IF ~q.ok THEN q ELSE SetOps(B, T, D, m + 1, e, Append(acc, [op |-> T[i].u, q |-> q.v, paren |-> TRUE]))
  ELSE LET c == ParseCore(B, T, D, i + 1, e) IN
    IF ~c.ok THEN c ELSE SetOps(B, T, D, c.i, e, Append(acc, [op |-> T[i].u, q |-> c.v, paren |-> FALSE]))

ParseSelectAt(B, T, D, s, e, with) ==
  LET core == ParseCore(B, T, D, s, e) IN
  IF ~core.ok THEN core
  ELSE LET sets == SetOps(B, T, D, core.i, e, <<>>) IN
    IF ~sets.ok THEN sets
    ELSE
    LET d == D[s]
        i0 == sets.i
        RECURSIVE TailCl(_, _)
        TailCl(i, acc) == LET j == NextAt(T, D, i, e, d, SelTailKws) IN IF j >= e THEN acc ELSE TailCl(j + 1, Append(acc, j))
        tl == TailCl(i0, <<>>)
        n == Len(tl)
        endOf(k) == IF k < n THEN tl[k + 1] ELSE e
        ranks == [k \in 1..n |-> SelRank(T[tl[k]].u)]
        Find(r) == IF \E k \in 1..n : ranks[k] = r THEN CHOOSE k \in 1..n : ranks[k] = r ELSE 0
        kOrd == Find(8)  kLim == Find(9)  kOff == Find(10)  kLock == Find(11)
        orders == IF kOrd = 0 THEN GOk(<<>>, 0) ELSE ItemsOf("order", B, T, SplitCommas(T, D, tl[kOrd] + 1, endOf(kOrd), d), 1, <<>>)
        limit == IF kLim = 0 THEN Ok(NoneG, 0) ELSE ExprOf(B, T, tl[kLim] + 1, endOf(kLim))
        offset == IF kOff = 0 THEN Ok(NoneG, 0) ELSE ExprOf(B, T, tl[kOff] + 1, endOf(kOff))
        lock == IF kLock = 0 THEN NoneG ELSE [type |-> T[tl[kLock]].u, rest |-> [x \in 1..(endOf(kLock) - tl[kLock] - 1) |-> IF T[tl[kLock] + x].k = "qid" THEN T[tl[kLock] + x].v ELSE T[tl[kLock] + x].u]]
    IN IF n > 0 /\ tl[1] # i0 THEN GErr("unexpected_tokens_after_select")
       ELSE IF n = 0 /\ i0 < e THEN GErr("unexpected_tokens_after_select")
       ELSE IF \E k \in 1..n : ranks[k] = 6 THEN GErr("clause_out_of_order:WINDOW_after_" \o (IF \E k \in 1..n : ranks[k] # 6 /\ tl[k] < tl[CHOOSE k2 \in 1..n : ranks[k2] = 6] THEN "ORDER_LIMIT_or_lock" ELSE "set_operation"))
       ELSE IF \E k \in 1..(n - 1) : ranks[k + 1] <= ranks[k] THEN GErr("clause_out_of_order_in_select_tail")
       ELSE IF kLock # 0 /\ B = "sqlite" THEN GErr("sqlite_has_no_locking_clause")
       ELSE IF ~orders.ok THEN orders ELSE IF ~limit.ok THEN GErr("limit:" \o limit.tr.why) ELSE IF ~offset.ok THEN GErr("offset:" \o offset.tr.why)
       ELSE GOk([kind |-> "select", with |-> with, core |-> core.v, sets |-> sets.v, orders |-> orders.v, limit |-> limit.tr, offset |-> offset.tr, lock |-> lock], e)

\* WITH [RECURSIVE] name [(cols)] AS [[NOT] MATERIALIZED] ( stmt ) {, ...} then the statement proper
RECURSIVE Ctes(_, _, _, _, _, _)
Ctes(B, T, D, i, e, acc) ==
  IF Tk(T, i).k # "qid" THEN GErr("expected_cte_name")
  ELSE LET hasCols == Tk(T, i + 1).k = "lp"
           mc == IF hasCols THEN MatchParen(T, i + 1) ELSE i
           cols == IF hasCols THEN [x \in 1..((mc - i - 1) \div 2) |-> T[i + 2 * x].v] ELSE <<>>
           a == mc + 1
       IN IF ~IsWordU(T, a, "AS") THEN GErr("expected_AS_in_cte")
          ELSE LET mat == IF IsWordU(T, a + 1, "MATERIALIZED") THEN "yes" ELSE IF IsWordU(T, a + 1, "NOT MATERIALIZED") THEN "no" ELSE "none"
                   lp == IF mat = "none" THEN a + 1 ELSE a + 2
               IN IF mat # "none" /\ B = "mysql" THEN GErr("mysql_has_no_materialized")
                  ELSE IF Tk(T, lp).k # "lp" THEN GErr("expected_lp_in_cte")
                  ELSE LET m == MatchParen(T, lp)
                           q == IF m = 0 THEN GErr("unbalanced_cte") ELSE ParseAnyAt(B, T, D, lp + 1, m)
                       IN IF ~q.ok THEN q
                          ELSE LET \* PostgreSQL: ( stmt ) [SEARCH {BREADTH|DEPTH} FIRST BY col SET col] [CYCLE col SET col USING col]
                                   hasS == IsWordU(T, m + 1, "SEARCH")
                                   sOk == hasS /\ (IsWordU(T, m + 2, "BREADTH") \/ IsWordU(T, m + 2, "DEPTH")) /\ IsWordU(T, m + 3, "FIRST") /\ IsWordU(T, m + 4, "BY")
                                              /\ Tk(T, m + 5).k = "qid" /\ IsWordU(T, m + 6, "SET") /\ Tk(T, m + 7).k = "qid"
                                   srch == IF sOk THEN [k |-> "some", order |-> T[m + 2].u, by |-> T[m + 5].v, set |-> T[m + 7].v] ELSE [k |-> "none"]
                                   c0 == IF sOk THEN m + 8 ELSE m + 1
                                   hasC == IsWordU(T, c0, "CYCLE")
                                   cOk == hasC /\ Tk(T, c0 + 1).k = "qid" /\ IsWordU(T, c0 + 2, "SET") /\ Tk(T, c0 + 3).k = "qid" /\ IsWordU(T, c0 + 4, "USING") /\ Tk(T, c0 + 5).k = "qid"
                                   cyc == IF cOk THEN [k |-> "some", col |-> T[c0 + 1].v, set |-> T[c0 + 3].v, using |-> T[c0 + 5].v] ELSE [k |-> "none"]
                                   nx == IF cOk THEN c0 + 6 ELSE c0
                                   c == [name |-> T[i].v, cols |-> cols, mat |-> mat, q |-> q.v, search |-> srch, cycle |-> cyc]
                               IN IF (hasS \/ hasC) /\ B # "pg" THEN GErr("search_cycle_clause_is_postgres_only")
                                  ELSE IF hasS /\ ~sOk THEN GErr("malformed_SEARCH_clause")
                                  ELSE IF hasC /\ ~cOk THEN GErr("malformed_CYCLE_clause")
                                  ELSE IF IsWordU(T, nx, "SEARCH") THEN GErr("clause_out_of_order:SEARCH_after_CYCLE")
                                  ELSE IF Tk(T, nx).k = "comma" THEN Ctes(B, T, D, nx + 1, e, Append(acc, c)) ELSE GOk(Append(acc, c), nx)
ParseWithAt(B, T, D, s, e) ==      \* returns GOk([recursive, ctes], index of the statement proper)
  LET rec == IsWordU(T, s + 1, "RECURSIVE")
      c == Ctes(B, T, D, IF rec THEN s + 2 ELSE s + 1, e, <<>>)
  IN IF ~c.ok THEN c ELSE GOk([k |-> "with", recursive |-> rec, ctes |-> c.v], c.i)

ReturningOf(B, T, D, s, e) ==      \* tokens after RETURNING
  IF e - s = 1 /\ IsOp(T, s, "*") THEN GOk([k |-> "all"], e)
  ELSE LET r == ItemsOf("expr", B, T, SplitCommas(T, D, s, e, D[s]), 1, <<>>) IN IF ~r.ok THEN r ELSE GOk([k |-> "exprs", es |-> r.v], e)

\* clause keywords of INSERT / UPDATE / DELETE tails
DmlRank(u) ==
  CASE u = "SET" -> 2 [] u = "FROM" -> 3 [] u = "WHERE" -> 4 [] u = "ORDER BY" -> 6 [] u = "LIMIT" -> 7 [] u = "RETURNING" -> 5
    [] u \in JoinKws -> 1 [] OTHER -> 0
\* rank order differs per dialect: SQLite wants RETURNING before ORDER BY / LIMIT; PostgreSQL has no ORDER BY / LIMIT in UPDATE / DELETE
DmlRankB(B, u) == IF u = "RETURNING" /\ B # "sqlite" THEN 8 ELSE DmlRank(u)

ParseUpdDel(B, T, D, s, e, with) ==
  LET isUpd == IsWordU(T, s, "UPDATE")
      d == D[s]
      RECURSIVE Cl(_, _)
      Cl(i, acc) == LET j == NextAt(T, D, i, e, d, DmlKws) IN IF j >= e THEN acc ELSE Cl(j + 1, Append(acc, j))
      cl == Cl(s + 1, <<>>)
      n == Len(cl)
      endOf(k) == IF k < n THEN cl[k + 1] ELSE e
      ranks == [k \in 1..n |-> DmlRankB(B, T[cl[k]].u)]
      Find(u) == IF \E k \in 1..n : T[cl[k]].u = u THEN CHOOSE k \in 1..n : T[cl[k]].u = u ELSE 0
      tblEnd == IF n = 0 THEN e ELSE cl[1]
      tbl == TableRef(B, T, D, s + 1, tblEnd)
      kSet == Find("SET")  kFrom == Find("FROM")  kWhere == Find("WHERE")  kOrd == Find("ORDER BY")  kLim == Find("LIMIT")  kRet == Find("RETURNING")
      kJoin == IF \E k \in 1..n : T[cl[k]].u \in JoinKws THEN CHOOSE k \in 1..n : T[cl[k]].u \in JoinKws ELSE 0
      join == IF kJoin = 0 THEN GOk(NoneG, 0)
              ELSE LET a == cl[kJoin] + 1  b == endOf(kJoin)  o == NextAt(T, D, a, b, d, {"ON"})
                       t == TableRef(B, T, D, a, o)
                       p == IF o < b THEN ExprOf(B, T, o + 1, b) ELSE Ok(NoneG, 0)
                   IN IF ~t.ok THEN t ELSE IF ~p.ok THEN GErr("join_on:" \o p.tr.why) ELSE GOk([jt |-> T[cl[kJoin]].u, t |-> t.v, on |-> p.tr], 0)
      sets == IF kSet = 0 THEN GOk(<<>>, 0) ELSE ItemsOf("set", B, T, SplitCommas(T, D, cl[kSet] + 1, endOf(kSet), d), 1, <<>>)
      from == IF kFrom = 0 THEN GOk(<<>>, 0) ELSE TableRefs(B, T, D, SplitCommas(T, D, cl[kFrom] + 1, endOf(kFrom), d), 1, <<>>)
      where == IF kWhere = 0 THEN Ok(NoneG, 0) ELSE ExprOf(B, T, cl[kWhere] + 1, endOf(kWhere))
      orders == IF kOrd = 0 THEN GOk(<<>>, 0) ELSE ItemsOf("order", B, T, SplitCommas(T, D, cl[kOrd] + 1, endOf(kOrd), d), 1, <<>>)
      limit == IF kLim = 0 THEN Ok(NoneG, 0) ELSE ExprOf(B, T, cl[kLim] + 1, endOf(kLim))
      ret == IF kRet = 0 THEN GOk(NoneG, 0) ELSE ReturningOf(B, T, D, cl[kRet] + 1, endOf(kRet))
  IN IF \E k \in 1..(n - 1) : ranks[k + 1] <= ranks[k]
       THEN GErr("clause_out_of_order:" \o T[cl[CHOOSE k \in 1..(n - 1) : ranks[k + 1] <= ranks[k]]].u \o "_before_" \o T[cl[(CHOOSE k \in 1..(n - 1) : ranks[k + 1] <= ranks[k]) + 1]].u)
     ELSE IF isUpd /\ kSet = 0 THEN GErr("update_without_SET")
     ELSE IF kRet # 0 /\ B = "mysql" THEN GErr("mysql_has_no_RETURNING")
     ELSE IF (kOrd # 0 \/ kLim # 0) /\ B = "pg" THEN GErr("pg_has_no_ORDER_BY_or_LIMIT_in_update_delete")
     ELSE IF kJoin # 0 /\ B # "mysql" THEN GErr("update_join_is_mysql_only")
     ELSE IF kFrom # 0 /\ B = "mysql" THEN GErr("mysql_update_has_no_FROM")
     ELSE IF kJoin # 0 /\ (kOrd # 0 \/ kLim # 0) THEN GErr("mysql_multi_table_update_has_no_ORDER_BY_or_LIMIT")
     ELSE IF ~tbl.ok THEN tbl ELSE IF ~join.ok THEN join ELSE IF ~sets.ok THEN sets ELSE IF ~from.ok THEN from
     ELSE IF ~where.ok THEN GErr("where:" \o where.tr.why) ELSE IF ~orders.ok THEN orders ELSE IF ~limit.ok THEN GErr("limit:" \o limit.tr.why)
     ELSE IF ~ret.ok THEN ret
     ELSE GOk([kind |-> IF isUpd THEN "update" ELSE "delete", with |-> with, table |-> tbl.v, join |-> join.v, sets |-> sets.v, from |-> from.v,
               where |-> where.tr, orders |-> orders.v, limit |-> limit.tr, returning |-> ret.v], e)

ParseInsertAt(B, T, D, s, e, with) ==
  LET d == D[s]
      replace == T[s].u = "REPLACE INTO"
      src == NextAt(T, D, s + 1, e, d, {"VALUES", "SELECT", "DEFAULT VALUES", "WITH"})
      \* table [ ( cols ) ]
      hasCols == src - 1 > s /\ T[src - 1].k = "rp"
      lp == IF hasCols THEN (CHOOSE i \in (s + 1)..(src - 1) : T[i].k = "lp" /\ MatchParen(T, i) = src - 1) ELSE src
      tbl == QualName(T, s + 1, lp, <<>>)
      cols == IF hasCols THEN [x \in 1..((src - 1 - lp) \div 2) |-> T[lp + 2 * x - 1].v] ELSE <<>>
      colsOk == ~hasCols \/ \A i \in (lp + 1)..(src - 2) : IF (i - lp) % 2 = 1 THEN T[i].k = "qid" ELSE T[i].k = "comma"
      RECURSIVE Tl(_, _)
      Tl(i, acc) == LET j == NextAt(T, D, i, e, d, {"ON CONFLICT", "ON DUPLICATE KEY", "RETURNING"}) IN IF j >= e THEN acc ELSE Tl(j + 1, Append(acc, j))
      tl == Tl(src, <<>>)
      srcEnd == IF Len(tl) = 0 THEN e ELSE tl[1]
      kOc == IF \E k \in DOMAIN tl : T[tl[k]].u \in {"ON CONFLICT", "ON DUPLICATE KEY"} THEN CHOOSE k \in DOMAIN tl : T[tl[k]].u \in {"ON CONFLICT", "ON DUPLICATE KEY"} ELSE 0
      kRet == IF \E k \in DOMAIN tl : T[tl[k]].u = "RETURNING" THEN CHOOSE k \in DOMAIN tl : T[tl[k]].u = "RETURNING" ELSE 0
      endOf(k) == IF k < Len(tl) THEN tl[k + 1] ELSE e
      source == IF src >= e THEN GOk([k |-> "none"], 0)
                ELSE IF T[src].u = "DEFAULT VALUES" THEN (IF src + 1 = srcEnd THEN GOk([k |-> "default"], 0) ELSE GErr("tokens_after_DEFAULT_VALUES"))
                ELSE IF T[src].u = "VALUES" THEN LET r == ValuesRows(B, T, D, src + 1, srcEnd, <<>>) IN IF ~r.ok THEN r ELSE GOk([k |-> "values", rows |-> r.v], 0)
                ELSE LET q == ParseQueryIn(B, T, D, src, srcEnd) IN IF ~q.ok THEN q ELSE GOk([k |-> "select", q |-> q.v], 0)
      \* ON CONFLICT [ (targets) ] [WHERE p] DO NOTHING | DO UPDATE SET a = e, .. [WHERE p]   /   ON DUPLICATE KEY UPDATE a = e, ..
      oc == IF kOc = 0 THEN GOk(NoneG, 0)
            ELSE LET a == tl[kOc] + 1  b == endOf(kOc) IN
              IF T[tl[kOc]].u = "ON DUPLICATE KEY" THEN
                IF B # "mysql" THEN GErr("on_duplicate_key_is_mysql_only")
                ELSE IF ~IsWordU(T, a, "UPDATE") THEN GErr("mysql_on_duplicate_key_needs_UPDATE")
                ELSE LET r == ItemsOf("set", B, T, SplitCommas(T, D, a + 1, b, d), 1, <<>>) IN
                     IF ~r.ok THEN r ELSE GOk([k |-> "dupkey", sets |-> r.v], 0)
              ELSE IF B = "mysql" THEN GErr("on_conflict_is_not_mysql")
              ELSE
                LET doAt == NextAt(T, D, a, b, d, {"DO NOTHING", "DO UPDATE SET"})
                    hasT == a < doAt /\ T[a].k = "lp"
                    mt == IF hasT THEN MatchParen(T, a) ELSE a - 1
                    targets == IF hasT THEN ItemsOf("expr", B, T, SplitCommas(T, D, a + 1, mt, d + 1), 1, <<>>) ELSE GOk(<<>>, 0)
                    tw == IF mt + 1 < doAt THEN (IF IsWordU(T, mt + 1, "WHERE") THEN ExprOf(B, T, mt + 2, doAt) ELSE Err("unexpected_tokens_before_DO", mt + 1)) ELSE Ok(NoneG, 0)
                    wh == IF doAt < b THEN NextAt(T, D, doAt + 1, b, d, {"WHERE"}) ELSE b
                    sets == IF doAt < b /\ T[doAt].u = "DO UPDATE SET" THEN ItemsOf("set", B, T, SplitCommas(T, D, doAt + 1, wh, d), 1, <<>>) ELSE GOk(<<>>, 0)
                    aw == IF wh < b THEN ExprOf(B, T, wh + 1, b) ELSE Ok(NoneG, 0)
                IN IF doAt >= b THEN GErr("on_conflict_without_action")
                   ELSE IF T[doAt].u = "DO NOTHING" /\ doAt + 1 # b THEN GErr("tokens_after_DO_NOTHING")
                   ELSE IF ~targets.ok THEN targets ELSE IF ~tw.ok THEN GErr("conflict_target_where:" \o tw.tr.why)
                   ELSE IF ~sets.ok THEN sets ELSE IF ~aw.ok THEN GErr("conflict_action_where:" \o aw.tr.why)
                   ELSE GOk([k |-> "conflict", targets |-> targets.v, target_where |-> tw.tr, nothing |-> T[doAt].u = "DO NOTHING", sets |-> sets.v, action_where |-> aw.tr], 0)
      ret == IF kRet = 0 THEN GOk(NoneG, 0) ELSE ReturningOf(B, T, D, tl[kRet] + 1, endOf(kRet))
  IN IF ~tbl.ok THEN tbl ELSE IF ~colsOk THEN GErr("malformed_column_list")
     ELSE IF replace /\ B = "pg" THEN GErr("pg_has_no_REPLACE")
     ELSE IF kRet # 0 /\ kOc # 0 /\ kRet < kOc THEN GErr("clause_out_of_order:RETURNING_before_ON_CONFLICT")
     ELSE IF kRet # 0 /\ B = "mysql" THEN GErr("mysql_has_no_RETURNING")
     ELSE IF ~source.ok THEN source ELSE IF ~oc.ok THEN oc ELSE IF ~ret.ok THEN ret
     ELSE IF source.v.k = "none" THEN GErr("insert_without_source")
     ELSE IF source.v.k = "default" /\ B = "mysql" THEN GErr("mysql_has_no_DEFAULT_VALUES")
     ELSE IF source.v.k = "select" /\ kOc # 0 /\ B = "sqlite" /\ source.v.q.kind = "select" /\ source.v.q.core.where = NoneG /\ Len(source.v.q.sets) = 0
          THEN GErr("sqlite_insert_select_upsert_needs_WHERE")
     ELSE GOk([kind |-> "insert", with |-> with, replace |-> replace, table |-> tbl.v, cols |-> cols, hasCols |-> hasCols, source |-> source.v,
               on_conflict |-> oc.v, returning |-> ret.v], e)

\* any statement filling [s, e)
ParseAnyAt(B, T, D, s, e) ==
  IF s >= e THEN GErr("empty_statement")
  ELSE IF IsWordU(T, s, "WITH") THEN
    LET w == ParseWithAt(B, T, D, s, e) IN
    IF ~w.ok THEN w
    ELSE IF IsWordU(T, w.i, "SELECT") THEN ParseSelectAt(B, T, D, w.i, e, w.v)
    ELSE IF IsWordU(T, w.i, "INSERT INTO") \/ IsWordU(T, w.i, "REPLACE INTO") THEN
      (IF B = "mysql" THEN GErr("mysql_has_no_WITH_before_INSERT") ELSE ParseInsertAt(B, T, D, w.i, e, w.v))
    ELSE IF IsWordU(T, w.i, "UPDATE") \/ IsWordU(T, w.i, "DELETE FROM") THEN ParseUpdDel(B, T, D, w.i, e, w.v)
    ELSE GErr("unexpected_statement_after_WITH")
  ELSE IF IsWordU(T, s, "SELECT") THEN ParseSelectAt(B, T, D, s, e, NoneG)
  ELSE IF IsWordU(T, s, "INSERT INTO") \/ IsWordU(T, s, "REPLACE INTO") THEN ParseInsertAt(B, T, D, s, e, NoneG)
  ELSE IF IsWordU(T, s, "UPDATE") \/ IsWordU(T, s, "DELETE FROM") THEN ParseUpdDel(B, T, D, s, e, NoneG)
  ELSE GErr("unknown_statement:" \o T[s].u)
ParseQueryIn(B, T, D, s, e) == ParseAnyAt(B, T, D, s, e)

ParseStmt(B, sql) ==
  LET T0 == Lex(B, sql) IN
  IF \E i \in DOMAIN T0 : T0[i].k = "bad" THEN GErr("illegal_token:" \o (T0[CHOOSE i \in DOMAIN T0 : T0[i].k = "bad"]).f)
  ELSE LET T == Fuse(Norm(T0), 1)
           D == DepthsOf(T)
       IN IF \E i \in DOMAIN D : D[i] < 0 THEN GErr("unbalanced_parentheses") ELSE ParseAnyAt(B, T, D, 1, Len(T) + 1)

\* the same statement without its trailing top-level WINDOW clause (sea-query writes that clause last); used to
\* judge the rest of a statement whose WINDOW clause is rejected for a recorded reason
ParseStmtCut(B, sql) ==
  LET T0 == Lex(B, sql) IN
  IF \E i \in DOMAIN T0 : T0[i].k = "bad" THEN GErr("illegal_token")
  ELSE LET T == Fuse(Norm(T0), 1)
           D == DepthsOf(T)
           ws == {i \in DOMAIN T : T[i].k = "word" /\ T[i].u = "WINDOW" /\ D[i] = 0}
       IN IF \E i \in DOMAIN D : D[i] < 0 THEN GErr("unbalanced_parentheses")
          ELSE IF ws = {} THEN GErr("no_top_level_WINDOW")
          ELSE ParseAnyAt(B, T, D, 1, CHOOSE i \in ws : \A j \in ws : j <= i)
=============================================================================
