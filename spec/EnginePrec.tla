----------------------------- MODULE EnginePrec -----------------------------
(***************************************************************************)
(* Operator precedence / associativity of MySQL 8.0, PostgreSQL >= 15 and  *)
(* SQLite 3.40 (from the reference manuals, see DESIGN.md Appendix C.2)    *)
(* and ParseExpr: a Pratt parser over EngineLex tokens that returns the    *)
(* expression tree an engine of dialect B builds for the text.             *)
(*                                                                         *)
(* Tree shapes (records):                                                  *)
(*   [k:"col", q:<<qualifiers>>, n]   [k:"star", q]   [k:"num", t]         *)
(*   [k:"str", v]   [k:"blob", v]   [k:"ph", n]   [k:"kw", w]   [k:"word", t]*)
(*   [k:"un", op, e]   [k:"bin", op, l, r]                                 *)
(*   [k:"between", neg, e, a, b]   [k:"like", op, e, p, esc]               *)
(*   [k:"in", neg, e, set]   [k:"tuple", es]   [k:"subq", op]              *)
(*   [k:"fn", name, args: seq of [d, e]]   [k:"cast", e, ty]               *)
(*   [k:"case", whens: seq of [c, r], else]   [k:"none"]                   *)
(***************************************************************************)
EXTENDS EngineLex

None == [k |-> "none"]
Eof == [k |-> "eof", t |-> "", v |-> "", f |-> "", u |-> ""]

\* add the upper-cased text of word tokens (field u) once
Norm(T) == [i \in DOMAIN T |->
  [k |-> T[i].k, t |-> T[i].t, v |-> T[i].v, f |-> T[i].f,
   u |-> IF T[i].k = "word" THEN UpperStr(T[i].t) ELSE T[i].t]]
Tk(T, i) == IF i >= 1 /\ i <= Len(T) THEN T[i] ELSE Eof
IsW(T, i, kw) == Tk(T, i).k = "word" /\ Tk(T, i).u = kw
IsOp(T, i, o) == Tk(T, i).k = "op" /\ Tk(T, i).t = o

Ok(tr, i)   == [ok |-> TRUE, tr |-> tr, i |-> i]
Err(why, i) == [ok |-> FALSE, tr |-> [k |-> "err", why |-> why, at |-> i], i |-> i]

(*************************  binding powers  ********************************)
BpNot(B)     == 30
BpBetween(B) == CASE B = "mysql" -> 40 [] B = "pg" -> 60 [] OTHER -> 40
\* minimum binding power for the two bounds of BETWEEN (see DESIGN App. C.2)
BpBoundA(B)  == CASE B = "mysql" -> 41 [] B = "pg" -> 50 [] OTHER -> 21
BpBoundB(B)  == CASE B = "mysql" -> 41 [] B = "pg" -> 61 [] OTHER -> 41
BpUnary(B)   == CASE B = "mysql" -> 120 [] B = "pg" -> 130 [] OTHER -> 120

\* Operator starting at token i after a complete left operand:
\* [form, name, n (tokens), bp, na (non-associative)] ; form "none" = no operator
NoOp == [form |-> "none", name |-> "", n |-> 0, bp |-> 0, na |-> FALSE]
OpI(form, name, n, bp, na) == [form |-> form, name |-> name, n |-> n, bp |-> bp, na |-> na]

MyOp(T, i) ==
  LET t == Tk(T, i) IN
  IF t.k = "op" THEN
    CASE t.t \in {"=", "<=>", ">=", ">", "<=", "<", "<>", "!="} -> OpI("bin", t.t, 1, 50, FALSE)
      [] t.t = "|" -> OpI("bin", "|", 1, 60, FALSE)
      [] t.t = "&" -> OpI("bin", "&", 1, 70, FALSE)
      [] t.t \in {"<<", ">>"} -> OpI("bin", t.t, 1, 80, FALSE)
      [] t.t \in {"+", "-"} -> OpI("bin", t.t, 1, 90, FALSE)
      [] t.t \in {"*", "/", "%"} -> OpI("bin", t.t, 1, 100, FALSE)
      [] t.t = "^" -> OpI("bin", "^", 1, 110, FALSE)
      [] t.t = "||" -> OpI("bin", "||", 1, 10, FALSE)
      [] t.t = "&&" -> OpI("bin", "&&", 1, 20, FALSE)
      [] t.t \in {"->", "->>"} -> OpI("bin", t.t, 1, 150, FALSE)
      [] OTHER -> OpI("unknown", t.t, 1, 0, FALSE)
  ELSE IF t.k = "word" THEN
    CASE t.u = "OR" -> OpI("bin", "OR", 1, 10, FALSE)
      [] t.u = "XOR" -> OpI("bin", "XOR", 1, 15, FALSE)
      [] t.u = "AND" -> OpI("bin", "AND", 1, 20, FALSE)
      [] t.u \in {"DIV", "MOD"} -> OpI("bin", t.u, 1, 100, FALSE)
      [] t.u \in {"REGEXP", "RLIKE"} -> OpI("bin", t.u, 1, 50, FALSE)
      [] t.u = "LIKE" -> OpI("like", "LIKE", 1, 50, FALSE)
      [] t.u = "IN" -> OpI("in", "IN", 1, 50, FALSE)
      [] t.u = "BETWEEN" -> OpI("between", "BETWEEN", 1, 40, FALSE)
      [] t.u = "IS" -> IF IsW(T, i + 1, "NOT") THEN OpI("bin", "IS NOT", 2, 50, FALSE) ELSE OpI("bin", "IS", 1, 50, FALSE)
      [] t.u = "NOT" ->
           (CASE IsW(T, i + 1, "LIKE") -> OpI("like", "NOT LIKE", 2, 50, FALSE)
              [] IsW(T, i + 1, "IN") -> OpI("in", "NOT IN", 2, 50, FALSE)
              [] IsW(T, i + 1, "BETWEEN") -> OpI("between", "NOT BETWEEN", 2, 40, FALSE)
              [] IsW(T, i + 1, "REGEXP") -> OpI("bin", "NOT REGEXP", 2, 50, FALSE)
              [] OTHER -> NoOp)
      [] t.u = "COLLATE" -> OpI("bin", "COLLATE", 1, 140, FALSE)
      [] OTHER -> NoOp
  ELSE NoOp

PgOp(T, i) ==
  LET t == Tk(T, i) IN
  IF t.k = "op" THEN
    CASE t.t \in {"<", ">", "=", "<=", ">=", "<>", "!="} -> OpI("bin", t.t, 1, 50, TRUE)
      [] t.t \in {"+", "-"} -> OpI("bin", t.t, 1, 80, FALSE)
      [] t.t \in {"*", "/", "%"} -> OpI("bin", t.t, 1, 90, FALSE)
      [] t.t = "^" -> OpI("bin", "^", 1, 100, FALSE)
      [] t.t = "::" -> OpI("bin", "::", 1, 150, FALSE)
      [] OTHER -> OpI("bin", t.t, 1, 70, FALSE)           \* any other operator
  ELSE IF t.k = "word" THEN
    CASE t.u = "OR" -> OpI("bin", "OR", 1, 10, FALSE)
      [] t.u = "AND" -> OpI("bin", "AND", 1, 20, FALSE)
      [] t.u = "IS" -> IF IsW(T, i + 1, "NOT") THEN OpI("bin", "IS NOT", 2, 40, FALSE) ELSE OpI("bin", "IS", 1, 40, FALSE)
      [] t.u \in {"ISNULL", "NOTNULL"} -> OpI("postfix", t.u, 1, 40, FALSE)
      [] t.u \in {"LIKE", "ILIKE"} -> OpI("like", t.u, 1, 60, TRUE)
      [] t.u = "IN" -> OpI("in", "IN", 1, 60, TRUE)
      [] t.u = "BETWEEN" -> OpI("between", "BETWEEN", 1, 60, TRUE)
      [] t.u = "NOT" ->
           (CASE IsW(T, i + 1, "LIKE") -> OpI("like", "NOT LIKE", 2, 60, TRUE)
              [] IsW(T, i + 1, "ILIKE") -> OpI("like", "NOT ILIKE", 2, 60, TRUE)
              [] IsW(T, i + 1, "IN") -> OpI("in", "NOT IN", 2, 60, TRUE)
              [] IsW(T, i + 1, "BETWEEN") -> OpI("between", "NOT BETWEEN", 2, 60, TRUE)
              [] OTHER -> NoOp)
      [] t.u = "COLLATE" -> OpI("bin", "COLLATE", 1, 120, FALSE)
      [] OTHER -> NoOp
  ELSE NoOp

LiteOp(T, i) ==
  LET t == Tk(T, i) IN
  IF t.k = "op" THEN
    CASE t.t \in {"=", "==", "<>", "!="} -> OpI("bin", t.t, 1, 40, FALSE)
      [] t.t \in {"<", ">", "<=", ">="} -> OpI("bin", t.t, 1, 50, FALSE)
      [] t.t \in {"&", "|", "<<", ">>"} -> OpI("bin", t.t, 1, 70, FALSE)
      [] t.t \in {"+", "-"} -> OpI("bin", t.t, 1, 80, FALSE)
      [] t.t \in {"*", "/", "%"} -> OpI("bin", t.t, 1, 90, FALSE)
      [] t.t \in {"||", "->", "->>"} -> OpI("bin", t.t, 1, 100, FALSE)
      [] OTHER -> OpI("unknown", t.t, 1, 0, FALSE)
  ELSE IF t.k = "word" THEN
    CASE t.u = "OR" -> OpI("bin", "OR", 1, 10, FALSE)
      [] t.u = "AND" -> OpI("bin", "AND", 1, 20, FALSE)
      [] t.u = "IS" -> IF IsW(T, i + 1, "NOT") THEN OpI("bin", "IS NOT", 2, 40, FALSE) ELSE OpI("bin", "IS", 1, 40, FALSE)
      [] t.u \in {"ISNULL", "NOTNULL"} -> OpI("postfix", t.u, 1, 40, FALSE)
      [] t.u \in {"LIKE", "GLOB", "REGEXP", "MATCH"} -> OpI("like", t.u, 1, 40, FALSE)
      [] t.u = "IN" -> OpI("in", "IN", 1, 40, FALSE)
      [] t.u = "BETWEEN" -> OpI("between", "BETWEEN", 1, 40, FALSE)
      [] t.u = "NOT" ->
           (CASE IsW(T, i + 1, "LIKE") -> OpI("like", "NOT LIKE", 2, 40, FALSE)
              [] IsW(T, i + 1, "GLOB") -> OpI("like", "NOT GLOB", 2, 40, FALSE)
              [] IsW(T, i + 1, "REGEXP") -> OpI("like", "NOT REGEXP", 2, 40, FALSE)
              [] IsW(T, i + 1, "MATCH") -> OpI("like", "NOT MATCH", 2, 40, FALSE)
              [] IsW(T, i + 1, "IN") -> OpI("in", "NOT IN", 2, 40, FALSE)
              [] IsW(T, i + 1, "BETWEEN") -> OpI("between", "NOT BETWEEN", 2, 40, FALSE)
              [] IsW(T, i + 1, "NULL") -> OpI("postfix", "NOT NULL", 2, 40, FALSE)
              [] OTHER -> NoOp)
      [] t.u = "COLLATE" -> OpI("bin", "COLLATE", 1, 110, FALSE)
      [] OTHER -> NoOp
  ELSE NoOp

OpAt(B, T, i) == CASE B = "mysql" -> MyOp(T, i) [] B = "pg" -> PgOp(T, i) [] OTHER -> LiteOp(T, i)

KwLeaves == {"NULL", "TRUE", "FALSE", "CURRENT_DATE", "CURRENT_TIME", "CURRENT_TIMESTAMP", "DEFAULT"}

\* index of the ")" matching the "(" at i (0 if none)
RECURSIVE MatchFrom(_, _, _)
MatchFrom(T, j, depth) ==
  IF j > Len(T) THEN 0
  ELSE IF T[j].k = "lp" THEN MatchFrom(T, j + 1, depth + 1)
  ELSE IF T[j].k = "rp" THEN (IF depth = 1 THEN j ELSE MatchFrom(T, j + 1, depth - 1))
  ELSE MatchFrom(T, j + 1, depth)
MatchParen(T, i) == MatchFrom(T, i + 1, 1)

StartsSubquery(T, i) == IsW(T, i, "SELECT") \/ IsW(T, i, "WITH") \/ IsW(T, i, "VALUES")

RECURSIVE ParseExpr(_, _, _, _), ParsePrefix(_, _, _), ParseInfix(_, _, _, _, _),
          ParseList(_, _, _, _), ParseArgs(_, _, _, _), ParseWhens(_, _, _, _), ParseQual(_, _, _, _)

\* expr { "," expr } up to (not including) the closing ")" ; i = first token
ParseList(B, T, i, acc) ==
  LET r == ParseExpr(B, T, i, 0) IN
  IF ~r.ok THEN r
  ELSE IF Tk(T, r.i).k = "comma" THEN ParseList(B, T, r.i + 1, Append(acc, r.tr))
  ELSE IF Tk(T, r.i).k = "rp" THEN Ok(Append(acc, r.tr), r.i)
  ELSE Err("expected_comma_or_rp", r.i)

\* function arguments: [DISTINCT] expr | *
ParseArgs(B, T, i, acc) ==
  LET d == IsW(T, i, "DISTINCT")
      j == IF d THEN i + 1 ELSE i
      r == ParseExpr(B, T, j, 0)
  IN IF ~r.ok THEN r
     ELSE LET a == [d |-> d, e |-> r.tr] IN
       IF Tk(T, r.i).k = "comma" THEN ParseArgs(B, T, r.i + 1, Append(acc, a))
       ELSE IF Tk(T, r.i).k = "rp" THEN Ok(Append(acc, a), r.i)
       ELSE Err("expected_comma_or_rp_in_args", r.i)

\* WHEN c THEN r ... ; i at WHEN
ParseWhens(B, T, i, acc) ==
  IF ~IsW(T, i, "WHEN") THEN Ok(acc, i)
  ELSE LET c == ParseExpr(B, T, i + 1, 0) IN
    IF ~c.ok THEN c
    ELSE IF ~IsW(T, c.i, "THEN") THEN Err("expected_THEN", c.i)
    ELSE LET r == ParseExpr(B, T, c.i + 1, 0) IN
      IF ~r.ok THEN r ELSE ParseWhens(B, T, r.i, Append(acc, [c |-> c.tr, r |-> r.tr]))

\* qualified name continuation: name { "." name | "." "*" }
ParseQual(T, i, quals, last) ==
  IF Tk(T, i).k = "dot" THEN
    IF Tk(T, i + 1).k \in {"qid", "word"} THEN
      ParseQual(T, i + 2, Append(quals, last), IF Tk(T, i + 1).k = "qid" THEN Tk(T, i + 1).v ELSE Tk(T, i + 1).t)
    ELSE IF IsOp(T, i + 1, "*") THEN Ok([k |-> "star", q |-> Append(quals, last)], i + 2)
    ELSE Err("bad_qualified_name", i + 1)
  ELSE Ok([k |-> "col", q |-> quals, n |-> last], i)

ParsePrefix(B, T, i) ==
  LET t == Tk(T, i) IN
  CASE t.k = "eof" -> Err("unexpected_end", i)
    [] t.k = "bad" -> Err("illegal_token:" \o t.f, i)
    [] t.k = "num" -> Ok([k |-> "num", t |-> t.t], i + 1)
    [] t.k = "str" -> Ok([k |-> "str", v |-> t.v], i + 1)
    [] t.k \in {"blob", "bitstr"} -> Ok([k |-> "blob", v |-> t.v], i + 1)
    [] t.k = "ph" -> Ok([k |-> "ph", n |-> t.v], i + 1)
    [] t.k = "qid" -> ParseQual(T, i + 1, <<>>, t.v)
    [] t.k = "lp" ->
         IF StartsSubquery(T, i + 1) THEN
           LET m == MatchParen(T, i) IN
           IF m = 0 THEN Err("unbalanced_paren", i) ELSE Ok([k |-> "subq", op |-> ""], m + 1)
         ELSE LET r == ParseList(B, T, i + 1, <<>>) IN
           IF ~r.ok THEN r
           ELSE IF Len(r.tr) = 1 THEN Ok(r.tr[1], r.i + 1)
           ELSE Ok([k |-> "tuple", es |-> r.tr], r.i + 1)
    [] t.k = "op" ->
         IF t.t \in {"-", "+", "~"} THEN
           LET r == ParseExpr(B, T, i + 1, BpUnary(B)) IN
           IF ~r.ok THEN r ELSE Ok([k |-> "un", op |-> t.t, e |-> r.tr], r.i)
         ELSE IF t.t = "*" THEN Ok([k |-> "star", q |-> <<>>], i + 1)
         ELSE IF t.t = "!" /\ B = "mysql" THEN
           LET r == ParseExpr(B, T, i + 1, 130) IN
           IF ~r.ok THEN r ELSE Ok([k |-> "un", op |-> "!", e |-> r.tr], r.i)
         ELSE Err("unexpected_operator:" \o t.t, i)
    [] t.k = "word" ->
         IF t.u = "NOT" THEN
           LET r == ParseExpr(B, T, i + 1, BpNot(B)) IN
           IF ~r.ok THEN r ELSE Ok([k |-> "un", op |-> "NOT", e |-> r.tr], r.i)
         ELSE IF t.u \in {"EXISTS", "ANY", "SOME", "ALL"} /\ Tk(T, i + 1).k = "lp" /\ StartsSubquery(T, i + 2) THEN
           LET m == MatchParen(T, i + 1) IN
           IF m = 0 THEN Err("unbalanced_paren", i) ELSE Ok([k |-> "subq", op |-> t.u], m + 1)
         ELSE IF t.u = "CASE" THEN
           LET hasOperand == ~IsW(T, i + 1, "WHEN")
               opnd == IF hasOperand THEN ParseExpr(B, T, i + 1, 0) ELSE Ok(None, i + 1)
           IN IF ~opnd.ok THEN opnd
              ELSE LET ws == ParseWhens(B, T, opnd.i, <<>>) IN
                IF ~ws.ok THEN ws
                ELSE IF Len(ws.tr) = 0 THEN Err("case_without_when", ws.i)
                ELSE LET el == IF IsW(T, ws.i, "ELSE") THEN ParseExpr(B, T, ws.i + 1, 0) ELSE Ok(None, ws.i) IN
                  IF ~el.ok THEN el
                  ELSE IF ~IsW(T, el.i, "END") THEN Err("expected_END", el.i)
                  ELSE Ok([k |-> "case", operand |-> opnd.tr, whens |-> ws.tr, else |-> el.tr], el.i + 1)
         ELSE IF t.u = "CAST" /\ Tk(T, i + 1).k = "lp" THEN
           LET m == MatchParen(T, i + 1)
               r == ParseExpr(B, T, i + 2, 0)
           IN IF m = 0 THEN Err("unbalanced_paren", i)
              ELSE IF ~r.ok THEN r
              ELSE IF ~IsW(T, r.i, "AS") THEN Err("expected_AS_in_cast", r.i)
              ELSE IF r.i + 1 >= m THEN Err("missing_type_in_cast", r.i)
              ELSE Ok([k |-> "cast", e |-> r.tr, ty |-> [j \in 1..(m - r.i - 1) |-> T[r.i + j].t]], m + 1)
         ELSE IF Tk(T, i + 1).k = "lp" /\ t.u \notin KwLeaves THEN
           IF Tk(T, i + 2).k = "rp" THEN Ok([k |-> "fn", name |-> t.u, args |-> <<>>], i + 3)
           ELSE LET r == ParseArgs(B, T, i + 2, <<>>) IN
             IF ~r.ok THEN r ELSE Ok([k |-> "fn", name |-> t.u, args |-> r.tr], r.i + 1)
         ELSE IF t.u \in KwLeaves THEN Ok([k |-> "kw", w |-> t.u], i + 1)
         ELSE IF Tk(T, i + 1).k = "dot" THEN ParseQual(T, i + 1, <<>>, t.t)
         ELSE Ok([k |-> "word", t |-> t.t], i + 1)
    [] OTHER -> Err("unexpected_token:" \o t.k, i)

ParseInfix(B, T, L, i, minbp) ==
  LET o == OpAt(B, T, i) IN
  IF o.form = "none" \/ o.bp < minbp THEN Ok(L, i)
  ELSE IF o.form = "unknown" THEN Err("unknown_operator:" \o o.name, i)
  ELSE
    LET j == i + o.n
        \* after building node N ending at index e: continue the loop; for a
        \* non-associative operator the next operator may not be of the same level
        Cont(N, e) ==
          LET nx == OpAt(B, T, e) IN
          IF o.na /\ nx.form # "none" /\ nx.bp = o.bp /\ nx.bp >= minbp THEN Err("non_associative_chain:" \o nx.name, e)
          ELSE ParseInfix(B, T, N, e, minbp)
    IN
    CASE o.form = "bin" ->
           LET r == ParseExpr(B, T, j, o.bp + 1) IN
           IF ~r.ok THEN r ELSE Cont([k |-> "bin", op |-> o.name, l |-> L, r |-> r.tr], r.i)
      [] o.form = "postfix" -> Cont([k |-> "un", op |-> o.name, e |-> L], j)
      [] o.form = "like" ->
           LET p == ParseExpr(B, T, j, o.bp + 1) IN
           IF ~p.ok THEN p
           ELSE IF IsW(T, p.i, "ESCAPE") THEN
             LET c == ParseExpr(B, T, p.i + 1, o.bp + 1) IN
             IF ~c.ok THEN c ELSE Cont([k |-> "like", op |-> o.name, e |-> L, p |-> p.tr, esc |-> c.tr], c.i)
           ELSE Cont([k |-> "like", op |-> o.name, e |-> L, p |-> p.tr, esc |-> None], p.i)
      [] o.form = "in" ->
           IF Tk(T, j).k # "lp" THEN Err("expected_lp_after_IN", j)
           ELSE IF StartsSubquery(T, j + 1) THEN
             LET m == MatchParen(T, j) IN
             IF m = 0 THEN Err("unbalanced_paren", j)
             ELSE Cont([k |-> "in", neg |-> o.name = "NOT IN", e |-> L, set |-> [k |-> "subq", op |-> ""]], m + 1)
           ELSE IF Tk(T, j + 1).k = "rp" THEN
             Cont([k |-> "in", neg |-> o.name = "NOT IN", e |-> L, set |-> [k |-> "tuple", es |-> <<>>]], j + 2)
           ELSE LET r == ParseList(B, T, j + 1, <<>>) IN
             IF ~r.ok THEN r
             ELSE Cont([k |-> "in", neg |-> o.name = "NOT IN", e |-> L, set |-> [k |-> "tuple", es |-> r.tr]], r.i + 1)
      [] o.form = "between" ->
           LET a == ParseExpr(B, T, j, BpBoundA(B)) IN
           IF ~a.ok THEN a
           ELSE IF ~IsW(T, a.i, "AND") THEN Err("expected_AND_in_between", a.i)
           ELSE LET b == ParseExpr(B, T, a.i + 1, BpBoundB(B)) IN
             IF ~b.ok THEN b
             ELSE Cont([k |-> "between", neg |-> o.name = "NOT BETWEEN", e |-> L, a |-> a.tr, b |-> b.tr], b.i)

ParseExpr(B, T, i, minbp) ==
  LET p == ParsePrefix(B, T, i) IN
  IF ~p.ok THEN p ELSE ParseInfix(B, T, p.tr, p.i, minbp)

\* parse a complete token sequence (already Norm-ed) as one expression
ParseWhole(B, T) ==
  LET r == ParseExpr(B, T, 1, 0) IN
  IF ~r.ok THEN r
  ELSE IF r.i # Len(T) + 1 THEN Err("trailing_tokens", r.i) ELSE r
=============================================================================
