------------------------------- MODULE Insert -------------------------------
(***************************************************************************)
(* src/query/insert.rs as a state machine (columns / source /              *)
(* default_values) with one action per public call, the VALUES / DEFAULT   *)
(* VALUES branches of prepare_insert_statement, and — separately — the     *)
(* property-level reading of C10: which rows a history has had accepted    *)
(* (Abs) and what a rendered INSERT must then look like.                   *)
(***************************************************************************)
EXTENDS Expr, StmtScan

(*********************  implementation-level model  ************************)
NoSource == [k |-> "none"]
InitStmt == [cols |-> <<>>, source |-> NoSource, dv |-> 0]

\* result of a call: [st (new statement), res]
Res(st, res) == [st |-> st, res |-> res]
OkRes == [ok |-> TRUE]
ErrRes(c, v) == [ok |-> FALSE, col_len |-> c, val_len |-> v]

DoValues(st, row) ==
  IF Len(st.cols) # Len(row) THEN Res(st, ErrRes(Len(st.cols), Len(row)))
  ELSE IF Len(row) = 0 THEN Res(st, OkRes)                      \* "if !values.is_empty()"
  ELSE IF st.source.k = "values" THEN Res([st EXCEPT !.source.rows = Append(@, row)], OkRes)
  ELSE Res([st EXCEPT !.source = [k |-> "values", rows |-> <<row>>]], OkRes)

DoSelectFrom(st, q) ==
  LET w == q.width IN
  IF Len(st.cols) # w THEN Res(st, ErrRes(Len(st.cols), w))
  ELSE Res([st EXCEPT !.source = [k |-> "select", width |-> w, star |-> "calls" \in DOMAIN q /\ Len(q.calls) > 0 /\ q.calls[1].op = "column"]], OkRes)

\* values_from_panic: row by row, panics (res.panic) at the first mismatch, keeping earlier rows
RECURSIVE DoValuesFrom(_, _, _)
DoValuesFrom(st, rows, i) ==
  IF i > Len(rows) THEN Res(st, [unit |-> TRUE])
  ELSE LET r == DoValues(st, rows[i]) IN
       IF ~r.res.ok THEN Res(st, [panic |-> TRUE]) ELSE DoValuesFrom(r.st, rows, i + 1)

Call(st, c) ==
  CASE c.op = "columns" -> Res([st EXCEPT !.cols = c.cols], [unit |-> TRUE])
    [] c.op = "values" -> DoValues(st, c.row)
    [] c.op = "values_panic" -> LET r == DoValues(st, c.row) IN IF r.res.ok THEN Res(r.st, [unit |-> TRUE]) ELSE Res(st, [panic |-> TRUE])
    [] c.op = "values_from_panic" -> DoValuesFrom(st, c.rows, 1)
    [] c.op = "select_from" -> DoSelectFrom(st, c.q)
    [] c.op = "or_default_values" -> Res([st EXCEPT !.dv = 1], [unit |-> TRUE])
    [] c.op = "or_default_values_many" -> Res([st EXCEPT !.dv = c.n], [unit |-> TRUE])

\* prepare_insert_statement (table t, no with / on conflict / returning)
RenderInsert(B, st) ==
  LET q == QuoteOf(B)
      head == "INSERT INTO " \o Prepare("t", q, q)
  IN IF st.dv > 0 /\ Len(st.cols) = 0 /\ st.source.k = "none" THEN
       head \o " " \o
       (IF B = "sqlite" THEN "DEFAULT VALUES"
        ELSE "VALUES " \o JoinStrs([i \in 1..st.dv |-> IF B = "mysql" THEN "()" ELSE "(DEFAULT)"], ", "))
     ELSE head \o " (" \o JoinStrs([i \in DOMAIN st.cols |-> Prepare(st.cols[i], q, q)], ", ") \o ")" \o
       (CASE st.source.k = "none" -> ""
          [] st.source.k = "values" ->
               " VALUES " \o JoinStrs([i \in DOMAIN st.source.rows |->
                   "(" \o JoinStrs([j \in DOMAIN st.source.rows[i] |-> RenderExpr(B, FALSE, st.source.rows[i][j])], ", ") \o ")"], ", ")
          [] st.source.k = "select" ->
               IF st.source.star THEN " SELECT * FROM " \o Prepare("s", QuoteOf(B), QuoteOf(B))
               ELSE " SELECT " \o JoinStrs([i \in 1..st.source.width |-> NatToStr(900 + i)], ", "))

(***************************  property level  ******************************)
\* what a history has had accepted, by the property's own reading
AbsInit == [cols |-> <<>>, src |-> "none", rows |-> <<>>, dv |-> 0, redeclared |-> FALSE, selw |-> 0]
AbsValues(a, row) ==
  IF Len(a.cols) # Len(row) THEN a
  ELSE [a EXCEPT !.src = "values", !.rows = IF a.src = "values" THEN Append(@, row) ELSE <<row>>]
RECURSIVE AbsValuesFrom(_, _, _)
AbsValuesFrom(a, rows, i) ==
  IF i > Len(rows) \/ Len(a.cols) # Len(rows[i]) THEN a ELSE AbsValuesFrom(AbsValues(a, rows[i]), rows, i + 1)
AbsCall(a, c) ==
  CASE c.op = "columns" ->
         [a EXCEPT !.cols = c.cols,
                   !.redeclared = @ \/ (a.src = "values" /\ \E i \in DOMAIN a.rows : Len(a.rows[i]) # Len(c.cols))
                                    \/ (a.src = "select" /\ a.selw # Len(c.cols))]
    [] c.op \in {"values", "values_panic"} -> AbsValues(a, c.row)
    [] c.op = "values_from_panic" -> AbsValuesFrom(a, c.rows, 1)
    [] c.op = "select_from" -> IF Len(a.cols) = c.q.width THEN [a EXCEPT !.src = "select", !.rows = <<>>, !.selw = c.q.width] ELSE a
    [] c.op = "or_default_values" -> [a EXCEPT !.dv = 1]
    [] c.op = "or_default_values_many" -> [a EXCEPT !.dv = c.n]
RECURSIVE AbsAfter(_, _)
AbsAfter(calls, n) == IF n = 0 THEN AbsInit ELSE AbsCall(AbsAfter(calls, n - 1), calls[n])

\* the result the property demands for call c in abstract state a: "ok", "err", "panic" or "unit"
Demand(a, c) ==
  CASE c.op = "values" -> IF Len(a.cols) = Len(c.row) THEN [k |-> "ok"] ELSE [k |-> "err", col_len |-> Len(a.cols), val_len |-> Len(c.row)]
    [] c.op = "select_from" -> IF Len(a.cols) = c.q.width THEN [k |-> "ok"] ELSE [k |-> "err", col_len |-> Len(a.cols), val_len |-> c.q.width]
    [] c.op = "values_panic" -> IF Len(a.cols) = Len(c.row) THEN [k |-> "unit"] ELSE [k |-> "panic"]
    [] c.op = "values_from_panic" -> IF \A i \in DOMAIN c.rows : Len(c.rows[i]) = Len(a.cols) THEN [k |-> "unit"] ELSE [k |-> "panic"]
    [] OTHER -> [k |-> "unit"]

\* parse "INSERT INTO t [(cols)] VALUES (..),.. | SELECT .. | DEFAULT VALUES"
RECURSIVE ParseRows(_, _, _, _), ParseNames(_, _, _)
ParseNames(T, i, acc) ==      \* i at first name or at ")"
  IF Tk(T, i).k = "rp" THEN Ok(acc, i)
  ELSE IF Tk(T, i).k # "qid" THEN Err("expected_column_name", i)
  ELSE IF Tk(T, i + 1).k = "comma" THEN ParseNames(T, i + 2, Append(acc, T[i].v))
  ELSE IF Tk(T, i + 1).k = "rp" THEN Ok(Append(acc, T[i].v), i + 1)
  ELSE Err("expected_comma_or_rp_in_columns", i + 1)
ParseRows(B, T, i, acc) ==    \* i at "("
  IF Tk(T, i).k # "lp" THEN Err("expected_row", i)
  ELSE LET r == IF Tk(T, i + 1).k = "rp" THEN Ok(<<>>, i + 1) ELSE ParseList(B, T, i + 1, <<>>) IN
    IF ~r.ok THEN r
    ELSE IF Tk(T, r.i + 1).k = "comma" THEN ParseRows(B, T, r.i + 2, Append(acc, r.tr))
    ELSE Ok(Append(acc, r.tr), r.i + 1)
ParseInsert(B, sql) ==
  LET T == Norm(Lex(B, sql)) IN
  IF ~(IsW(T, 1, "INSERT") \/ IsW(T, 1, "REPLACE")) \/ ~IsW(T, 2, "INTO") \/ Tk(T, 3).k # "qid" THEN [ok |-> FALSE, why |-> "not_an_insert"]
  ELSE LET hasCols == Tk(T, 4).k = "lp"
           cs == IF hasCols THEN ParseNames(T, 5, <<>>) ELSE Ok(<<>>, 3)
       IN IF ~cs.ok THEN [ok |-> FALSE, why |-> cs.tr.why]
          ELSE LET j == cs.i + 1 IN
            IF j > Len(T) THEN [ok |-> TRUE, hasCols |-> hasCols, cols |-> cs.tr, kind |-> "none", rows |-> <<>>]
            ELSE IF IsW(T, j, "DEFAULT") /\ IsW(T, j + 1, "VALUES") /\ j + 1 = Len(T)
              THEN [ok |-> TRUE, hasCols |-> hasCols, cols |-> cs.tr, kind |-> "default", rows |-> <<>>]
            ELSE IF IsW(T, j, "VALUES") THEN
              LET rs == ParseRows(B, T, j + 1, <<>>) IN
              IF ~rs.ok THEN [ok |-> FALSE, why |-> rs.tr.why]
              ELSE IF rs.i # Len(T) + 1 THEN [ok |-> FALSE, why |-> "trailing_tokens_after_values"]
              ELSE [ok |-> TRUE, hasCols |-> hasCols, cols |-> cs.tr, kind |-> "values", rows |-> rs.tr]
            ELSE IF IsW(T, j, "SELECT") THEN [ok |-> TRUE, hasCols |-> hasCols, cols |-> cs.tr, kind |-> "select", rows |-> <<>>]
            ELSE [ok |-> FALSE, why |-> "unexpected_after_columns"]

IsDefaultRow(B, row) == IF B = "mysql" THEN row = <<>> ELSE row = <<[k |-> "kw", w |-> "DEFAULT"]>>

\* reason keys for the rendering sql of a statement whose history means a
RenderReasons(B, a, sql) ==
  LET p == ParseInsert(B, sql) IN
  IF ~p.ok THEN {"does_not_parse:" \o p.why}
  ELSE IF a.src = "values" THEN
    LET want == [i \in DOMAIN a.rows |-> [j \in DOMAIN a.rows[i] |-> Canon(B, a.rows[i][j])]] IN
    IF \E i \in DOMAIN a.rows : Len(a.rows[i]) = 0 THEN
      \* accepted zero-column rows: must show as default rows
      IF (p.kind = "default" /\ Len(a.rows) = 1) \/ (p.kind = "values" /\ Len(p.rows) = Len(a.rows) /\ \A i \in DOMAIN p.rows : IsDefaultRow(B, p.rows[i]))
      THEN {} ELSE {"accepted_empty_row_missing"}
    ELSE IF p.kind # "values" THEN {"accepted_rows_missing"}
    ELSE (IF p.cols # a.cols THEN {"columns_differ"} ELSE {})
         \cup (IF p.rows # want THEN {"rows_differ"} ELSE {})
         \cup (IF \E i \in DOMAIN p.rows : Len(p.rows[i]) # Len(p.cols)
               THEN {IF a.redeclared THEN "not_rectangular/columns_redeclared_after_rows" ELSE "not_rectangular"} ELSE {})
  ELSE IF a.src = "select" THEN
    (IF p.kind # "select" THEN {"select_source_missing"} ELSE {})
    \cup (IF p.cols # a.cols THEN {"columns_differ"} ELSE {})
    \cup (IF Len(p.cols) # a.selw THEN {IF a.redeclared THEN "select_width_differs/columns_redeclared_after_rows" ELSE "select_width_differs"} ELSE {})
  ELSE IF a.dv > 0 /\ Len(a.cols) = 0 THEN
    (IF p.kind = "default" \/ (p.kind = "values" /\ Len(p.rows) = a.dv /\ \A i \in DOMAIN p.rows : IsDefaultRow(B, p.rows[i]))
     THEN {} ELSE {"default_rows_missing"})
  ELSE IF p.kind \in {"values", "select"} THEN {"rows_without_accepted_row"} ELSE {}
=============================================================================
