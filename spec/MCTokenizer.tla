---------------------------- MODULE MCTokenizer ----------------------------
(* Design check of the tokenizer: one behaviour per input string, one      *)
(* action per call of Tokenizer::next.                                     *)
EXTENDS Tokenizer, FiniteSets

CONSTANT MaxLen
Alpha == JsonDeserialize("tok_alphabet.json")     \* sequence of [c, al]
K == Len(Alpha)
AlphaC == [i \in 1..K |-> Alpha[i].c]
AlphaA == [i \in 1..K |-> Alpha[i].al]

VARIABLES w, p, toks
vars == <<w, p, toks>>
S  == StrOf(AlphaC, w)
AL == StrOf(AlphaA, w)

Init == w \in Words(K, MaxLen) /\ p = 1 /\ toks = <<>>

Step ==
  /\ p <= Len(w)
  /\ LET n == NextTok(S, AL, p) IN
     /\ n.k # "None"
     /\ toks' = Append(toks, [k |-> n.k, t |-> SubSeq(S, p, n.e - 1)])
     /\ p' = n.e
  /\ UNCHANGED w
Done == p > Len(w) /\ UNCHANGED vars
Next == Step \/ Done
Spec == Init /\ [][Next]_vars /\ WF_vars(Step)

\* --- invariants (safety part of C16 on the model) ---
LosslessSoFar == ConcatToks(toks) = SubSeq(S, 1, p - 1)
NonEmpty      == \A i \in DOMAIN toks : toks[i].t # ""
NeverStuck    == p <= Len(w) => NextTok(S, AL, p).k # "None"
AbsWhenDone   == p > Len(w) => AbsReasons(S, toks) = {}
FunctionalEq  == p > Len(w) => toks = Tokenize(S, AL)
StepBound     == Len(toks) <= Len(w)
\* the premise of TokenizerProof.tla (TLAPS, any length): from every position the scanner ends strictly further on
ScannerAdvances == \A q \in 1..Len(w) : NextTok(S, AL, q).e \in (q + 1)..(Len(w) + 1)
\* --- action property / liveness ---
Progress  == [][p' > p \/ UNCHANGED vars]_vars
Terminates == <>(p > Len(w))

\* generation: one CASE line per completed behaviour
Emit == p > Len(w) => PrintT(<<"CASE", ToJson(w)>>)
=============================================================================
