------------------------------- MODULE MCValue -------------------------------
(* The laws of C12 checked on the conversion table; one state per matrix   *)
(* cell; each cell is emitted for replay on the real crate.                *)
EXTENDS Value, Json
VARIABLES s, t, opt, null
Init == s \in SourceTypes /\ t \in TargetTypes /\ opt \in BOOLEAN /\ null \in BOOLEAN /\ ~(t = "Cow<str>" /\ opt)
Next == UNCHANGED <<s, t, opt, null>>
Spec == Init /\ [][Next]_<<s, t, opt, null>>
R == TryFrom(t, opt, From(s, null))
\* x -> Value -> x ; None -> NULL of own variant -> None ; Some never None ; other type fails
RoundTrip == (s = t /\ ~null) => R = "ok"
NoneRoundTrip == (s = t /\ null /\ opt) => R = "none"
SomeNeverNone == ~null => R # "none"
WrongTypeFails == VariantOf(s) # VariantOf(t) => R = "err"
NullNeedsOption == (null /\ ~opt) => R = "err"
Emit == PrintT(<<"CASE", ToJson([src |-> s, tgt |-> t, opt |-> opt, null |-> null])>>)
=============================================================================
