-------------------------------- MODULE Ident --------------------------------
(***************************************************************************)
(* Identifier quoting (src/types.rs: Iden::prepare / Iden::quoted; Quote   *)
(* per backend) and the property-level relation of C04: the quoted text is *)
(* one quoted-identifier token of the engine that decodes to the name.     *)
(***************************************************************************)
EXTENDS EngineLex

QuoteOf(B) == IF B = "mysql" THEN "`" ELSE "\""

\* Iden::quoted: double the closing quote byte;  Iden::prepare: wrap
RECURSIVE DoubleFrom(_, _, _)
DoubleFrom(s, i, q) == IF i > Len(s) THEN "" ELSE (IF Ch(s, i) = q THEN q \o q ELSE Ch(s, i)) \o DoubleFrom(s, i + 1, q)
Quoted(name, q) == DoubleFrom(name, 1, q)
Prepare(name, ql, qr) == ql \o Quoted(name, qr) \o qr

InDomIdent(name) == name # "" /\ ~\E i \in 1..Len(name) : Ch(name, i) = NUL

\* Reasons why `text` is not exactly one quoted identifier of engine B denoting name
IdentReasons(B, text, name) ==
  LET toks == Lex(B, text) IN
  IF Len(toks) # 1 THEN {"not_single_token"}
  ELSE IF toks[1].k # "qid" THEN {"not_a_quoted_identifier:" \o toks[1].k}
  ELSE IF toks[1].v # name THEN {"decodes_differently"} ELSE {}

\* statement-level: the tokens at the reference name's positions are quoted
\* identifiers decoding to name, and no other token depends on the name
SlotReasons(B, sql, ref, refname, name) ==
  LET T == Lex(B, sql)
      R == Lex(B, ref)
      IsSlot(i) == R[i].k = "qid" /\ R[i].v = refname
  IN IF ~\E i \in DOMAIN R : IsSlot(i) THEN {"?position_not_rendered"}
     ELSE IF Len(T) # Len(R) THEN {"token_count_changes"}
     ELSE IF \E i \in DOMAIN R : T[i].k # R[i].k THEN {"token_kind_changes"}
     ELSE IF \E i \in DOMAIN R : IsSlot(i) /\ T[i].v # name THEN {"decodes_differently"}
     ELSE IF \E i \in DOMAIN R : ~IsSlot(i) /\ T[i].t # R[i].t THEN {"other_token_changes"}
     ELSE {}
=============================================================================
