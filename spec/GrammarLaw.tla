----------------------------- MODULE GrammarLaw -----------------------------
(***************************************************************************)
(* C08 (and the syntactic half of C07): what an engine of dialect B must   *)
(* read back from the rendering of a built statement.  Expected(B, s) maps *)
(* the abstract builder state s (Stmt.tla) to the shape EngineGrammar's    *)
(* ParseStmt returns — every clause given that the dialect supports, once, *)
(* in grammar position, items in call order, with the dialect's documented *)
(* substitutions (MySQL NULLS emulation, VALUES(col) / excluded.col, ROW,  *)
(* default rows, omitted lock / RETURNING).  Mismatch(..) names the first  *)
(* clause that differs.                                                    *)
(***************************************************************************)
EXTENDS StmtLaw, EngineGrammar

Num(n) == [k |-> "num", t |-> NatToStr(n)]
ColT(n) == [k |-> "col", q |-> <<>>, n |-> n]
RECURSIVE Expected(_, _), ExpCore(_, _), ExpTable(_, _), ExpWindow(_, _), ExpOrders(_, _)

ExpHolder(B, h) == IF h.k = "empty" THEN NoneG ELSE CanonCond(B, h)
ExpCondField(B, oc, f) == IF f \in DOMAIN oc THEN CanonCond(B, IntoCondition(oc[f])) ELSE NoneG

ExpOrderItems(B, o) ==
  LET e == Canon(B, o.e) IN
  IF o.o.d = "Field" THEN
    LET cs == [k |-> "case", operand |-> None,
               whens |-> [i \in DOMAIN o.o.field |-> [c |-> [k |-> "bin", op |-> "=", l |-> e, r |-> CanonVal(o.o.field[i])], r |-> Num(i - 1)]],
               else |-> Num(Len(o.o.field))]
    IN IF B = "mysql" /\ o.nulls # "none"
       THEN << [e |-> [k |-> "bin", op |-> "IS", l |-> e, r |-> [k |-> "kw", w |-> "NULL"]], dir |-> IF o.nulls = "Last" THEN "ASC" ELSE "DESC", nulls |-> "none"],
               [e |-> cs, dir |-> "none", nulls |-> "none"] >>
       ELSE << [e |-> cs, dir |-> "none", nulls |-> IF o.nulls = "none" THEN "none" ELSE IF o.nulls = "Last" THEN "NULLS LAST" ELSE "NULLS FIRST"] >>
  ELSE
    LET dir == IF o.o.d = "Asc" THEN "ASC" ELSE "DESC" IN
    IF B = "mysql" /\ o.nulls # "none"
    THEN << [e |-> [k |-> "bin", op |-> "IS", l |-> e, r |-> [k |-> "kw", w |-> "NULL"]], dir |-> IF o.nulls = "Last" THEN "ASC" ELSE "DESC", nulls |-> "none"],
            [e |-> e, dir |-> dir, nulls |-> "none"] >>
    ELSE << [e |-> e, dir |-> dir, nulls |-> IF o.nulls = "none" THEN "none" ELSE IF o.nulls = "Last" THEN "NULLS LAST" ELSE "NULLS FIRST"] >>
ExpOrders(B, os) == FlatSeq([i \in DOMAIN os |-> ExpOrderItems(B, os[i])])

ExpBound(f) ==
  CASE f.b = "UnboundedPreceding" -> [b |-> "UNBOUNDED PRECEDING", n |-> ""]
    [] f.b = "UnboundedFollowing" -> [b |-> "UNBOUNDED FOLLOWING", n |-> ""]
    [] f.b = "CurrentRow" -> [b |-> "CURRENT ROW", n |-> ""]
    [] f.b = "Preceding" -> [b |-> "PRECEDING", n |-> NatToStr(f.n)]
    [] f.b = "Following" -> [b |-> "FOLLOWING", n |-> NatToStr(f.n)]
ExpWindow(B, w) ==
  LET ps == Get(w, "partition", <<>>)  os == Get(w, "order", <<>>)  fr == Get(w, "frame", NoneV) IN
  [partition |-> CanonSeq(B, ps), orders |-> ExpOrders(B, [i \in DOMAIN os |-> OrderRec(os[i])]),
   frame |-> IF fr = NoneV THEN NoneG
             ELSE [type |-> IF fr.type = "Range" THEN "RANGE" ELSE "ROWS", start |-> ExpBound(fr.start),
                   end |-> IF "end" \in DOMAIN fr THEN ExpBound(fr.end) ELSE NoneG]]

ExpTable(B, t) ==
  CASE t.k = "table" -> [k |-> "table", names |-> t.t, a |-> "", hints |-> <<>>, sample |-> NoneG]
    [] t.k = "alias" -> [k |-> "table", names |-> t.t, a |-> t.a, hints |-> <<>>, sample |-> NoneG]
    [] t.k = "subq" -> [k |-> "subq", q |-> Expected(B, t.q), a |-> t.a]
    [] t.k = "values" -> [k |-> "values", a |-> t.a,
                          rows |-> [i \in DOMAIN t.rows |-> [row |-> [j \in DOMAIN t.rows[i] |-> CanonVal(t.rows[i][j])], rowkw |-> B = "mysql"]]]

HintToks(h) ==
  <<CASE h.type = "use_index" -> "USE" [] h.type = "ignore_index" -> "IGNORE" [] OTHER -> "FORCE", "INDEX">>
  \o (CASE h.scope = "Join" -> <<"FOR JOIN">> [] h.scope = "OrderBy" -> <<"FOR ORDER BY">> [] h.scope = "GroupBy" -> <<"FOR GROUP BY">> [] OTHER -> <<>>)
  \o <<"(", h.name, ")">>

ExpWith(B, w) ==
  IF IsNone(w) THEN NoneG
  ELSE [k |-> "with", recursive |-> w.recursive,
        \* SEARCH / CYCLE: PostgreSQL only, given once per WITH clause; they belong to the last CTE
        ctes |-> [i \in DOMAIN w.ctes |-> [name |-> w.ctes[i].name, cols |-> w.ctes[i].cols,
                                           mat |-> IF B = "mysql" THEN "none" ELSE w.ctes[i].mat, q |-> Expected(B, w.ctes[i].q),
                                           search |-> IF B = "pg" /\ w.recursive /\ i = Len(w.ctes) /\ ~IsNone(w.search)
                                                      THEN [k |-> "some", order |-> w.search.v.order, by |-> w.search.v.e.n, set |-> w.search.v.set] ELSE [k |-> "none"],
                                           cycle |-> IF B = "pg" /\ w.recursive /\ i = Len(w.ctes) /\ ~IsNone(w.cycle)
                                                     THEN [k |-> "some", col |-> w.cycle.v.e.n, set |-> w.cycle.v.set, using |-> w.cycle.v.using] ELSE [k |-> "none"]]]]

ExpCore(B, s) ==
  LET fromT == [i \in DOMAIN s.from |-> ExpTable(B, s.from[i])]
      hints == IF B = "mysql" THEN FlatSeq([i \in DOMAIN s.hints |-> HintToks(s.hints[i])]) ELSE <<>>
      from2 == IF Len(fromT) > 0 /\ Len(hints) > 0 /\ fromT[Len(fromT)].k = "table"
               THEN [fromT EXCEPT ![Len(fromT)].hints = hints] ELSE fromT
      from3 == IF B = "pg" /\ ~IsNone(s.sample) /\ Len(from2) > 0 /\ from2[Len(from2)].k = "table"
               THEN [from2 EXCEPT ![Len(from2)].sample = [k |-> "sample", method |-> s.sample.method, pct |-> NatToStr(s.sample.pct),
                                                          rep |-> IF IsNone(s.sample.rep) THEN "" ELSE NatToStr(s.sample.rep.v)]] ELSE from2
  IN [distinct |-> IF IsNone(s.distinct) THEN NoneG ELSE IF s.distinct.k = "distinct" THEN [k |-> "distinct"] ELSE [k |-> "on", cols |-> s.distinct.cols],
      items |-> [i \in DOMAIN s.selects |->
                   [e |-> Canon(B, s.selects[i].e),
                    over |-> IF IsNone(s.selects[i].w) THEN NoneG
                             ELSE IF s.selects[i].w.k = "name" THEN [k |-> "name", n |-> s.selects[i].w.n]
                             ELSE [k |-> "def", w |-> ExpWindow(B, s.selects[i].w.w)],
                    alias |-> s.selects[i].a]],
      from |-> from3,
      joins |-> [i \in DOMAIN s.joins |->
                   [jt |-> CASE s.joins[i].jt = "Join" -> "JOIN" [] s.joins[i].jt = "Cross" -> "CROSS JOIN" [] s.joins[i].jt = "Inner" -> "INNER JOIN"
                              [] s.joins[i].jt = "Left" -> "LEFT JOIN" [] s.joins[i].jt = "Right" -> "RIGHT JOIN" [] OTHER -> "FULL OUTER JOIN",
                    lateral |-> s.joins[i].lateral, t |-> ExpTable(B, s.joins[i].t), on |-> ExpHolder(B, s.joins[i].on)]],
      where |-> ExpHolder(B, s.where), groups |-> CanonSeq(B, s.groups), having |-> ExpHolder(B, s.having),
      window |-> IF IsNone(s.window) THEN NoneG ELSE [name |-> s.window.name, w |-> ExpWindow(B, s.window.w)]]

SetText(ty) == CASE ty = "Intersect" -> "INTERSECT" [] ty = "Distinct" -> "UNION" [] ty = "Except" -> "EXCEPT" [] OTHER -> "UNION ALL"
LockRest(lk) ==
  (IF Len(lk.tables) > 0 THEN <<"OF">> \o FlatSeq([i \in DOMAIN lk.tables |-> (IF i > 1 THEN <<",">> ELSE <<>>) \o
       FlatSeq([j \in DOMAIN lk.tables[i] |-> (IF j > 1 THEN <<".">> ELSE <<>>) \o <<lk.tables[i][j]>>])]) ELSE <<>>)
  \o (CASE lk.behavior = "Nowait" -> <<"NOWAIT">> [] lk.behavior = "SkipLocked" -> <<"SKIP LOCKED">> [] OTHER -> <<>>)

ExpReturning(B, r) ==
  IF IsNone(r) \/ B = "mysql" THEN NoneG
  ELSE IF "all" \in DOMAIN r.v THEN [k |-> "all"]
  ELSE IF "cols" \in DOMAIN r.v THEN [k |-> "exprs", es |-> [i \in DOMAIN r.v.cols |-> ColT(r.v.cols[i])]]
  ELSE [k |-> "exprs", es |-> CanonSeq(B, r.v.exprs)]

ExpOnConflict(B, ocw) ==
  IF IsNone(ocw) THEN NoneG
  ELSE LET oc == ocw.v
           cols == Get(oc, "cols", <<>>)  exprs == Get(oc, "exprs", <<>>)
           hasAct == "action" \in DOMAIN oc
           nothing == hasAct /\ ("nothing" \in DOMAIN oc.action \/ ("nothing_on" \in DOMAIN oc.action /\ "update_cols" \notin DOMAIN oc.action /\ "values" \notin DOMAIN oc.action))
           updCols == IF hasAct THEN Get(oc.action, "update_cols", <<>>) ELSE <<>>
           updVals == IF hasAct THEN Get(oc.action, "values", <<>>) ELSE <<>>
           nothingOn == IF hasAct THEN Get(oc.action, "nothing_on", <<>>) ELSE <<>>
           sets == [i \in 1..(Len(updCols) + Len(updVals)) |->
                     IF i <= Len(updCols)
                     THEN [c |-> updCols[i], q |-> "",
                           e |-> IF B = "mysql" THEN [k |-> "fn", name |-> "VALUES", args |-> <<[d |-> FALSE, e |-> ColT(updCols[i])]>>]
                                 ELSE [k |-> "col", q |-> <<"excluded">>, n |-> updCols[i]]]
                     ELSE [c |-> updVals[i - Len(updCols)][1], q |-> "", e |-> Canon(B, updVals[i - Len(updCols)][2])]]
       IN IF B = "mysql" THEN
            \* the MySQL form: ON DUPLICATE KEY UPDATE assignments; "do nothing" is expressed as pk = pk
            IF nothing THEN [k |-> "dupkey", sets |-> [i \in DOMAIN nothingOn |-> [c |-> nothingOn[i], q |-> "", e |-> ColT(nothingOn[i])]]]
            ELSE [k |-> "dupkey", sets |-> sets]
          ELSE [k |-> "conflict",
                targets |-> [i \in 1..(Len(cols) + Len(exprs)) |-> IF i <= Len(cols) THEN ColT(cols[i]) ELSE Canon(B, exprs[i - Len(cols)])],
                target_where |-> ExpCondField(B, oc, "target_where"), nothing |-> nothing,
                sets |-> IF nothing THEN <<>> ELSE sets, action_where |-> ExpCondField(B, oc, "action_where")]

Expected(B, s) ==
  CASE s.kind = "select" ->
         [kind |-> "select", with |-> ExpWith(B, s.with), core |-> ExpCore(B, s),
          sets |-> [i \in DOMAIN s.unions |->
                      IF B = "sqlite" THEN [op |-> SetText(s.unions[i].type), q |-> ExpCore(B, s.unions[i].q), paren |-> FALSE]
                      ELSE [op |-> SetText(s.unions[i].type), q |-> Expected(B, s.unions[i].q), paren |-> TRUE]],
          orders |-> ExpOrders(B, s.orders),
          limit |-> IF IsNone(s.limit) THEN NoneG ELSE Num(s.limit.n), offset |-> IF IsNone(s.offset) THEN NoneG ELSE Num(s.offset.n),
          lock |-> IF IsNone(s.lock) \/ B = "sqlite" THEN NoneG
                   ELSE [type |-> CASE s.lock.type = "Update" -> "FOR UPDATE" [] s.lock.type = "Share" -> "FOR SHARE"
                                    [] s.lock.type = "NoKeyUpdate" -> "FOR NO KEY UPDATE" [] OTHER -> "FOR KEY SHARE", rest |-> LockRest(s.lock)]]
    [] s.kind = "insert" ->
         LET st == s.ins
             defaultPath == st.dv > 0 /\ Len(st.cols) = 0 /\ st.source.k = "none"
         IN [kind |-> "insert", with |-> ExpWith(B, s.with), replace |-> s.replace,
             table |-> IF IsNone(s.table) THEN <<>> ELSE s.table.v, cols |-> st.cols, hasCols |-> ~defaultPath,
             source |-> IF defaultPath THEN
                          (IF B = "sqlite" THEN [k |-> "default"]
                           ELSE [k |-> "values", rows |-> [i \in 1..st.dv |-> [row |-> IF B = "mysql" THEN <<>> ELSE <<[k |-> "kw", w |-> "DEFAULT"]>>, rowkw |-> FALSE]]])
                        ELSE IF st.source.k = "values" THEN
                          [k |-> "values", rows |-> [i \in DOMAIN st.source.rows |-> [row |-> CanonSeq(B, st.source.rows[i]), rowkw |-> FALSE]]]
                        ELSE IF st.source.k = "select" THEN [k |-> "select", q |-> Expected(B, st.source.q)]
                        ELSE [k |-> "none"],
             on_conflict |-> ExpOnConflict(B, s.on_conflict), returning |-> ExpReturning(B, s.returning)]
    [] s.kind \in {"update", "delete"} ->
         LET isUpd == s.kind = "update"
             from == IF isUpd THEN s.from ELSE <<>>
             myJoin == B = "mysql" /\ Len(from) > 0
         IN [kind |-> s.kind, with |-> ExpWith(B, s.with),
             table |-> IF IsNone(s.table) THEN NoneG ELSE [k |-> "table", names |-> s.table.v, a |-> IF isUpd THEN s.talias ELSE "", hints |-> <<>>, sample |-> NoneG],
             join |-> IF myJoin THEN (IF Len(from) = 1 THEN [jt |-> "JOIN", t |-> ExpTable(B, from[1]), on |-> ExpHolder(B, s.where)]
                                      ELSE [jt |-> "JOIN", multi |-> [i \in DOMAIN from |-> ExpTable(B, from[i])], on |-> ExpHolder(B, s.where)])
                      ELSE NoneG,
             sets |-> IF isUpd THEN [i \in DOMAIN s.values |->
                         [c |-> s.values[i].c, q |-> IF myJoin /\ ~IsNone(s.table) /\ Len(s.table.v) = 1 /\ s.talias = "" THEN s.table.v[1] ELSE "", e |-> Canon(B, s.values[i].e)]]
                      ELSE <<>>,
             from |-> IF B # "mysql" THEN [i \in DOMAIN from |-> ExpTable(B, from[i])] ELSE <<>>,
             where |-> IF myJoin THEN NoneG ELSE ExpHolder(B, s.where),
             orders |-> ExpOrders(B, s.orders), limit |-> IF IsNone(s.limit) THEN NoneG ELSE Num(s.limit.n),
             returning |-> ExpReturning(B, s.returning)]
    [] s.kind = "withq" -> LET q == Expected(B, s.q) IN [q EXCEPT !.with = ExpWith(B, s.w)]

\* builder features dialect B does not have (the statement is then outside C08's domain for B)
RECURSIVE Unsupported(_, _)
Unsupported(B, s) ==
  CASE s.kind = "select" ->
         (~IsNone(s.distinct) /\ s.distinct.k = "on" /\ B # "pg")
         \/ (B # "pg" /\ \E i \in DOMAIN s.from : s.from[i].k \in {"table", "alias"} /\ Len(s.from[i].t) = 3)     \* three-part names are PostgreSQL's
         \/ (B = "mysql" /\ \E i \in DOMAIN s.joins : s.joins[i].jt = "FullOuter")
         \/ (B = "sqlite" /\ \E i \in DOMAIN s.joins : s.joins[i].lateral)                      \* SQLite has no LATERAL
         \* MySQL index hints qualify a base table; the builder writes them after the last FROM item whatever it is
         \/ (B = "mysql" /\ Len(s.hints) > 0 /\ (Len(s.from) = 0 \/ s.from[Len(s.from)].k \notin {"table", "alias"}))
         \/ (B = "pg" /\ ~IsNone(s.sample) /\ (Len(s.from) = 0 \/ s.from[Len(s.from)].k \notin {"table", "alias"}))   \* TABLESAMPLE qualifies a base table
         \/ (B = "sqlite" /\ \E i \in DOMAIN s.unions : Len(s.unions[i].q.orders) > 0 \/ ~IsNone(s.unions[i].q.limit) \/ ~IsNone(s.unions[i].q.offset) \/ Len(s.unions[i].q.unions) > 0 \/ ~IsNone(s.unions[i].q.with))
         \/ (\E i \in DOMAIN s.unions : Unsupported(B, s.unions[i].q))
         \/ (\E i \in DOMAIN s.from : s.from[i].k = "subq" /\ Unsupported(B, s.from[i].q))
         \/ (~IsNone(s.with) /\ \E i \in DOMAIN s.with.ctes : Unsupported(B, s.with.ctes[i].q))
    [] s.kind \in {"update", "delete"} ->
         (B = "pg" /\ (Len(s.orders) > 0 \/ ~IsNone(s.limit)))
         \/ (B = "mysql" /\ s.kind = "update" /\ Len(s.from) > 0 /\ (Len(s.orders) > 0 \/ ~IsNone(s.limit)))     \* multi-table UPDATE has no ORDER BY / LIMIT
    [] s.kind = "insert" -> (B = "pg" /\ s.replace) \/ (s.ins.source.k = "select" /\ Unsupported(B, s.ins.source.q))
                            \/ (B = "sqlite" /\ ~IsNone(s.on_conflict) /\ s.ins.dv > 0 /\ Len(s.ins.cols) = 0 /\ s.ins.source.k = "none")   \* no upsert on DEFAULT VALUES
    [] s.kind = "withq" -> Unsupported(B, s.q) \/ ~IsNone(s.q.with)         \* WITH .. WITH .. is no dialect's statement
    [] OTHER -> FALSE

\* first difference between what was parsed (p) and what is expected (x): a clause name
Mismatch(p, x) ==
  IF p = x THEN ""
  ELSE IF p.kind # x.kind THEN "statement_kind"
  ELSE IF p.with # x.with THEN "with"
  ELSE IF p.kind = "select" THEN
    (IF p.core.distinct # x.core.distinct THEN "distinct" ELSE IF p.core.items # x.core.items THEN "select_list"
     ELSE IF p.core.from # x.core.from THEN "from" ELSE IF p.core.joins # x.core.joins THEN "joins"
     ELSE IF p.core.where # x.core.where THEN "where" ELSE IF p.core.groups # x.core.groups THEN "group_by"
     ELSE IF p.core.having # x.core.having THEN "having" ELSE IF p.core.window # x.core.window THEN "window"
     ELSE IF p.sets # x.sets THEN "set_operations" ELSE IF p.orders # x.orders THEN "order_by"
     ELSE IF p.limit # x.limit THEN "limit" ELSE IF p.offset # x.offset THEN "offset" ELSE IF p.lock # x.lock THEN "lock" ELSE "other")
  ELSE IF p.kind = "insert" THEN
    (IF p.replace # x.replace THEN "replace" ELSE IF p.table # x.table THEN "table" ELSE IF p.cols # x.cols \/ p.hasCols # x.hasCols THEN "columns"
     ELSE IF p.source # x.source THEN "source" ELSE IF p.on_conflict # x.on_conflict THEN "on_conflict" ELSE IF p.returning # x.returning THEN "returning" ELSE "other")
  ELSE
    (IF p.table # x.table THEN "table" ELSE IF p.join # x.join THEN "join" ELSE IF p.sets # x.sets THEN "set" ELSE IF p.from # x.from THEN "from"
     ELSE IF p.where # x.where THEN "where" ELSE IF p.orders # x.orders THEN "order_by" ELSE IF p.limit # x.limit THEN "limit"
     ELSE IF p.returning # x.returning THEN "returning" ELSE "other")

\* reason key for one rendering (inline form) of statement s on dialect B; "" = holds; "?unsupported" = outside the domain
GrammarReason(B, s, sql) ==
  IF Unsupported(B, s) THEN "?unsupported"
  ELSE LET p == ParseStmt(B, sql) IN
    IF ~p.ok THEN "rejected:" \o p.why
    ELSE LET m == Mismatch(p.v, Expected(B, s)) IN IF m = "" THEN "" ELSE "clause_differs:" \o m

\* The constructs C08 names as belonging to one dialect, in the text for the other ("appear only in their own dialect").  Judged on
\* every rendering, also of statements that are otherwise outside B's domain because they were given such a
\* construct: the builder may leave it out there, it may not write it.
ForeignReasons(B, sql) ==
  LET T == Norm(Lex(B, sql))
      W(i, u) == i \in DOMAIN T /\ T[i].k = "word" /\ T[i].u = u
      Has2(a, b) == \E i \in DOMAIN T : W(i, a) /\ W(i + 1, b)
      Has1(a) == \E i \in DOMAIN T : W(i, a)
      F(c, n) == IF c THEN {"construct_of_another_dialect:" \o n} ELSE {}
  IN IF B = "mysql" THEN
       F(Has2("DISTINCT", "ON"), "DISTINCT_ON") \cup F(Has1("TABLESAMPLE"), "TABLESAMPLE") \cup F(Has1("ILIKE"), "ILIKE")
       \cup F(Has2("NULLS", "FIRST") \/ Has2("NULLS", "LAST"), "NULLS_FIRST_LAST") \cup F(Has2("DEPTH", "FIRST") \/ Has2("BREADTH", "FIRST"), "SEARCH")
       \cup F(\E i \in DOMAIN T : T[i].t = "::", "cast_operator")
     ELSE IF B = "pg" THEN
       F(Has2("DUPLICATE", "KEY"), "ON_DUPLICATE_KEY_UPDATE") \cup F(Has2("USE", "INDEX") \/ Has2("FORCE", "INDEX") \/ Has2("IGNORE", "INDEX"), "index_hint")
     ELSE {}

\* Set-valued form.  A statement whose named WINDOW clause is rejected for one of the recorded reasons is judged
\* a second time without that clause, so that a recorded finding does not hide the rest of the statement.
WindowWhy == {"clause_out_of_order:WINDOW_after_ORDER_LIMIT_or_lock", "clause_out_of_order:WINDOW_after_set_operation", "window_definition_not_parenthesised"}
GrammarReasons(B, s, sql) ==
  ForeignReasons(B, sql) \cup
  IF Unsupported(B, s) THEN {"?unsupported"}
  ELSE LET p == ParseStmt(B, sql) IN
    IF p.ok THEN (LET m == Mismatch(p.v, Expected(B, s)) IN IF m = "" THEN {} ELSE {"clause_differs:" \o m})
    ELSE IF p.why \in WindowWhy /\ Expected(B, s).kind = "select" THEN
      LET p2 == ParseStmtCut(B, sql)
          x == [Expected(B, s) EXCEPT !.core.window = NoneG]
      IN {"rejected:" \o p.why}
         \cup (IF ~p2.ok THEN {"rejected:" \o p2.why}
               ELSE LET m == Mismatch(p2.v, x) IN IF m = "" THEN {} ELSE {"clause_differs:" \o m})
    ELSE {"rejected:" \o p.why}
=============================================================================
