------------------------------- MODULE MCCond -------------------------------
(* Design check for C06: every history of <= MaxCalls condition-adding     *)
(* calls over the supplied set (mode "hist"), or every single supplied     *)
(* condition of depth <= 2 (mode "single"): the implementation-level       *)
(* rendering of the holder means the AND of what was given.                *)
EXTENDS Cond, FiniteSets
CONSTANTS MaxCalls, Mode

P == [k |-> "col", n |-> "p"]
Q == [k |-> "col", n |-> "q"]
REq == [k |-> "bin", op |-> "Equal", l |-> [k |-> "col", n |-> "r"], r |-> [k |-> "val", v |-> [t |-> "Int", v |-> "1"]]]
RNull == [k |-> "isnull", neg |-> FALSE, e |-> [k |-> "col", n |-> "r"]]
NullM == [k |-> "null"]
Grp(t, n, ms) == [k |-> "cond", t |-> t, neg |-> n, ms |-> ms]
SeqsUpTo(S, n) == UNION {[1..m -> S] : m \in 0..n}

\* depth-1 groups over {p, q, absent optional}, width <= 2
G1 == {Grp(t, n, ms) : t \in {"any", "all"}, n \in BOOLEAN, ms \in SeqsUpTo({P, Q, NullM}, 2)}
\* depth-1 groups without optional members (used as members of depth-2 groups)
G1m == {Grp(t, n, ms) : t \in {"any", "all"}, n \in BOOLEAN, ms \in SeqsUpTo({P, REq}, 2)}
G2 == {Grp(t, n, ms) : t \in {"any", "all"}, n \in BOOLEAN, ms \in SeqsUpTo({Q, RNull, NullM} \cup G1m, 2)}
\* representative depth-2 groups for histories: {any, all} x {neg} x {empty, single, multi member}
G2rep == {Grp(t, n, <<m>>) : t \in {"any", "all"}, n \in BOOLEAN,
                             m \in {Grp("any", FALSE, <<>>), Grp("all", TRUE, <<P>>), Grp("any", FALSE, <<P, Q>>), Grp("all", TRUE, <<P, REq>>)}}
SuppliedHist == {P, REq, RNull} \cup G1 \cup G2rep
SuppliedSingle == G2

VARIABLES contents, given
vars == <<contents, given>>
Init == IF Mode = "hist" THEN contents = EmptyHolder /\ given = <<>>
        ELSE \E x \in SuppliedSingle : contents = Apply(EmptyHolder, x) /\ given = <<x>>
CondWhere(x) == contents' = Apply(contents, x) /\ given' = Append(given, x)
Next == Mode = "hist" /\ Len(given) < MaxCalls /\ \E x \in SuppliedHist : CondWhere(x)
Spec == Init /\ [][Next]_vars

Backends == {"mysql", "pg", "sqlite"}
Rendered(B) == IF contents.k = "empty" THEN "SELECT 1" ELSE "SELECT 1 WHERE " \o RenderI(B, NoOpt, CondToExpr(contents))
Viol == {B \in Backends : Reasons(B, PredicateOf(B, Rendered(B), "WHERE"), given) # {}}
Check == Viol = {} \/ PrintT(<<"MV", ToJson([given |-> given, where |-> Viol])>>)
\* a stored holder is never a bare negated/any group merged by mistake: structural sanity
HolderShape == contents.k = "empty" \/ contents.k = "cond"
Emit == Len(given) = 0 \/ PrintT(<<"CASE", ToJson(given)>>)
=============================================================================
