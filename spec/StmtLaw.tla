------------------------------ MODULE StmtLaw ------------------------------
(***************************************************************************)
(* Property-level relations between a built statement (the abstract state  *)
(* of Stmt.tla) and what is observed (C01, C02):                           *)
(*   BoundOrder(B, s)   the bound values in the order dialect B's grammar  *)
(*                      places the clauses that carry them;                *)
(*   PlaceholderReasons the lexical placeholder discipline of C01;         *)
(*   SameStatement      C02: the inline text is the parameterised text     *)
(*                      with each placeholder replaced by the literal.     *)
(* Written without reference to the renderer model.                        *)
(***************************************************************************)
EXTENDS Stmt, Template

RECURSIVE ExprVals(_, _), SeqVals(_, _), CondVals(_, _), StmtVals(_, _), HolderVals(_, _)
FlatSeq(ss) == LET RECURSIVE F(_) F(i) == IF i > Len(ss) THEN <<>> ELSE ss[i] \o F(i + 1) IN F(1)
SeqVals(B, es) == FlatSeq([i \in DOMAIN es |-> ExprVals(B, es[i])])
IntV2(n) == [t |-> "Int", v |-> n]

\* values an expression binds, in reading order
ExprVals(B, e) ==
  CASE e.k = "val" -> <<e.v>>
    [] e.k = "vals" -> e.vs
    [] e.k = "bin" -> ExprVals(B, e.l) \o ExprVals(B, e.r)
    [] e.k = "not" -> ExprVals(B, e.e)
    [] e.k = "between" -> ExprVals(B, e.e) \o ExprVals(B, e.a) \o ExprVals(B, e.b)
    [] e.k = "like" -> ExprVals(B, e.e) \o <<[t |-> "String", v |-> e.p]>>
    [] e.k = "in" -> IF Len(e.vs) = 0 THEN <<IntV2("1"), IntV2(IF Neg(e) THEN "1" ELSE "2")>>
                     ELSE ExprVals(B, e.e) \o SeqVals(B, e.vs)
    [] e.k = "insub" -> ExprVals(B, e.e) \o StmtVals(B, BuildStmt(e.q))
    [] e.k \in {"isnull", "cast", "asenum"} -> ExprVals(B, e.e)
    [] e.k = "fn" -> SeqVals(B, e.args)
    [] e.k = "tuple" -> SeqVals(B, e.es)
    [] e.k = "case" -> FlatSeq([i \in DOMAIN e.whens |-> CondVals(B, e.whens[i].c) \o ExprVals(B, e.whens[i].r)])
                       \o (IF "else" \in DOMAIN e THEN ExprVals(B, e.else) ELSE <<>>)
    [] e.k = "subq" -> StmtVals(B, BuildStmt(e.q))
    [] e.k = "custv" ->
         LET al == [i \in 1..Len(e.s) |-> IF Ch(e.s, i) \in Letters \cup Digits THEN "1" ELSE "0"]
             als == ConcatAll(al)
             ord == ValOrder(ExpandAbs(B, e.s, als))
         IN FlatSeq([i \in DOMAIN ord |-> ExprVals(B, e.vs[ord[i]])])
    [] e.k = "cond" -> CondVals(B, e)
    [] OTHER -> <<>>
CondVals(B, c) ==
  IF c.k # "cond" THEN ExprVals(B, c)
  ELSE FlatSeq([i \in DOMAIN c.ms |-> IF c.ms[i].k = "null" THEN <<>> ELSE CondVals(B, c.ms[i])])
\* a stored holder (Cond.tla) keeps members in call order
HolderVals(B, h) == IF h.k = "empty" THEN <<>> ELSE CondVals(B, h)

Rep(n, xs) == LET RECURSIVE R(_) R(i) == IF i = 0 THEN <<>> ELSE xs \o R(i - 1) IN R(n)
OrderVals(B, o) ==
  LET ev == ExprVals(B, o.e)
      body == IF o.o.d # "Field" THEN ev ELSE Rep(Len(o.o.field), ev)
  IN (IF B = "mysql" /\ o.nulls \in {"First", "Last"} THEN ev ELSE <<>>) \o body
FrameVals(f) == IF f.b \in {"Preceding", "Following"} THEN <<[t |-> "Unsigned", v |-> NatToStr(f.n)]>> ELSE <<>>
WindowVals(B, w) ==
  LET ps == Get(w, "partition", <<>>)  os == Get(w, "order", <<>>)  fr == Get(w, "frame", NoneV) IN
  SeqVals(B, ps) \o FlatSeq([i \in DOMAIN os |-> OrderVals(B, OrderRec(os[i]))])
  \o (IF fr = NoneV THEN <<>> ELSE FrameVals(fr.start) \o (IF "end" \in DOMAIN fr THEN FrameVals(fr.end) ELSE <<>>))
TableVals(B, t) ==
  CASE t.k = "subq" -> StmtVals(B, t.q)
    [] t.k = "values" -> FlatSeq([i \in DOMAIN t.rows |-> t.rows[i]])
    [] OTHER -> <<>>
WithVals(B, w) == IF IsNone(w) THEN <<>> ELSE FlatSeq([i \in DOMAIN w.ctes |-> StmtVals(B, w.ctes[i].q)])
NumV(n) == <<[t |-> "BigUnsigned", v |-> NatToStr(n)]>>
ReturningVals(B, r) == IF IsNone(r) \/ B = "mysql" THEN <<>> ELSE IF "exprs" \in DOMAIN r.v THEN SeqVals(B, r.v.exprs) ELSE <<>>
OrdersVals(B, os) == FlatSeq([i \in DOMAIN os |-> OrderVals(B, os[i])])

OnConflictVals(B, ocw) ==
  IF IsNone(ocw) THEN <<>>
  ELSE LET oc == ocw.v
           actRec == "action" \in DOMAIN oc /\ "nothing" \notin DOMAIN oc.action
           vals == IF actRec THEN Get(oc.action, "values", <<>>) ELSE <<>>
           HV(f) == IF f \in DOMAIN oc THEN CondVals(B, oc[f]) ELSE <<>>
       IN (IF B = "mysql" THEN <<>> ELSE SeqVals(B, Get(oc, "exprs", <<>>)) \o HV("target_where"))
          \o FlatSeq([i \in DOMAIN vals |-> ExprVals(B, vals[i][2])])
          \o (IF B = "mysql" THEN <<>> ELSE HV("action_where"))

StmtVals(B, s) ==
  CASE s.kind = "select" ->
         WithVals(B, s.with)
         \o FlatSeq([i \in DOMAIN s.selects |->
              ExprVals(B, s.selects[i].e) \o (IF s.selects[i].w.k = "def" THEN WindowVals(B, s.selects[i].w.w) ELSE <<>>)])
         \o FlatSeq([i \in DOMAIN s.from |-> TableVals(B, s.from[i])])
         \o FlatSeq([i \in DOMAIN s.joins |-> TableVals(B, s.joins[i].t) \o HolderVals(B, s.joins[i].on)])
         \o HolderVals(B, s.where) \o SeqVals(B, s.groups) \o HolderVals(B, s.having)
         \o FlatSeq([i \in DOMAIN s.unions |-> StmtVals(B, s.unions[i].q)])
         \o OrdersVals(B, s.orders)
         \o (IF IsNone(s.limit) THEN <<>> ELSE NumV(s.limit.n)) \o (IF IsNone(s.offset) THEN <<>> ELSE NumV(s.offset.n))
         \o (IF IsNone(s.window) THEN <<>> ELSE WindowVals(B, s.window.w))
    [] s.kind = "insert" ->
         WithVals(B, s.with)
         \o (CASE s.ins.source.k = "values" /\ ~(s.ins.dv > 0 /\ Len(s.ins.cols) = 0 /\ FALSE) ->
                   FlatSeq([i \in DOMAIN s.ins.source.rows |-> SeqVals(B, s.ins.source.rows[i])])
               [] s.ins.source.k = "select" -> StmtVals(B, s.ins.source.q)
               [] OTHER -> <<>>)
         \o OnConflictVals(B, s.on_conflict) \o ReturningVals(B, s.returning)
    [] s.kind = "update" ->
         LET myJoin == B = "mysql" /\ Len(s.from) > 0 IN
         WithVals(B, s.with)
         \o (IF myJoin THEN TableVals(B, s.from[1]) \o HolderVals(B, s.where) ELSE <<>>)
         \o FlatSeq([i \in DOMAIN s.values |-> ExprVals(B, s.values[i].e)])
         \o (IF B # "mysql" THEN FlatSeq([i \in DOMAIN s.from |-> TableVals(B, s.from[i])]) ELSE <<>>)
         \o (IF myJoin THEN <<>> ELSE HolderVals(B, s.where))
         \o (IF B = "sqlite" THEN ReturningVals(B, s.returning) ELSE <<>>)          \* SQLite: RETURNING precedes ORDER BY / LIMIT
         \o OrdersVals(B, s.orders) \o (IF IsNone(s.limit) THEN <<>> ELSE NumV(s.limit.n))
         \o (IF B = "sqlite" THEN <<>> ELSE ReturningVals(B, s.returning))
    [] s.kind = "delete" ->
         WithVals(B, s.with) \o HolderVals(B, s.where)
         \o (IF B = "sqlite" THEN ReturningVals(B, s.returning) ELSE <<>>)
         \o OrdersVals(B, s.orders) \o (IF IsNone(s.limit) THEN <<>> ELSE NumV(s.limit.n))
         \o (IF B = "sqlite" THEN <<>> ELSE ReturningVals(B, s.returning))
    [] s.kind = "withq" -> WithVals(B, s.w) \o StmtVals(B, s.q)
BoundOrder(B, s) == StmtVals(B, s)

(*********************  C01: placeholder discipline  ***********************)
\* toks = Lex(B, sql); nvals = number of returned values
PlaceholderReasons(B, toks, nvals) ==
  LET phs == SelectSeq(toks, LAMBDA t : t.k = "ph") IN
  (IF Len(phs) # nvals THEN {"placeholder_count_differs_from_values"} ELSE {})
  \cup (IF B = "pg" /\ \E i \in DOMAIN phs : phs[i].v # NatToStr(i) THEN {"pg_numbering_not_1_to_n_ascending"} ELSE {})
  \cup (IF B # "pg" /\ \E i \in DOMAIN phs : phs[i].t # "?" THEN {"placeholder_not_bare_question_mark"} ELSE {})
  \cup (IF \E i \in DOMAIN toks : toks[i].k = "bad" THEN {"illegal_token"} ELSE {})

(***********************  C02: same statement  *****************************)
\* Ti = Lex(inline), Tp = Lex(params); lits[i] = Lex of the backend literal of values[i]
\* walk both: a placeholder in Tp must be matched by exactly the literal's tokens in Ti
RECURSIVE SameFrom(_, _, _, _, _, _)
SameFrom(Ti, Tp, lits, i, p, k) ==
  IF p > Len(Tp) THEN (IF i > Len(Ti) THEN "" ELSE "inline_has_extra_tokens")
  ELSE IF Tp[p].k = "ph" THEN
    IF k > Len(lits) THEN "more_placeholders_than_values"
    ELSE LET n == Len(lits[k]) IN
      IF i + n - 1 > Len(Ti) THEN "inline_ends_early"
      ELSE IF \E j \in 1..n : Ti[i + j - 1].k # lits[k][j].k \/ Ti[i + j - 1].v # lits[k][j].v \/ (Ti[i + j - 1].k \notin {"str", "blob"} /\ Ti[i + j - 1].t # lits[k][j].t)
           THEN "literal_differs_from_bound_value"
      ELSE SameFrom(Ti, Tp, lits, i + n, p + 1, k + 1)
  ELSE IF i > Len(Ti) THEN "inline_ends_early"
  ELSE IF Ti[i].k # Tp[p].k \/ Ti[i].t # Tp[p].t THEN "structure_differs"
  ELSE SameFrom(Ti, Tp, lits, i + 1, p + 1, k)
SameStatementReason(Ti, Tp, lits) == SameFrom(Ti, Tp, lits, 1, 1, 1)

\* does the literal (its tokens L under engine B) denote the bound value v?  (floats / decimals / dates: not decided here)
LitDenotes(B, L, v) ==
  IF "null" \in DOMAIN v /\ v.null THEN Len(L) = 1 /\ L[1].k = "word" /\ UpperStr(L[1].t) = "NULL"
  ELSE CASE v.t \in {"String", "Char"} -> Len(L) = 1 /\ L[1].k = "str" /\ L[1].f = "" /\ L[1].v = v.v
         [] v.t = "Bytes" -> Len(L) = 1 /\ (IF B = "pg" THEN L[1].k = "str" /\ PgByteaHex(L[1].v) = v.v ELSE L[1].k = "blob" /\ L[1].v = v.v)
         [] v.t = "Bool" -> Len(L) = 1 /\ L[1].k = "word" /\ UpperStr(L[1].t) = (IF v.v THEN "TRUE" ELSE "FALSE")
         [] v.t \in {"TinyInt", "SmallInt", "Int", "BigInt", "TinyUnsigned", "SmallUnsigned", "Unsigned", "BigUnsigned"} ->
              ConcatAll([i \in DOMAIN L |-> L[i].t]) = v.v /\ \A i \in DOMAIN L : L[i].k \in {"num", "op"}
         [] OTHER -> TRUE

\* The "sugar" methods of SelectStatement and the call each stands for (spec/stmt_methods.json).  A case may ask for
\* a call to be made through such a method (field "m"); the harness then calls exactly that method.
StmtMethod == JsonDeserialize("stmt_methods.json")
CallMethodOk(kind, c) ==
  "m" \notin DOMAIN c \/
  (/\ c.m \in DOMAIN StmtMethod /\ StmtMethod[c.m].op = c.op
   /\ \E i \in DOMAIN StmtMethod[c.m].on : StmtMethod[c.m].on[i] = kind
   /\ ("jt" \in DOMAIN StmtMethod[c.m] => c.jt = StmtMethod[c.m].jt /\ "a" \notin DOMAIN c)
   /\ ("type" \in DOMAIN StmtMethod[c.m] => c.type = StmtMethod[c.m].type /\ "tables" \notin DOMAIN c /\ "behavior" \notin DOMAIN c)
   /\ ("needs" \in DOMAIN StmtMethod[c.m] =>
         CASE StmtMethod[c.m].needs = "col" -> c.e.k = "col"
           [] StmtMethod[c.m].needs = "one_col" -> "cols" \in DOMAIN c.r /\ Len(c.r.cols) = 1
           [] StmtMethod[c.m].needs = "all" -> "all" \in DOMAIN c.r))
CallsOk(j) == j.kind \notin {"select", "update", "delete", "insert"} \/ \A i \in DOMAIN j.calls : CallMethodOk(j.kind, j.calls[i])
=============================================================================
