------------------------------ MODULE RefStmt ------------------------------
(***************************************************************************)
(* C07: an independently written, fully explicit SQLite rendering of a     *)
(* built statement (abstract state of Stmt.tla): clause order straight     *)
(* from SQLite's syntax diagrams, every operator application               *)
(* parenthesised, literals by SQLite's own rules.  Executed on the real    *)
(* engine next to what the crate rendered.                                 *)
(***************************************************************************)
EXTENDS Stmt, RefRender

RECURSIVE RefE(_), RefC(_), RefS(_), RefSelectBody(_), RefCoreOf(_)
RefLit(v) ==
  IF "null" \in DOMAIN v /\ v.null THEN "NULL"
  ELSE CASE v.t = "Bool" -> (IF v.v THEN "TRUE" ELSE "FALSE")
         [] v.t \in {"String", "Char"} -> LitStr(v.v)
         [] v.t = "Bytes" -> "x'" \o v.v \o "'"
         [] OTHER -> v.v
P(x) == "(" \o x \o ")"
RefList(es) == JoinS([i \in DOMAIN es |-> RefE(es[i])], ", ")
RefC(c) ==
  IF c.k # "cond" THEN RefE(c)
  ELSE LET ms == SelectSeq(c.ms, LAMBDA m : m.k # "null")
           body == IF Len(ms) = 0 THEN (IF c.t = "all" THEN "TRUE" ELSE "FALSE")
                   ELSE JoinS([i \in DOMAIN ms |-> P(RefC(ms[i]))], IF c.t = "any" THEN " OR " ELSE " AND ")
       IN IF Neg(c) THEN "NOT " \o P(body) ELSE P(body)
RefE(e) ==
  CASE e.k = "col" -> JoinS([i \in 1..(Len(Get(e, "q", <<>>)) + 1) |-> IF i <= Len(Get(e, "q", <<>>)) THEN QId(e.q[i]) ELSE IF e.n = "*" THEN "*" ELSE QId(e.n)], ".")
    [] e.k \in {"val", "const"} -> RefLit(e.v)
    [] e.k = "bin" -> IF e.op \in {"In", "NotIn"} /\ e.r.k = "tuple"
                      THEN P(P(RefE(e.l)) \o " " \o OpText("sqlite", e.op) \o " " \o RefE(e.r))       \* the tuple is the list itself
                      ELSE P(P(RefE(e.l)) \o " " \o OpText("sqlite", e.op) \o " " \o P(RefE(e.r)))
    [] e.k = "not" -> P("NOT " \o P(RefE(e.e)))
    [] e.k = "between" -> P(P(RefE(e.e)) \o (IF Neg(e) THEN " NOT" ELSE "") \o " BETWEEN " \o P(RefE(e.a)) \o " AND " \o P(RefE(e.b)))
    [] e.k = "like" -> P(P(RefE(e.e)) \o (IF Neg(e) THEN " NOT" ELSE "") \o " LIKE " \o LitStr(e.p) \o (IF "esc" \in DOMAIN e THEN " ESCAPE " \o LitStr(e.esc) ELSE ""))
    [] e.k = "in" -> IF Len(e.vs) = 0 THEN (IF Neg(e) THEN "(1 = 1)" ELSE "(1 = 2)")
                     ELSE P(P(RefE(e.e)) \o (IF Neg(e) THEN " NOT" ELSE "") \o " IN (" \o RefList(e.vs) \o ")")
    [] e.k = "insub" -> P(P(RefE(e.e)) \o (IF Neg(e) THEN " NOT" ELSE "") \o " IN (" \o RefS(BuildStmt(e.q)) \o ")")
    [] e.k = "isnull" -> P(P(RefE(e.e)) \o (IF Neg(e) THEN " IS NOT NULL" ELSE " IS NULL"))
    [] e.k = "cast" -> "CAST(" \o P(RefE(e.e)) \o " AS " \o e.ty \o ")"
    [] e.k = "fn" -> FuncName("sqlite", e.f) \o "(" \o JoinS([i \in DOMAIN e.args |-> (IF e.f = "CountDistinct" THEN "DISTINCT " ELSE "") \o RefE(e.args[i])], ", ") \o ")"
    [] e.k = "tuple" -> "(" \o RefList(e.es) \o ")"
    [] e.k = "vals" -> "(" \o JoinS([i \in DOMAIN e.vs |-> RefLit(e.vs[i])], ", ") \o ")"
    [] e.k = "asenum" -> RefE(e.e)
    [] e.k = "case" -> "(CASE" \o ConcatAll([i \in DOMAIN e.whens |-> " WHEN " \o P(RefC(e.whens[i].c)) \o " THEN " \o P(RefE(e.whens[i].r))])
                       \o (IF "else" \in DOMAIN e THEN " ELSE " \o P(RefE(e.else)) ELSE "") \o " END)"
    [] e.k = "subq" -> (IF "op" \in DOMAIN e THEN UpperStr(e.op) \o " " ELSE "") \o "(" \o RefS(BuildStmt(e.q)) \o ")"
    [] e.k = "cond" -> RefC(e)
    [] e.k = "kw" -> Canon("sqlite", e).w
    [] OTHER -> "NULL"

RefHolder(kw, h) == IF h.k = "empty" THEN "" ELSE " " \o kw \o " " \o RefC(h)
RefOrder(o) ==
  (IF o.o.d = "Field"
   THEN "CASE" \o ConcatAll([i \in DOMAIN o.o.field |-> " WHEN " \o P(RefE(o.e)) \o " = " \o RefLit(o.o.field[i]) \o " THEN " \o NatToStr(i - 1)]) \o " ELSE " \o NatToStr(Len(o.o.field)) \o " END"
   ELSE RefE(o.e) \o (IF o.o.d = "Asc" THEN " ASC" ELSE " DESC"))
  \o (CASE o.nulls = "First" -> " NULLS FIRST" [] o.nulls = "Last" -> " NULLS LAST" [] OTHER -> "")
RefOrders(os) == IF Len(os) = 0 THEN "" ELSE " ORDER BY " \o JoinS([i \in DOMAIN os |-> RefOrder(os[i])], ", ")
RefFrame(f) == CASE f.b = "UnboundedPreceding" -> "UNBOUNDED PRECEDING" [] f.b = "CurrentRow" -> "CURRENT ROW" [] f.b = "UnboundedFollowing" -> "UNBOUNDED FOLLOWING"
                 [] f.b = "Preceding" -> NatToStr(f.n) \o " PRECEDING" [] OTHER -> NatToStr(f.n) \o " FOLLOWING"
RefWindow(w) ==
  LET ps == Get(w, "partition", <<>>)  os == Get(w, "order", <<>>)  fr == Get(w, "frame", NoneV)
      parts == <<IF Len(ps) > 0 THEN "PARTITION BY " \o RefList(ps) ELSE "",
                 IF Len(os) > 0 THEN "ORDER BY " \o JoinS([i \in DOMAIN os |-> RefOrder(OrderRec(os[i]))], ", ") ELSE "",
                 IF fr = NoneV THEN "" ELSE (IF fr.type = "Range" THEN "RANGE " ELSE "ROWS ") \o
                    (IF "end" \in DOMAIN fr THEN "BETWEEN " \o RefFrame(fr.start) \o " AND " \o RefFrame(fr.end) ELSE RefFrame(fr.start))>>
  IN JoinS(SelectSeq(parts, LAMBDA x : x # ""), " ")
RefTName(t) == JoinS([i \in DOMAIN t |-> QId(t[i])], ".")
RefTable(t) ==
  CASE t.k = "table" -> RefTName(t.t)
    [] t.k = "alias" -> RefTName(t.t) \o " AS " \o QId(t.a)
    [] t.k = "subq" -> "(" \o RefS(t.q) \o ") AS " \o QId(t.a)
    [] t.k = "values" -> "(VALUES " \o JoinS([i \in DOMAIN t.rows |-> "(" \o JoinS([j \in DOMAIN t.rows[i] |-> RefLit(t.rows[i][j])], ", ") \o ")"], ", ") \o ") AS " \o QId(t.a)
RefWith(w) ==
  IF IsNone(w) THEN ""
  ELSE "WITH " \o (IF w.recursive THEN "RECURSIVE " ELSE "") \o
       JoinS([i \in DOMAIN w.ctes |-> QId(w.ctes[i].name) \o (IF Len(w.ctes[i].cols) > 0 THEN " (" \o JoinS([j \in DOMAIN w.ctes[i].cols |-> QId(w.ctes[i].cols[j])], ", ") \o ")" ELSE "")
            \o " AS " \o (CASE w.ctes[i].mat = "yes" -> "MATERIALIZED " [] w.ctes[i].mat = "no" -> "NOT MATERIALIZED " [] OTHER -> "") \o "(" \o RefS(w.ctes[i].q) \o ")"], ", ") \o " "
JoinKw(jt) == CASE jt = "Join" -> "JOIN" [] jt = "Cross" -> "CROSS JOIN" [] jt = "Inner" -> "INNER JOIN" [] jt = "Left" -> "LEFT JOIN" [] jt = "Right" -> "RIGHT JOIN" [] OTHER -> "FULL OUTER JOIN"
RefCoreOf(s) ==
  "SELECT " \o (IF ~IsNone(s.distinct) /\ s.distinct.k = "distinct" THEN "DISTINCT " ELSE "")
  \o JoinS([i \in DOMAIN s.selects |->
        RefE(s.selects[i].e)
        \o (IF IsNone(s.selects[i].w) THEN "" ELSE IF s.selects[i].w.k = "name" THEN " OVER " \o QId(s.selects[i].w.n) ELSE " OVER (" \o RefWindow(s.selects[i].w.w) \o ")")
        \o (IF s.selects[i].a # "" THEN " AS " \o QId(s.selects[i].a) ELSE "")], ", ")
  \o (IF Len(s.from) > 0 THEN " FROM " \o JoinS([i \in DOMAIN s.from |-> RefTable(s.from[i])], ", ") ELSE "")
  \o ConcatAll([i \in DOMAIN s.joins |-> " " \o JoinKw(s.joins[i].jt) \o " " \o RefTable(s.joins[i].t) \o RefHolder("ON", s.joins[i].on)])
  \o RefHolder("WHERE", s.where)
  \o (IF Len(s.groups) > 0 THEN " GROUP BY " \o RefList(s.groups) ELSE "")
  \o RefHolder("HAVING", s.having)
  \o (IF IsNone(s.window) THEN "" ELSE " WINDOW " \o QId(s.window.name) \o " AS (" \o RefWindow(s.window.w) \o ")")
RefSelectBody(s) ==
  RefCoreOf(s)
  \o ConcatAll([i \in DOMAIN s.unions |-> " " \o (CASE s.unions[i].type = "Intersect" -> "INTERSECT" [] s.unions[i].type = "Distinct" -> "UNION"
                                                   [] s.unions[i].type = "Except" -> "EXCEPT" [] OTHER -> "UNION ALL") \o " " \o RefCoreOf(s.unions[i].q)])
  \o RefOrders(s.orders)
  \o (IF IsNone(s.limit) THEN (IF IsNone(s.offset) THEN "" ELSE " LIMIT -1") ELSE " LIMIT " \o NatToStr(s.limit.n))
  \o (IF IsNone(s.offset) THEN "" ELSE " OFFSET " \o NatToStr(s.offset.n))
RefReturning(r) ==
  IF IsNone(r) THEN "" ELSE " RETURNING " \o (IF "all" \in DOMAIN r.v THEN "*" ELSE IF "cols" \in DOMAIN r.v THEN JoinS([i \in DOMAIN r.v.cols |-> QId(r.v.cols[i])], ", ") ELSE RefList(r.v.exprs))
RefOnConflict(ocw) ==
  IF IsNone(ocw) THEN ""
  ELSE LET oc == ocw.v
           cols == Get(oc, "cols", <<>>)  exprs == Get(oc, "exprs", <<>>)
           hasAct == "action" \in DOMAIN oc
           nothing == hasAct /\ ("nothing" \in DOMAIN oc.action \/ ("nothing_on" \in DOMAIN oc.action /\ "update_cols" \notin DOMAIN oc.action /\ "values" \notin DOMAIN oc.action))
           updCols == IF hasAct THEN Get(oc.action, "update_cols", <<>>) ELSE <<>>
           updVals == IF hasAct THEN Get(oc.action, "values", <<>>) ELSE <<>>
           targets == [i \in 1..(Len(cols) + Len(exprs)) |-> IF i <= Len(cols) THEN QId(cols[i]) ELSE RefE(exprs[i - Len(cols)])]
       IN " ON CONFLICT" \o (IF Len(targets) > 0 THEN " (" \o JoinS(targets, ", ") \o ")" ELSE "")
          \o (IF "target_where" \in DOMAIN oc THEN " WHERE " \o RefC(oc.target_where) ELSE "")
          \o (IF nothing THEN " DO NOTHING"
              ELSE " DO UPDATE SET " \o JoinS([i \in 1..(Len(updCols) + Len(updVals)) |->
                      IF i <= Len(updCols) THEN QId(updCols[i]) \o " = excluded." \o QId(updCols[i])
                      ELSE QId(updVals[i - Len(updCols)][1]) \o " = " \o RefE(updVals[i - Len(updCols)][2])], ", ")
                   \o (IF "action_where" \in DOMAIN oc THEN " WHERE " \o RefC(oc.action_where) ELSE ""))
RefS(s) ==
  CASE s.kind = "select" -> RefWith(s.with) \o RefSelectBody(s)
    [] s.kind = "insert" ->
         LET st == s.ins IN
         RefWith(s.with) \o (IF s.replace THEN "REPLACE" ELSE "INSERT") \o " INTO " \o (IF IsNone(s.table) THEN "?" ELSE RefTName(s.table.v))
         \o (IF st.dv > 0 /\ Len(st.cols) = 0 /\ st.source.k = "none" THEN " DEFAULT VALUES"
             ELSE (IF Len(st.cols) > 0 THEN " (" \o JoinS([i \in DOMAIN st.cols |-> QId(st.cols[i])], ", ") \o ")" ELSE "")
                  \o (CASE st.source.k = "values" -> " VALUES " \o JoinS([i \in DOMAIN st.source.rows |-> "(" \o RefList(st.source.rows[i]) \o ")"], ", ")
                        [] st.source.k = "select" ->
                             \* SQLite: INSERT .. SELECT .. ON CONFLICT needs the SELECT to end in a WHERE clause (documented parsing ambiguity)
                             " " \o RefSelectBody(IF ~IsNone(s.on_conflict) /\ st.source.q.where.k = "empty" /\ Len(st.source.q.unions) = 0
                                                  THEN [st.source.q EXCEPT !.where = Apply(EmptyHolder, [k |-> "const", v |-> [t |-> "Bool", v |-> TRUE]])] ELSE st.source.q)
                        [] OTHER -> ""))
         \o RefOnConflict(s.on_conflict) \o RefReturning(s.returning)
    [] s.kind = "update" ->
         RefWith(s.with) \o "UPDATE " \o (IF IsNone(s.table) THEN "?" ELSE RefTName(s.table.v)) \o (IF s.talias # "" THEN " AS " \o QId(s.talias) ELSE "")
         \o " SET " \o JoinS([i \in DOMAIN s.values |-> QId(s.values[i].c) \o " = " \o RefE(s.values[i].e)], ", ")
         \o (IF Len(s.from) > 0 THEN " FROM " \o JoinS([i \in DOMAIN s.from |-> RefTable(s.from[i])], ", ") ELSE "")
         \o RefHolder("WHERE", s.where) \o RefReturning(s.returning) \o RefOrders(s.orders) \o (IF IsNone(s.limit) THEN "" ELSE " LIMIT " \o NatToStr(s.limit.n))
    [] s.kind = "delete" ->
         RefWith(s.with) \o "DELETE FROM " \o (IF IsNone(s.table) THEN "?" ELSE RefTName(s.table.v))
         \o RefHolder("WHERE", s.where) \o RefReturning(s.returning) \o RefOrders(s.orders) \o (IF IsNone(s.limit) THEN "" ELSE " LIMIT " \o NatToStr(s.limit.n))
    [] s.kind = "withq" -> RefWith(s.w) \o RefS(s.q)
=============================================================================
