----------------------------- MODULE EngineLex -----------------------------
(***************************************************************************)
(* Lexical rules of the three engines, written from their reference        *)
(* manuals (MySQL 8.0 default sql_mode; PostgreSQL >= 15 with              *)
(* standard_conforming_strings = on; SQLite 3.40) and independent of       *)
(* sea-query's source.  B \in {"mysql", "pg", "sqlite"}.                    *)
(*                                                                         *)
(* A token is [k, t, v, f]: kind, source text, decoded value (string       *)
(* literals and quoted identifiers: the denoted string; blob literals: the *)
(* upper-cased hex digits; placeholders: the number or ""), flag ("" or a  *)
(* reason).  Kinds: word num str blob qid ph op lp rp comma dot semi       *)
(* lb rb comment bad.                                                      *)
(***************************************************************************)
EXTENDS Chars

Ascii == NamedChars.ASCII          \* Ascii[n + 1] = the character with code n (n < 128)
IsNonAscii(c) == c \notin AsciiKnown /\ \A n \in 1..128 : Ascii[n] # c
IsWordStart(B, c) == c \in Letters \/ c = "_" \/ IsNonAscii(c) \/ (B = "mysql" /\ c = "$")
IsWordChar(B, c)  == c \in Letters \/ c \in Digits \/ c = "_" \/ c = "$" \/ IsNonAscii(c)
IsWs(c) == c \in AsciiSpace
PgOpChars == {"+","-","*","/","<",">","=","~","!","@","#","%","^","&","|","`","?"}
PgOpSpecial == {"~","!","@","#","%","^","&","|","`","?"}
FixedOps3 == {"<=>", "->>"}
FixedOps2 == {"<=", ">=", "<>", "!=", "<<", ">>", "||", "->", "==", "&&", ":="}
FixedOps1 == {"+","-","*","/","<",">","=","~","!","%","^","&","|","@","#",":"}

Tok(k, e, v, f) == [k |-> k, e |-> e, v |-> v, f |-> f]

(************************  string literal bodies  **************************)
\* Result of scanning a literal body from position i (just after the opening
\* quote): [e |-> index after the closing quote, v |-> decoded, f |-> flag]
OctDigits == {"0","1","2","3","4","5","6","7"}

\* MySQL: '' and backslash escapes (NO_BACKSLASH_ESCAPES off)
RECURSIVE MyStr(_, _, _, _)
MyStr(s, i, q, acc) ==
  IF i > Len(s) THEN [e |-> i, v |-> acc, f |-> "unterminated"]
  ELSE LET c == Ch(s, i) IN
    IF c = BSL THEN
      IF i + 1 > Len(s) THEN [e |-> i + 1, v |-> acc, f |-> "unterminated"]
      ELSE LET d == Ch(s, i + 1)
               r == CASE d = "0" -> NUL [] d = "'" -> "'" [] d = "\"" -> "\"" [] d = "b" -> BS
                      [] d = "n" -> "\n" [] d = "r" -> "\r" [] d = "t" -> "\t" [] d = "Z" -> SUB
                      [] d = BSL -> BSL [] d = "%" -> BSL \o "%" [] d = "_" -> BSL \o "_"
                      [] OTHER -> d
           IN MyStr(s, i + 2, q, acc \o r)
    ELSE IF c = q THEN
      IF i + 1 <= Len(s) /\ Ch(s, i + 1) = q THEN MyStr(s, i + 2, q, acc \o q)
      ELSE [e |-> i + 1, v |-> acc, f |-> ""]
    ELSE MyStr(s, i + 1, q, acc \o c)

\* PostgreSQL plain string / SQLite string / any "doubling only" quoting
RECURSIVE DblStr(_, _, _, _)
DblStr(s, i, q, acc) ==
  IF i > Len(s) THEN [e |-> i, v |-> acc, f |-> "unterminated"]
  ELSE LET c == Ch(s, i) IN
    IF c = q THEN
      IF i + 1 <= Len(s) /\ Ch(s, i + 1) = q THEN DblStr(s, i + 2, q, acc \o q)
      ELSE [e |-> i + 1, v |-> acc, f |-> ""]
    ELSE DblStr(s, i + 1, q, acc \o c)

\* number of octal / hex digits at position i (at most n)
RECURSIVE CountIn(_, _, _, _)
CountIn(s, i, set, n) == IF n = 0 \/ i > Len(s) \/ Ch(s, i) \notin set THEN 0 ELSE 1 + CountIn(s, i + 1, set, n - 1)
RECURSIVE NumVal(_, _, _, _, _)
NumVal(s, i, n, base, acc) == IF n = 0 THEN acc ELSE NumVal(s, i + 1, n - 1, base, acc * base + HexVal(Ch(s, i)))

\* PostgreSQL E'...'
RECURSIVE PgEStr(_, _, _, _)
PgEStr(s, i, acc, flag) ==
  IF i > Len(s) THEN [e |-> i, v |-> acc, f |-> "unterminated"]
  ELSE LET c == Ch(s, i) IN
    IF c = BSL THEN
      IF i + 1 > Len(s) THEN [e |-> i + 1, v |-> acc, f |-> "unterminated"]
      ELSE LET d == Ch(s, i + 1) IN
        IF d \in OctDigits THEN
          LET n == CountIn(s, i + 1, OctDigits, 3)
              val == NumVal(s, i + 1, n, 8, 0) % 256
          IN IF val = 0 THEN PgEStr(s, i + 1 + n, acc, "nul_in_string")
             ELSE IF val < 128 THEN PgEStr(s, i + 1 + n, acc \o Ascii[val + 1], flag)
             ELSE PgEStr(s, i + 1 + n, acc, IF flag = "" THEN "numeric_escape_unknown" ELSE flag)
        ELSE IF d = "x" /\ CountIn(s, i + 2, HexDigits, 2) > 0 THEN
          LET n == CountIn(s, i + 2, HexDigits, 2)
              val == NumVal(s, i + 2, n, 16, 0)
          IN IF val = 0 THEN PgEStr(s, i + 2 + n, acc, "nul_in_string")
             ELSE IF val < 128 THEN PgEStr(s, i + 2 + n, acc \o Ascii[val + 1], flag)
             ELSE PgEStr(s, i + 2 + n, acc, IF flag = "" THEN "numeric_escape_unknown" ELSE flag)
        ELSE IF d = "u" \/ d = "U" THEN
          LET w == IF d = "u" THEN 4 ELSE 8
              n == CountIn(s, i + 2, HexDigits, w)
          IN IF n # w THEN [e |-> i + 2, v |-> acc, f |-> "invalid_unicode_escape"]
             ELSE PgEStr(s, i + 2 + w, acc, IF flag = "" THEN "numeric_escape_unknown" ELSE flag)
        ELSE LET r == CASE d = "b" -> BS [] d = "f" -> FF [] d = "n" -> "\n" [] d = "r" -> "\r"
                        [] d = "t" -> "\t" [] OTHER -> d
             IN PgEStr(s, i + 2, acc \o r, flag)
    ELSE IF c = "'" THEN
      IF i + 1 <= Len(s) /\ Ch(s, i + 1) = "'" THEN PgEStr(s, i + 2, acc \o "'", flag)
      ELSE [e |-> i + 1, v |-> acc, f |-> flag]
    ELSE PgEStr(s, i + 1, acc \o c, flag)

\* x'HEX' body (MySQL, SQLite): hex digits up to the closing quote
RECURSIVE HexBody(_, _, _)
HexBody(s, i, acc) ==
  IF i > Len(s) THEN [e |-> i, v |-> acc, f |-> "unterminated"]
  ELSE LET c == Ch(s, i) IN
    IF c = "'" THEN [e |-> i + 1, v |-> acc, f |-> IF Len(acc) % 2 = 0 THEN "" ELSE "odd_hex"]
    ELSE IF c \in HexDigits THEN HexBody(s, i + 1, acc \o UpperOf(c))
    ELSE [e |-> i + 1, v |-> acc, f |-> "non_hex"]

(******************************  scanners  *********************************)
RECURSIVE SkipWs(_, _)
SkipWs(s, i) == IF i <= Len(s) /\ IsWs(Ch(s, i)) THEN SkipWs(s, i + 1) ELSE i
RECURSIVE SkipDigits(_, _)
SkipDigits(s, i) == IF i <= Len(s) /\ Ch(s, i) \in Digits THEN SkipDigits(s, i + 1) ELSE i
RECURSIVE SkipWord(_, _, _)
SkipWord(B, s, i) == IF i <= Len(s) /\ IsWordChar(B, Ch(s, i)) THEN SkipWord(B, s, i + 1) ELSE i
RECURSIVE SkipPgOp(_, _)
SkipPgOp(s, i) ==
  IF i <= Len(s) /\ Ch(s, i) \in PgOpChars
     /\ ~(StartsWithAt(s, i, "--") \/ StartsWithAt(s, i, "/*"))
  THEN SkipPgOp(s, i + 1) ELSE i
RECURSIVE SkipToEol(_, _)
SkipToEol(s, i) == IF i > Len(s) \/ Ch(s, i) = "\n" THEN i ELSE SkipToEol(s, i + 1)
RECURSIVE SkipBlockComment(_, _)
SkipBlockComment(s, i) == IF i > Len(s) THEN i ELSE IF StartsWithAt(s, i, "*/") THEN i + 2 ELSE SkipBlockComment(s, i + 1)

\* PostgreSQL: a multi-character operator cannot end in + or - unless it
\* contains one of ~ ! @ # % ^ & | ` ?
RECURSIVE PgTrimOp(_, _, _)
PgTrimOp(s, i, e) ==
  IF e - i > 1 /\ Ch(s, e - 1) \in {"+", "-"} /\ ~\E j \in i..(e - 1) : Ch(s, j) \in PgOpSpecial
  THEN PgTrimOp(s, i, e - 1) ELSE e

NumberEnd(s, i) ==
  LET a == SkipDigits(s, i)
      b == IF a <= Len(s) /\ Ch(s, a) = "." THEN SkipDigits(s, a + 1) ELSE a
      c == IF b <= Len(s) /\ Ch(s, b) \in {"e", "E"}
           THEN LET sg == IF b + 1 <= Len(s) /\ Ch(s, b + 1) \in {"+", "-"} THEN b + 2 ELSE b + 1
                    d == SkipDigits(s, sg)
                IN IF d > sg THEN d ELSE b
           ELSE b
  IN c

TokAt(B, s, i) ==
  LET c == Ch(s, i)
      c2 == IF i + 1 <= Len(s) THEN Ch(s, i + 1) ELSE ""
  IN
  IF IsWs(c) THEN Tok("ws", SkipWs(s, i), "", "")
  ELSE IF StartsWithAt(s, i, "--") /\ (B # "mysql" \/ i + 2 > Len(s) \/ IsWs(Ch(s, i + 2)))
       THEN Tok("comment", SkipToEol(s, i), "", "")
  ELSE IF StartsWithAt(s, i, "/*") THEN Tok("comment", SkipBlockComment(s, i + 2), "", "")
  ELSE IF B = "mysql" /\ c = "#" THEN Tok("comment", SkipToEol(s, i), "", "")
  ELSE IF c = "'" THEN
    LET r == IF B = "mysql" THEN MyStr(s, i + 1, "'", "") ELSE DblStr(s, i + 1, "'", "")
    IN Tok(IF r.f = "" THEN "str" ELSE "bad", r.e, r.v, r.f)
  ELSE IF B = "pg" /\ c \in {"E", "e"} /\ c2 = "'" THEN
    LET r == PgEStr(s, i + 2, "", "")
    IN Tok(IF r.f \in {"", "numeric_escape_unknown"} THEN "str" ELSE "bad", r.e, r.v, r.f)
  ELSE IF c \in {"x", "X"} /\ c2 = "'" THEN
    LET r == HexBody(s, i + 2, "")
    IN Tok(IF r.f # "" THEN "bad" ELSE IF B = "pg" THEN "bitstr" ELSE "blob", r.e, r.v, r.f)
  ELSE IF c = "\"" THEN
    IF B = "mysql" THEN LET r == MyStr(s, i + 1, "\"", "") IN Tok(IF r.f = "" THEN "str" ELSE "bad", r.e, r.v, r.f)
    ELSE LET r == DblStr(s, i + 1, "\"", "") IN
         Tok(IF r.f # "" THEN "bad" ELSE IF r.v = "" THEN "bad" ELSE "qid", r.e, r.v, IF r.f = "" /\ r.v = "" THEN "empty_identifier" ELSE r.f)
  ELSE IF c = "`" /\ B \in {"mysql", "sqlite"} THEN
    LET r == DblStr(s, i + 1, "`", "") IN
    Tok(IF r.f # "" THEN "bad" ELSE IF r.v = "" /\ B = "mysql" THEN "bad" ELSE "qid", r.e, r.v, IF r.f = "" /\ r.v = "" THEN "empty_identifier" ELSE r.f)
  ELSE IF c \in Digits \/ (c = "." /\ c2 \in Digits) THEN
    LET e == NumberEnd(s, i)
        junk == e <= Len(s) /\ (Ch(s, e) \in Letters \/ Ch(s, e) = "_" \/ IsNonAscii(Ch(s, e)))
        plain == e = SkipDigits(s, i)
    IN IF ~junk THEN Tok("num", e, "", "")
       ELSE IF B = "mysql" /\ plain THEN Tok("word", SkipWord(B, s, e), "", "digit_leading_identifier")
       ELSE Tok("bad", SkipWord(B, s, e), "", "trailing_junk_after_number")
  ELSE IF IsWordStart(B, c) THEN Tok("word", SkipWord(B, s, i), "", "")
  ELSE IF c = "?" /\ B # "pg" THEN
    LET e == IF B = "sqlite" THEN SkipDigits(s, i + 1) ELSE i + 1
    IN Tok("ph", e, SubSeq(s, i + 1, e - 1), "")
  ELSE IF c = "$" THEN
    IF B = "pg" THEN
      LET e == SkipDigits(s, i + 1) IN
      IF e = i + 1 THEN Tok("bad", i + 1, "", "lone_dollar")
      ELSE IF e <= Len(s) /\ IsWordChar(B, Ch(s, e)) THEN Tok("bad", SkipWord(B, s, e), "", "trailing_junk_after_parameter")
      ELSE Tok("ph", e, SubSeq(s, i + 1, e - 1), "")
    ELSE \* sqlite: $name is a named parameter, a lone $ is unrecognised
      LET e == SkipWord(B, s, i + 1) IN
      IF e = i + 1 THEN Tok("bad", i + 1, "", "lone_dollar") ELSE Tok("ph", e, SubSeq(s, i, e - 1), "named")
  ELSE IF c = "(" THEN Tok("lp", i + 1, "", "")
  ELSE IF c = ")" THEN Tok("rp", i + 1, "", "")
  ELSE IF c = "," THEN Tok("comma", i + 1, "", "")
  ELSE IF c = ";" THEN Tok("semi", i + 1, "", "")
  ELSE IF c = "." THEN Tok("dot", i + 1, "", "")
  ELSE IF c = "[" THEN
    IF B = "sqlite" THEN   \* [identifier]
      LET RECURSIVE Close(_)
          Close(j) == IF j > Len(s) THEN 0 ELSE IF Ch(s, j) = "]" THEN j ELSE Close(j + 1)
          j == Close(i + 1)
      IN IF j = 0 THEN Tok("bad", Len(s) + 1, "", "unterminated") ELSE Tok("qid", j + 1, SubSeq(s, i + 1, j - 1), "")
    ELSE Tok("lb", i + 1, "", "")
  ELSE IF c = "]" THEN Tok("rb", i + 1, "", "")
  ELSE IF B = "pg" THEN
    IF c = ":" THEN (IF c2 = ":" THEN Tok("op", i + 2, "", "") ELSE Tok("op", i + 1, "", ""))
    ELSE IF c \in PgOpChars THEN Tok("op", PgTrimOp(s, i, SkipPgOp(s, i)), "", "")
    ELSE Tok("bad", i + 1, "", "illegal_character")
  ELSE IF i + 2 <= Len(s) /\ SubSeq(s, i, i + 2) \in FixedOps3 THEN Tok("op", i + 3, "", "")
  ELSE IF i + 1 <= Len(s) /\ SubSeq(s, i, i + 1) \in FixedOps2 THEN Tok("op", i + 2, "", "")
  ELSE IF c \in FixedOps1 THEN Tok("op", i + 1, "", "")
  ELSE Tok("bad", i + 1, "", "illegal_character")

RECURSIVE LexFrom(_, _, _)
LexFrom(B, s, i) ==
  IF i > Len(s) THEN <<>>
  ELSE LET t == TokAt(B, s, i) IN
       (IF t.k = "ws" THEN <<>> ELSE <<[k |-> t.k, t |-> SubSeq(s, i, t.e - 1), v |-> t.v, f |-> t.f]>>)
       \o LexFrom(B, s, t.e)
Lex(B, s) == LexFrom(B, s, 1)

Kinds(toks) == [i \in DOMAIN toks |-> toks[i].k]
\* a word token compared case-insensitively with an upper-case keyword
IsKw(tok, kw) == tok.k = "word" /\ UpperStr(tok.t) = kw

\* PostgreSQL bytea hex input format: the *value* of a plain string literal
\* of the form \xHEX (hex pairs) denotes the bytes; returns upper-case hex or
\* "?" if the string is not in that format
PgByteaHex(v) ==
  IF Len(v) >= 2 /\ SubSeq(v, 1, 2) = BSL \o "x"
     /\ (Len(v) - 2) % 2 = 0 /\ \A j \in 3..Len(v) : Ch(v, j) \in HexDigits
  THEN UpperStrFrom(v, 3) ELSE "?"
=============================================================================
