------------------------------ MODULE StmtScan ------------------------------
(* Clause-level scanning of a (Norm-ed) token sequence: keywords at        *)
(* parenthesis depth 0, clause extents.                                    *)
EXTENDS EnginePrec

\* parenthesis depth before token i
RECURSIVE DepthAt(_, _)
DepthAt(T, i) == IF i <= 1 THEN 0
                 ELSE DepthAt(T, i - 1) + (IF T[i - 1].k = "lp" THEN 1 ELSE IF T[i - 1].k = "rp" THEN 0 - 1 ELSE 0)
Depths(T) == [i \in DOMAIN T |-> DepthAt(T, i)]

\* first index >= from with a word in kws at depth d (0 if none); D = Depths(T)
RECURSIVE FindKwIn(_, _, _, _, _)
FindKwIn(T, D, kws, from, d) ==
  IF from > Len(T) THEN 0
  ELSE IF T[from].k = "word" /\ T[from].u \in kws /\ D[from] = d THEN from
  ELSE FindKwIn(T, D, kws, from + 1, d)

ClauseEnders == {"GROUP", "HAVING", "ORDER", "LIMIT", "OFFSET", "UNION", "INTERSECT", "EXCEPT", "WINDOW",
                 "RETURNING", "FOR", "SET", "ON", "WHERE", "INNER", "LEFT", "RIGHT", "FULL", "CROSS", "JOIN", "DO"}
\* extent [i+1 .. e-1] of the clause introduced by the keyword at index i
ClauseEnd(T, D, i) ==
  LET e == FindKwIn(T, D, ClauseEnders, i + 1, D[i]) IN IF e = 0 THEN Len(T) + 1 ELSE e
=============================================================================
