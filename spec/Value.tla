-------------------------------- MODULE Value --------------------------------
(***************************************************************************)
(* src/value.rs conversions as a decision table (C12): which variant each  *)
(* Rust type converts into (type_to_value! / type_to_box_value! / arrays), *)
(* and the outcome of extracting a Value as a type T or Option<T>.         *)
(* Payloads are opaque (their Debug text).                                 *)
(***************************************************************************)
EXTENDS Naturals, Sequences, TLC

\* <<rust type, Value variant>>
TypeTable == <<
  <<"bool", "Bool">>, <<"i8", "TinyInt">>, <<"i16", "SmallInt">>, <<"i32", "Int">>, <<"i64", "BigInt">>,
  <<"u8", "TinyUnsigned">>, <<"u16", "SmallUnsigned">>, <<"u32", "Unsigned">>, <<"u64", "BigUnsigned">>,
  <<"f32", "Float">>, <<"f64", "Double">>, <<"char", "Char">>, <<"String", "String">>, <<"Vec<u8>", "Bytes">>,
  <<"Json", "Json">>, <<"NaiveDate", "ChronoDate">>, <<"NaiveTime", "ChronoTime">>, <<"NaiveDateTime", "ChronoDateTime">>,
  <<"DateTime<Utc>", "ChronoDateTimeUtc">>, <<"DateTime<Local>", "ChronoDateTimeLocal">>, <<"DateTime<FixedOffset>", "ChronoDateTimeWithTimeZone">>,
  <<"time::Date", "TimeDate">>, <<"time::Time", "TimeTime">>, <<"PrimitiveDateTime", "TimeDateTime">>,
  <<"OffsetDateTime", "TimeDateTimeWithTimeZone">>, <<"Decimal", "Decimal">>, <<"BigDecimal", "BigDecimal">>,
  <<"Uuid", "Uuid">>, <<"IpNetwork", "IpNetwork">>, <<"MacAddress", "MacAddress">>, <<"Vector", "Vector">>,
  <<"Vec<i32>", "Array:Int">>, <<"Vec<String>", "Array:String">>, <<"Vec<f64>", "Array:Double">>,
  <<"Cow<str>", "String">> >>
SourceTypes == {TypeTable[i][1] : i \in 1..(Len(TypeTable) - 1)}      \* Cow<str> is a target only here
TargetTypes == {TypeTable[i][1] : i \in DOMAIN TypeTable}
VariantOf(ty) == LET i == CHOOSE j \in DOMAIN TypeTable : TypeTable[j][1] = ty IN TypeTable[i][2]

\* the value From<S>(payload) / S::null()
From(S, null) == [variant |-> VariantOf(S), null |-> null]
\* <T as ValueType>::try_from and <Option<T> as ValueType>::try_from: "ok" / "none" / "err"
TryFrom(T, opt, v) ==
  IF v.variant # VariantOf(T) THEN "err"
  ELSE IF v.null THEN (IF opt THEN "none" ELSE "err") ELSE "ok"

\* ValueTuple kind by arity
TupleKind(n) == CASE n = 1 -> "One" [] n = 2 -> "Two" [] n = 3 -> "Three" [] OTHER -> "Many"
=============================================================================
