----------------------------- MODULE IdentTrace -----------------------------
(* Trace validation for C04: recorded statements with the name in every    *)
(* identifier position, against the engine lexers.                         *)
EXTENDS Ident, IOUtils, TLCExt, FiniteSets
Rec == ndJsonDeserialize(IOEnv.TRACE)
RefPos == JsonDeserialize(IOEnv.REFFILE).pos
Backends == {"mysql", "pg", "sqlite"}
VARIABLE l
Init == l = 1
IsPanic(o) == "panic" \in DOMAIN o
Pfx(p, S) == {p \o x : x \in S}

\* positions with a documented special form: PG as_enum treats a trailing []
\* as "array of"; outside the domain for such names
InDomPos(p, n) == ~(p = "pg_as_enum" /\ Len(n) >= 2 /\ SubSeq(n, Len(n) - 1, Len(n)) = "[]")

Keys(r) ==
  UNION { UNION { IF B \notin DOMAIN r.pos[p] \/ ~InDomPos(p, r.n) THEN {}
                  ELSE IF IsPanic(RefPos[p][B]) THEN {}           \* feature not supported by this backend
                  ELSE IF IsPanic(r.pos[p][B]) THEN {"C04/" \o p \o "/" \o B \o "/panic"}
                  ELSE Pfx("C04/" \o p \o "/" \o B \o "/", SlotReasons(B, r.pos[p][B].r, RefPos[p][B].r, "REFID", r.n))
                  : B \in Backends } : p \in DOMAIN r.pos }

Exact(r) == /\ IsPanic(r.prepare.backtick) \/ r.prepare.backtick.r = Prepare(r.n, "`", "`")
            /\ IsPanic(r.prepare.dquote) \/ r.prepare.dquote.r = Prepare(r.n, "\"", "\"")
            /\ IsPanic(r.prepare.bracket) \/ r.prepare.bracket.r = Prepare(r.n, "[", "]")

HasQuoteChar(n) == \E i \in 1..Len(n) : Ch(n, i) \in {"`", "\""}
Verdict(r) ==
  LET ks == Keys(r) IN
  [id |-> r.id, keys |-> {k \in ks : ~HasChar(k, "?")},
   skipped |-> Cardinality({k \in ks : HasChar(k, "?")}),
   exact |-> Exact(r), nt |-> HasQuoteChar(r.n)]
Step == /\ l <= Len(Rec)
        /\ PrintT(<<"R", ToJson(Verdict(Rec[l]))>>)
        /\ l' = l + 1
Spec == Init /\ [][Step]_l
AllConsumed == TLCGet("stats").diameter = Len(Rec) + 1
=============================================================================
