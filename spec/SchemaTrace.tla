----------------------------- MODULE SchemaTrace -----------------------------
(* Trace validation of schema statements: C13 (SQLite: engine catalogue vs  *)
(* the declared history stepped through SqliteCatalog), C14 (MySQL / PG DDL *)
(* grammar vs declaration) and the take() half of C15 for schema builders.  *)
EXTENDS SchemaLaw, Schema, IOUtils, TLCExt
Rec == ndJsonDeserialize(IOEnv.TRACE)
VARIABLE l
Init == l = 1
IsPanic(o) == "panic" \in DOMAIN o
RECURSIVE ContainsAt2(_, _, _)
ContainsAt2(s, sub, i) == IF i + Len(sub) - 1 > Len(s) THEN FALSE ELSE IF SubSeq(s, i, i + Len(sub) - 1) = sub THEN TRUE ELSE ContainsAt2(s, sub, i + 1)
UnsupportedPanic(o) == \E w \in {"not support", "doesnot support", "not implemented", "not available", "Not supported", "doesn't support", "No alter option", "cannot be larger"} : ContainsAt2(o.panic, w, 1)

\* the predicate of a partial index, as the engine's catalogue (sqlite_master.sql) spells it right after CREATE INDEX
PredReasons(d, tables) ==
  IF d.stmt # "index_create" THEN {}
  ELSE LET want == IF "where" \in DOMAIN d THEN Canon("sqlite", d.where) ELSE [k |-> "none"]
           sqls == UNION {{tables[t].indexes[i].sql : i \in {k \in DOMAIN tables[t].indexes : tables[t].indexes[k].name = d.name}} : t \in DOMAIN tables}
       IN IF sqls = {} THEN {}                                   \* a missing index is reported by CatReasons
          ELSE LET p == ParseDDL("sqlite", CHOOSE x \in sqls : TRUE) IN
               IF ~p.ok THEN {"C13/index_create/catalogue_text_does_not_parse"}
               ELSE IF p.v.kind = "create_index" /\ p.v.where = want THEN {} ELSE {"C13/index_create/partial_predicate_differs"}

\* C13: step the catalogue model through the declared history; compare with the engine's dump after each executed step
RECURSIVE C13From(_, _, _)
C13From(r, i, cat) ==
  IF i > Len(r.history) THEN {}
  ELSE LET d == r.history[i]
           st == r.steps[i]
           e == r.engine[i]
       IN IF ~Supported13(d) \/ ~Enabled13(cat, d) THEN {}            \* outside the domain from here on (later steps depend on this one)
          ELSE IF IsPanic(st) \/ "sqlite" \notin DOMAIN st.r.r \/ IsPanic(st.r.r["sqlite"]) THEN {"C13/" \o d.stmt \o "/render_panic"}
          ELSE IF e.exec # "ok" THEN {"C13/" \o d.stmt \o "/engine_rejects"}
          ELSE LET cat2 == Exec(cat, d) IN
               {"C13/" \o d.stmt \o "/" \o x : x \in CatReasons(cat2, e.cat.tables)} \cup PredReasons(d, e.cat.tables) \cup C13From(r, i + 1, cat2)

C14Keys(r) ==
  UNION { UNION { LET d == r.history[i]  st == r.steps[i] IN
                  IF IsPanic(st) THEN {"C14/" \o B \o "/" \o d.stmt \o "/harness_panic"}
                  ELSE IF B \notin DOMAIN st.r.r \/ Unsupported14(B, d) THEN {}
                  ELSE IF IsPanic(st.r.r[B]) THEN (IF UnsupportedPanic(st.r.r[B]) THEN {} ELSE {"C14/" \o B \o "/" \o d.stmt \o "/panic"})
                  ELSE {"C14/" \o B \o "/" \o d.stmt \o "/" \o x : x \in DdlReasons(B, d, st.r.r[B].r)}
                  : i \in DOMAIN r.history } : B \in {"mysql", "pg"} }

\* C15 (schema builders): taken statement has the same Debug text and renders as the statement before
C15Keys(r) ==
  UNION { LET st == r.steps[i] IN
          IF IsPanic(st) \/ "take" \notin DOMAIN st.r THEN {}
          ELSE IF IsPanic(st.r.take) THEN {"C15/schema_take/" \o r.history[i].stmt \o "/panic"}
          ELSE (IF st.r.take.r.dbg_equal THEN {} ELSE {"C15/schema_take/" \o r.history[i].stmt \o "/taken_differs_from_statement_before"})
               \cup (IF "coldef_take" \in DOMAIN st.r /\ (IsPanic(st.r.coldef_take) \/ ~st.r.coldef_take.r) THEN {"C15/schema_take/column_def/taken_differs_from_definition_before"} ELSE {})
               \cup (IF \A B \in DOMAIN st.r.r : (IsPanic(st.r.r[B]) /\ IsPanic(st.r.take.r.render_taken[B])) \/ (~IsPanic(st.r.r[B]) /\ ~IsPanic(st.r.take.r.render_taken[B]) /\ st.r.r[B].r = st.r.take.r.render_taken[B].r)
                     THEN {} ELSE {"C15/schema_take/" \o r.history[i].stmt \o "/taken_renders_differently"})
          : i \in DOMAIN r.history }

\* implementation-level model (Schema!RenderDDL): which (statement kind, backend) renderings differ from it
Drift(r) ==
  UNION { UNION { LET d == r.history[i]  st == r.steps[i] IN
                  IF IsPanic(st) \/ B \notin DOMAIN st.r.r THEN {}
                  ELSE IF IsPanic(st.r.r[B]) THEN (IF RenderDDL(B, d) = Unsup THEN {} ELSE {d.stmt \o "/" \o B \o "/panics_where_the_model_renders"})
                  ELSE IF st.r.r[B].r = RenderDDL(B, d) THEN {} ELSE {d.stmt \o "/" \o B}
                  : B \in {"mysql", "pg", "sqlite"} } : i \in DOMAIN r.history }
Verdict(r) ==
  LET ks == C13From(r, 1, <<>>) \cup C14Keys(r) \cup C15Keys(r)
            \cup (IF \A i \in DOMAIN r.history : DeclMethodsOk(r.history[i]) THEN {} ELSE {"!case_error/method_annotation_contradicts_column_methods_json"}) IN
  [id |-> r.id, keys |-> {k \in ks : ~HasChar(k, "?")}, n13 |-> Cardinality({i \in DOMAIN r.history : Supported13(r.history[i])}), nsteps |-> Len(r.history),
   drift |-> Drift(r)]
Step == /\ l <= Len(Rec)
        /\ PrintT(<<"R", ToJson(Verdict(Rec[l]))>>)
        /\ l' = l + 1
Spec == Init /\ [][Step]_l
AllConsumed == TLCGet("stats").diameter = Len(Rec) + 1
=============================================================================
