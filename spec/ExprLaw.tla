------------------------------ MODULE ExprLaw ------------------------------
(***************************************************************************)
(* Canon(B, e): the tree an engine must recover for the expression JSON e  *)
(* that was given to the expression API (C05).  It undoes the API's        *)
(* encodings (BETWEEN / LIKE..ESCAPE as nested binaries, empty IN lists)   *)
(* and spells operators and function names as dialect B does.              *)
(***************************************************************************)
EXTENDS EnginePrec, Ident

OpText(B, op) ==
  CASE op = "And" -> "AND" [] op = "Or" -> "OR" [] op = "Like" -> "LIKE" [] op = "NotLike" -> "NOT LIKE"
    [] op = "Is" -> "IS" [] op = "IsNot" -> "IS NOT" [] op = "In" -> "IN" [] op = "NotIn" -> "NOT IN"
    [] op = "Between" -> "BETWEEN" [] op = "NotBetween" -> "NOT BETWEEN"
    [] op = "Equal" -> "=" [] op = "NotEqual" -> "<>" [] op = "SmallerThan" -> "<" [] op = "GreaterThan" -> ">"
    [] op = "SmallerThanOrEqual" -> "<=" [] op = "GreaterThanOrEqual" -> ">="
    [] op = "Add" -> "+" [] op = "Sub" -> "-" [] op = "Mul" -> "*" [] op = "Div" -> "/" [] op = "Mod" -> "%"
    [] op = "BitAnd" -> "&" [] op = "BitOr" -> "|" [] op = "LShift" -> "<<" [] op = "RShift" -> ">>"
    [] op = "PgILike" -> "ILIKE" [] op = "PgNotILike" -> "NOT ILIKE" [] op = "PgMatches" -> "@@"
    [] op = "PgContains" -> "@>" [] op = "PgContained" -> "<@" [] op = "PgConcatenate" -> "||"
    [] op = "PgOverlap" -> "&&" [] op = "PgSimilarity" -> "%" [] op = "PgWordSimilarity" -> "<%"
    [] op = "PgStrictWordSimilarity" -> "<<%" [] op = "PgSimilarityDistance" -> "<->"
    [] op = "PgWordSimilarityDistance" -> "<<->" [] op = "PgStrictWordSimilarityDistance" -> "<<<->"
    [] op = "PgGetJsonField" -> "->" [] op = "PgCastJsonField" -> "->>" [] op = "PgRegex" -> "~"
    [] op = "PgRegexCaseInsensitive" -> "~*"
    [] op = "SqliteGlob" -> "GLOB" [] op = "SqliteMatch" -> "MATCH" [] op = "SqliteGetJsonField" -> "->"
    [] op = "SqliteCastJsonField" -> "->>"
    [] OTHER -> IF Len(op) > 7 /\ SubSeq(op, 1, 7) = "Custom:" THEN SubSeq(op, 8, Len(op)) ELSE "?" \o op

LikeFamily == {"LIKE", "NOT LIKE", "ILIKE", "NOT ILIKE", "GLOB", "MATCH", "REGEXP"}
\* which operators each dialect's renderer supports (others panic: outside the domain)
\* custom operators the generators use, and the dialects that define them (everything else: all dialects)
CustomDialects(op) ==
  CASE op = "Custom:^" -> {"mysql", "pg"} [] op = "Custom:XOR" -> {"mysql"} [] op = "Custom:<=>" -> {"mysql"}
    [] OTHER -> {"mysql", "pg", "sqlite"}
OpSupported(B, op) ==
  IF Len(op) > 7 /\ SubSeq(op, 1, 7) = "Custom:" THEN B \in CustomDialects(op)
  ELSE IF Len(op) > 2 /\ SubSeq(op, 1, 2) = "Pg" THEN B = "pg"
  ELSE IF Len(op) > 6 /\ SubSeq(op, 1, 6) = "Sqlite" THEN B = "sqlite" ELSE TRUE

FuncName(B, f) ==
  CASE f = "Max" -> "MAX" [] f = "Min" -> "MIN" [] f = "Sum" -> "SUM" [] f = "Avg" -> "AVG" [] f = "Abs" -> "ABS"
    [] f = "Count" -> "COUNT" [] f = "CountDistinct" -> "COUNT" [] f = "Coalesce" -> "COALESCE"
    [] f = "Lower" -> "LOWER" [] f = "Upper" -> "UPPER" [] f = "BitAnd" -> "BIT_AND" [] f = "BitOr" -> "BIT_OR"
    [] f = "Round" -> "ROUND" [] f = "Md5" -> "MD5"
    [] f = "IfNull" -> (IF B = "pg" THEN "COALESCE" ELSE "IFNULL")
    [] f = "Greatest" -> (IF B = "sqlite" THEN "MAX" ELSE "GREATEST")
    [] f = "Least" -> (IF B = "sqlite" THEN "MIN" ELSE "LEAST")
    [] f = "CharLength" -> (IF B = "sqlite" THEN "LENGTH" ELSE "CHAR_LENGTH")
    [] f = "Random" -> (IF B = "mysql" THEN "RAND" ELSE "RANDOM")
    [] f = "PgToTsquery" -> "TO_TSQUERY" [] f = "PgToTsvector" -> "TO_TSVECTOR" [] f = "PgPhrasetoTsquery" -> "PHRASETO_TSQUERY"
    [] f = "PgPlaintoTsquery" -> "PLAINTO_TSQUERY" [] f = "PgWebsearchToTsquery" -> "WEBSEARCH_TO_TSQUERY"
    [] f = "PgTsRank" -> "TS_RANK" [] f = "PgStartsWith" -> "STARTS_WITH"
    [] f = "PgTsRankCd" -> "TS_RANK_CD" [] f = "PgArrayAgg" -> "ARRAY_AGG" [] f = "PgJsonAgg" -> "JSON_AGG" [] f = "PgGenRandomUuid" -> "GEN_RANDOM_UUID"
    [] OTHER -> IF Len(f) > 5 /\ SubSeq(f, 1, 5) = "Cust:" THEN UpperStr(SubSeq(f, 6, Len(f))) ELSE "?" \o f

\* a condition may also say how many times not() is called on it ("nn"); negation is its parity
Neg(e) == IF "nn" \in DOMAIN e THEN e.nn % 2 = 1 ELSE "neg" \in DOMAIN e /\ e.neg
\* a column case expression is [k:"col", n: name or "*", q: optional qualifiers]
CanonCol(e) ==
  LET q == IF "q" \in DOMAIN e THEN e.q ELSE <<>> IN
  IF e.n = "*" THEN [k |-> "star", q |-> q] ELSE [k |-> "col", q |-> q, n |-> e.n]

NumTree(s) == IF Len(s) > 1 /\ Ch(s, 1) = "-" THEN [k |-> "un", op |-> "-", e |-> [k |-> "num", t |-> SubSeq(s, 2, Len(s))]]
              ELSE [k |-> "num", t |-> s]
CanonVal(v) ==
  IF "null" \in DOMAIN v /\ v.null THEN [k |-> "kw", w |-> "NULL"]
  ELSE CASE v.t = "Bool" -> [k |-> "kw", w |-> IF v.v THEN "TRUE" ELSE "FALSE"]
         [] v.t \in {"String", "Char"} -> [k |-> "str", v |-> v.v]
         [] v.t = "Bytes" -> [k |-> "blob", v |-> v.v]
         [] OTHER -> NumTree(v.v)

RECURSIVE Canon(_, _), CanonSeq(_, _), CanonCond(_, _)
CanonSeq(B, es) == [i \in DOMAIN es |-> Canon(B, es[i])]

\* Condition::to_simple_expr as a *meaning*: left fold of AND / OR
RECURSIVE FoldBin(_, _, _)
FoldBin(op, es, n) == IF n = 1 THEN es[1] ELSE [k |-> "bin", op |-> op, l |-> FoldBin(op, es, n - 1), r |-> es[n]]
CanonCond(B, c) ==
  IF c.k # "cond" THEN Canon(B, c)
  ELSE LET ms == SelectSeq(c.ms, LAMBDA m : m.k # "null")     \* [k:"null"] = add_option(None)
           es == [i \in DOMAIN ms |-> CanonCond(B, ms[i])]
           body == IF Len(es) = 0 THEN [k |-> "kw", w |-> IF c.t = "all" THEN "TRUE" ELSE "FALSE"]
                   ELSE FoldBin(IF c.t = "any" THEN "OR" ELSE "AND", es, Len(es))
       IN IF Neg(c) THEN [k |-> "un", op |-> "NOT", e |-> body] ELSE body

Canon(B, e) ==
  CASE e.k = "col" -> CanonCol(e)
    [] e.k \in {"val", "const"} -> CanonVal(e.v)
    [] e.k = "vals" -> IF Len(e.vs) = 1 THEN CanonVal(e.vs[1]) ELSE [k |-> "tuple", es |-> [i \in DOMAIN e.vs |-> CanonVal(e.vs[i])]]   \* a row of values
    [] e.k = "not" -> [k |-> "un", op |-> "NOT", e |-> Canon(B, e.e)]
    [] e.k = "bin" ->
         LET o == OpText(B, e.op) IN
         IF e.op \in {"Between", "NotBetween"} /\ e.r.k = "bin" /\ e.r.op = "And" THEN
           [k |-> "between", neg |-> e.op = "NotBetween", e |-> Canon(B, e.l), a |-> Canon(B, e.r.l), b |-> Canon(B, e.r.r)]
         ELSE IF o \in LikeFamily THEN
           IF e.r.k = "bin" /\ e.r.op = "Escape"
           THEN [k |-> "like", op |-> o, e |-> Canon(B, e.l), p |-> Canon(B, e.r.l), esc |-> Canon(B, e.r.r)]
           ELSE [k |-> "like", op |-> o, e |-> Canon(B, e.l), p |-> Canon(B, e.r), esc |-> None]
         ELSE IF e.op \in {"In", "NotIn"} /\ e.r.k = "tuple" THEN
           IF Len(e.r.es) = 0
           THEN [k |-> "bin", op |-> "=", l |-> [k |-> "num", t |-> "1"], r |-> [k |-> "num", t |-> IF e.op = "In" THEN "2" ELSE "1"]]
           ELSE [k |-> "in", neg |-> e.op = "NotIn", e |-> Canon(B, e.l), set |-> [k |-> "tuple", es |-> CanonSeq(B, e.r.es)]]
         ELSE [k |-> "bin", op |-> o, l |-> Canon(B, e.l), r |-> Canon(B, e.r)]
    [] e.k = "between" -> [k |-> "between", neg |-> Neg(e), e |-> Canon(B, e.e), a |-> Canon(B, e.a), b |-> Canon(B, e.b)]
    [] e.k = "like" -> [k |-> "like", op |-> IF "ci" \in DOMAIN e /\ e.ci THEN (IF Neg(e) THEN "NOT ILIKE" ELSE "ILIKE")
                                               ELSE (IF Neg(e) THEN "NOT LIKE" ELSE "LIKE"), e |-> Canon(B, e.e),
                        p |-> [k |-> "str", v |-> e.p],
                        esc |-> IF "esc" \in DOMAIN e THEN [k |-> "str", v |-> e.esc] ELSE None]
    [] e.k = "in" ->
         IF Len(e.vs) = 0
         THEN [k |-> "bin", op |-> "=", l |-> [k |-> "num", t |-> "1"], r |-> [k |-> "num", t |-> IF Neg(e) THEN "1" ELSE "2"]]
         ELSE [k |-> "in", neg |-> Neg(e), e |-> Canon(B, e.e), set |-> [k |-> "tuple", es |-> CanonSeq(B, e.vs)]]
    [] e.k = "insub" -> [k |-> "in", neg |-> Neg(e), e |-> Canon(B, e.e), set |-> [k |-> "subq", op |-> ""]]
    [] e.k = "isnull" -> [k |-> "bin", op |-> IF Neg(e) THEN "IS NOT" ELSE "IS", l |-> Canon(B, e.e), r |-> [k |-> "kw", w |-> "NULL"]]
    [] e.k = "cast" -> [k |-> "cast", e |-> Canon(B, e.e), ty |-> <<e.ty>>]
    \* as_enum: a cast to the enum type on PostgreSQL, the operand itself elsewhere
    [] e.k = "asenum" -> IF B = "pg" THEN [k |-> "cast", e |-> Canon(B, e.e), ty |-> <<Prepare(e.ty, "\"", "\"")>>] ELSE Canon(B, e.e)
    [] e.k = "fn" -> [k |-> "fn", name |-> FuncName(B, e.f),
                      args |-> [i \in DOMAIN e.args |-> [d |-> e.f = "CountDistinct", e |-> Canon(B, e.args[i])]]]
    [] e.k = "tuple" -> IF Len(e.es) = 1 THEN Canon(B, e.es[1]) ELSE [k |-> "tuple", es |-> CanonSeq(B, e.es)]
    [] e.k = "case" -> [k |-> "case", operand |-> None,
                        whens |-> [i \in DOMAIN e.whens |-> [c |-> CanonCond(B, e.whens[i].c), r |-> Canon(B, e.whens[i].r)]],
                        else |-> IF "else" \in DOMAIN e THEN Canon(B, e.else) ELSE None]
    [] e.k = "subq" -> [k |-> "subq", op |-> IF "op" \in DOMAIN e THEN UpperStr(e.op) ELSE ""]
    [] e.k = "kw" -> [k |-> "kw", w |-> CASE e.w = "Null" -> "NULL" [] e.w = "CurrentDate" -> "CURRENT_DATE"
                                          [] e.w = "CurrentTime" -> "CURRENT_TIME" [] e.w = "CurrentTimestamp" -> "CURRENT_TIMESTAMP"
                                          [] OTHER -> e.w]
    [] e.k = "cond" -> CanonCond(B, e)

\* every operator in e is one dialect B can render
RECURSIVE Supported(_, _)
Supported(B, e) ==
  CASE e.k = "bin" -> OpSupported(B, e.op) /\ Supported(B, e.l) /\ Supported(B, e.r)
    [] e.k = "not" -> Supported(B, e.e)
    [] e.k = "between" -> Supported(B, e.e) /\ Supported(B, e.a) /\ Supported(B, e.b)
    [] e.k = "like" -> Supported(B, e.e) /\ (("ci" \in DOMAIN e /\ e.ci) => B = "pg")
    [] e.k \in {"isnull", "cast", "insub", "asenum"} -> Supported(B, e.e)
    [] e.k = "in" -> Supported(B, e.e) /\ \A i \in DOMAIN e.vs : Supported(B, e.vs[i])
    [] e.k = "fn" -> (\A i \in DOMAIN e.args : Supported(B, e.args[i])) /\ (Len(e.f) > 2 /\ SubSeq(e.f, 1, 2) = "Pg" => B = "pg")      \* PgFunc: PostgreSQL only
    [] e.k = "tuple" -> \A i \in DOMAIN e.es : Supported(B, e.es[i])
    [] e.k = "case" -> /\ \A i \in DOMAIN e.whens : Supported(B, e.whens[i].c) /\ Supported(B, e.whens[i].r)
                       /\ ("else" \in DOMAIN e => Supported(B, e.else))
    [] e.k = "cond" -> \A i \in DOMAIN e.ms : e.ms[i].k = "null" \/ Supported(B, e.ms[i])
    [] e.k = "subq" -> ~(B = "sqlite" /\ "op" \in DOMAIN e /\ e.op \in {"Any", "Some", "All"})
    [] OTHER -> TRUE

\* number of operator nodes (non-triviality measure)
RECURSIVE OpCount(_)
OpCount(e) ==
  CASE e.k = "bin" -> 1 + OpCount(e.l) + OpCount(e.r)
    [] e.k = "not" -> 1 + OpCount(e.e)
    [] e.k = "between" -> 1 + OpCount(e.e) + OpCount(e.a) + OpCount(e.b)
    [] e.k \in {"like", "isnull", "cast", "insub", "in", "asenum"} -> 1 + OpCount(e.e)
    [] OTHER -> 0

\* The named builder methods of ExprTrait / PgExpr / SqliteExpr and the operator each one is documented to build
\* (a case may ask for a binary node to be built through its method: field "m"); the harness calls exactly that
\* method, so a method that builds another operator makes the rendering re-parse to a different tree.
MethodOp == JsonDeserialize("expr_methods.json")
MethodOk(e) == "m" \notin DOMAIN e \/ (e.m \in DOMAIN MethodOp /\ MethodOp[e.m] = e.op /\ (e.m \in {"equals", "not_equals"} => e.r.k = "col")
                                          /\ (e.m = "in_tuples" => e.r.k = "tuple" /\ \A i \in DOMAIN e.r.es : e.r.es[i].k = "vals"))

\* the tree the engine model recovers from "SELECT <expr>" ([ok, tr])
ParsedOf(B, sql) ==
  LET T == Norm(Lex(B, sql)) IN
  IF Len(T) < 2 \/ ~IsW(T, 1, "SELECT") THEN Err("not_a_select", 1) ELSE ParseWhole(B, SubSeq(T, 2, Len(T)))

\* C05's relation for one rendered text: "SELECT <expr>"
ExprReasons(B, e, sql) ==
  LET T == Norm(Lex(B, sql)) IN
  IF Len(T) < 2 \/ ~IsW(T, 1, "SELECT") THEN {"not_a_select"}
  ELSE LET r == ParseWhole(B, SubSeq(T, 2, Len(T))) IN
    IF ~r.ok THEN {"does_not_parse:" \o r.tr.why}
    ELSE IF r.tr # Canon(B, e) THEN {"parses_to_different_tree"}
    ELSE {}
=============================================================================
