--------------------------- MODULE TokenizerProof ---------------------------
(***************************************************************************)
(* Unbounded argument for C16 at the level of the iterator: whatever the   *)
(* scanner is, if every call on a non-exhausted input returns an end       *)
(* position strictly beyond the current one (NextEnd(p) > p, within the    *)
(* input) then (1) what has been emitted is always exactly the consumed    *)
(* prefix of the input (lossless), (2) no token is empty, and (3) the      *)
(* distance to the end strictly decreases (termination).  The bounded TLC  *)
(* check of MCTokenizer establishes the premise for the modelled scanner   *)
(* on all strings up to the bound; this proof covers every length.         *)
(***************************************************************************)
EXTENDS Naturals, Sequences, TLAPS
CONSTANTS Char, S, NextEnd(_)
ASSUME SType == S \in Seq(Char)
ASSUME Progress == \A p \in 1..Len(S) : NextEnd(p) \in (p + 1)..(Len(S) + 1)
VARIABLES p, consumed, last
vars == <<p, consumed, last>>

Init == p = 1 /\ consumed = << >> /\ last = << >>
Step == /\ p <= Len(S)
        /\ last' = SubSeq(S, p, NextEnd(p) - 1)
        /\ consumed' = consumed \o SubSeq(S, p, NextEnd(p) - 1)
        /\ p' = NextEnd(p)
Spec == Init /\ [][Step]_vars

Inv == /\ p \in 1..(Len(S) + 1)
       /\ consumed = SubSeq(S, 1, p - 1)

LEMMA InitInv == Init => Inv
  BY SType DEF Init, Inv

LEMMA StepInv == Inv /\ [Step]_vars => Inv'
<1> SUFFICES ASSUME Inv, [Step]_vars PROVE Inv'
  OBVIOUS
<1>1. CASE UNCHANGED vars
  BY <1>1 DEF Inv, vars
<1>2. CASE Step
  <2>1. p \in 1..Len(S) /\ NextEnd(p) \in (p + 1)..(Len(S) + 1)
    BY <1>2, Progress DEF Inv, Step
  <2>2. p' \in 1..(Len(S) + 1)
    BY <1>2, <2>1 DEF Step
  <2>3. SubSeq(S, 1, p - 1) \o SubSeq(S, p, NextEnd(p) - 1) = SubSeq(S, 1, NextEnd(p) - 1)
    BY <2>1, SType
  <2> QED BY <1>2, <2>2, <2>3 DEF Inv, Step
<1> QED BY <1>1, <1>2

THEOREM Lossless == Spec => []Inv
<1>1. Init => Inv BY InitInv
<1>2. Inv /\ [Step]_vars => Inv' BY StepInv
<1> QED BY <1>1, <1>2, PTL DEF Spec

\* every emitted token is non-empty and the remaining input shrinks: termination measure Len(S) + 1 - p
THEOREM StepProgress == Inv /\ Step => /\ Len(last') >= 1
                                       /\ (Len(S) + 1) - p' < (Len(S) + 1) - p
<1> SUFFICES ASSUME Inv, Step PROVE Len(last') >= 1 /\ (Len(S) + 1) - p' < (Len(S) + 1) - p
  OBVIOUS
<1>1. p \in 1..Len(S) /\ NextEnd(p) \in (p + 1)..(Len(S) + 1)
  BY Progress DEF Inv, Step
<1>2. Len(SubSeq(S, p, NextEnd(p) - 1)) = NextEnd(p) - p
  BY <1>1, SType
<1>3. last' = SubSeq(S, p, NextEnd(p) - 1) /\ p' = NextEnd(p)
  BY DEF Step
<1>4. p \in Nat /\ NextEnd(p) \in Nat /\ Len(S) \in Nat /\ NextEnd(p) >= p + 1 /\ NextEnd(p) <= Len(S) + 1
  BY <1>1, SType
<1>5. Len(last') >= 1
  BY <1>2, <1>3, <1>4
<1>6. (Len(S) + 1) - p' < (Len(S) + 1) - p
  BY <1>3, <1>4
<1> QED BY <1>5, <1>6
=============================================================================
