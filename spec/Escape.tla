------------------------------- MODULE Escape -------------------------------
(***************************************************************************)
(* Implementation-level model of sea-query's escaping (src/backend/mod.rs,  *)
(* src/backend/sqlite/mod.rs, write_string_quoted / write_bytes in          *)
(* src/backend/query_builder.rs and src/backend/postgres/query.rs).         *)
(* The default escape is the ORDERED chain of eight replace passes the code *)
(* performs; the order is part of the model.                                *)
(***************************************************************************)
EXTENDS Chars

\* one str::replace(from, to) pass, from being one character
RECURSIVE ReplaceFrom(_, _, _, _)
ReplaceFrom(s, i, from, to) ==
  IF i > Len(s) THEN ""
  ELSE (IF Ch(s, i) = from THEN to ELSE Ch(s, i)) \o ReplaceFrom(s, i + 1, from, to)
Replace(s, from, to) == ReplaceFrom(s, 1, from, to)

\* the chain, in code order: (from, to)
DefaultChain == <<
  <<BSL, BSL \o BSL>>, <<"\"", BSL \o "\"">>, <<"'", BSL \o "'">>, <<NUL, BSL \o "0">>,
  <<BS, BSL \o "b">>, <<"\t", BSL \o "t">>, <<"\n", BSL \o "n">>, <<"\r", BSL \o "r">> >>

RECURSIVE ApplyChain(_, _, _)
ApplyChain(s, chain, k) == IF k > Len(chain) THEN s ELSE ApplyChain(Replace(s, chain[k][1], chain[k][2]), chain, k + 1)
EscapeDefault(s) == ApplyChain(s, DefaultChain, 1)

\* unescape_string: the `escape` flag automaton with its six letter cases
RECURSIVE UnescFrom(_, _, _)
UnescFrom(s, i, esc) ==
  IF i > Len(s) THEN ""
  ELSE LET c == Ch(s, i) IN
    IF ~esc /\ c = BSL THEN UnescFrom(s, i + 1, TRUE)
    ELSE IF esc THEN
      (CASE c = "0" -> NUL [] c = "b" -> BS [] c = "t" -> "\t" [] c = "z" -> SUB
         [] c = "n" -> "\n" [] c = "r" -> "\r" [] OTHER -> c) \o UnescFrom(s, i + 1, FALSE)
    ELSE c \o UnescFrom(s, i + 1, FALSE)
UnescapeDefault(s) == UnescFrom(s, 1, FALSE)

EscapeSqlite(s) == Replace(s, "'", "''")
\* str::replace("''", "'"): left-to-right, non-overlapping
RECURSIVE UnescSqliteFrom(_, _)
UnescSqliteFrom(s, i) ==
  IF i > Len(s) THEN ""
  ELSE IF StartsWithAt(s, i, "''") THEN "'" \o UnescSqliteFrom(s, i + 2)
  ELSE Ch(s, i) \o UnescSqliteFrom(s, i + 1)
UnescapeSqlite(s) == UnescSqliteFrom(s, 1)

EscapeB(B, s)   == IF B = "sqlite" THEN EscapeSqlite(s) ELSE EscapeDefault(s)
UnescapeB(B, s) == IF B = "sqlite" THEN UnescapeSqlite(s) ELSE UnescapeDefault(s)

\* write_string_quoted
WriteStringQuoted(B, s) ==
  LET e == EscapeB(B, s) IN
  IF B = "pg" /\ HasChar(e, BSL) THEN "E'" \o e \o "'" ELSE "'" \o e \o "'"

\* write_bytes over an upper-case hex string
WriteBytes(B, hex) == IF B = "pg" THEN "'" \o BSL \o "x" \o hex \o "'" ELSE "x'" \o hex \o "'"
=============================================================================
