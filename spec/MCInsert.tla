------------------------------ MODULE MCInsert ------------------------------
(* Design check for C10: all call histories of length <= MaxCalls over the *)
(* insert-builder actions; the modelled statement's results and rendering  *)
(* are compared with the property-level reading (Abs / Demand).            *)
EXTENDS Insert, FiniteSets
CONSTANT MaxCalls

IntV(n) == [k |-> "val", v |-> [t |-> "Int", v |-> NatToStr(n)]]
Names(n) == [i \in 1..n |-> "c" \o NatToStr(i)]
Row(step, r, m) == [j \in 1..m |-> IntV(step * 100 + r * 10 + j)]
Sel(k) == [kind |-> "select", width |-> k, calls |-> [i \in 1..k |-> [op |-> "expr", e |-> IntV(900 + i)]]]

CallsAt(step) ==
  {[op |-> "columns", cols |-> Names(n)] : n \in 0..3}
  \cup {[op |-> "values", row |-> Row(step, 1, m)] : m \in 0..4}
  \cup {[op |-> "values_panic", row |-> Row(step, 1, m)] : m \in 0..3}
  \cup {[op |-> "select_from", q |-> Sel(k)] : k \in 0..3}
  \cup {[op |-> "or_default_values"], [op |-> "or_default_values_many", n |-> 2]}
  \cup {[op |-> "values_from_panic", rows |-> <<Row(step, 1, a), Row(step, 2, b)>>] : a \in 1..2, b \in 1..2}
  \cup {[op |-> "values_from_panic", rows |-> <<>>], [op |-> "values_from_panic", rows |-> <<Row(step, 1, 0)>>]}
  \* equal cells within a row, equal rows within a batch, a row that is one tuple expression, a wildcard select list
  \cup {[op |-> "values", row |-> [j \in 1..m |-> IntV(7)]] : m \in 2..3}
  \cup {[op |-> "values_from_panic", rows |-> <<Row(step, 1, 2), Row(step, 1, 2)>>]}
  \cup {[op |-> "values", row |-> <<[k |-> "tuple", es |-> <<IntV(1), IntV(2)>>]>>]}
  \cup {[op |-> "select_from", q |-> [kind |-> "select", width |-> 1, calls |-> <<[op |-> "column", n |-> "*"], [op |-> "from", t |-> <<"s">>]>>]]}

VARIABLES st, hist, last
vars == <<st, hist, last>>
Init == st = InitStmt /\ hist = <<>> /\ last = [unit |-> TRUE]
Do(c) == LET r == Call(st, c) IN st' = r.st /\ last' = r.res /\ hist' = Append(hist, c)
Next == Len(hist) < MaxCalls /\ \E c \in CallsAt(Len(hist) + 1) : Do(c)
Spec == Init /\ [][Next]_vars

\* action property: a rejected values()/select_from() leaves the statement unchanged and carries both counts
RejectLeavesNoTrace ==
  [][ ("ok" \in DOMAIN last' /\ ~last'.ok) => (st' = st /\ last'.col_len = Len(st.cols)) ]_vars

ResultAgrees ==
  Len(hist) = 0 \/
  LET c == hist[Len(hist)]
      d == Demand(AbsAfter(hist, Len(hist) - 1), c)
  IN CASE d.k = "ok" -> "ok" \in DOMAIN last /\ last.ok
       [] d.k = "err" -> "ok" \in DOMAIN last /\ ~last.ok /\ last.col_len = d.col_len /\ last.val_len = d.val_len
       [] d.k = "panic" -> "panic" \in DOMAIN last
       [] OTHER -> "unit" \in DOMAIN last
Backends == {"mysql", "pg", "sqlite"}
Viol == UNION {{<<B, x>> : x \in RenderReasons(B, AbsAfter(hist, Len(hist)), RenderInsert(B, st))} : B \in Backends}
Check == Viol = {} \/ PrintT(<<"MV", ToJson([hist |-> hist, where |-> Viol])>>)
Emit == Len(hist) = 0 \/ PrintT(<<"CASE", ToJson(hist)>>)
=============================================================================
