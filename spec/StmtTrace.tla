----------------------------- MODULE StmtTrace -----------------------------
(***************************************************************************)
(* Trace validation of query statements (C01, C02, the inject half of C11):*)
(* every record holds the raw observations of one statement on the three   *)
(* backends — all rendering entry points, the Write/PushParam event stream *)
(* of the real renderer, inject_parameters.                                *)
(***************************************************************************)
EXTENDS Portable, RefStmt, WriterLaw, IOUtils, TLCExt, FiniteSets
Rec == ndJsonDeserialize(IOEnv.TRACE)
Backends == {"mysql", "pg", "sqlite"}
WithGrammar == "GRAMMAR" \in DOMAIN IOEnv /\ IOEnv.GRAMMAR = "1"
WithPortable == "PORTABLE" \in DOMAIN IOEnv /\ IOEnv.PORTABLE = "1"
VARIABLE l
TInit == l = 1
IsPanic(o) == "panic" \in DOMAIN o

\* documented "dialect does not support X" panics are outside the domain
RECURSIVE ContainsAt(_, _, _)
ContainsAt(s, sub, i) == IF i + Len(sub) - 1 > Len(s) THEN FALSE ELSE IF SubSeq(s, i, i + Len(sub) - 1) = sub THEN TRUE ELSE ContainsAt(s, sub, i + 1)
Contains(s, sub) == ContainsAt(s, sub, 1)
UnsupportedPanic(o) == \E w \in {"not support", "doesnot support", "not implemented", "not available", "Not supported"} : Contains(o.panic, w)

KeysFor(B, r) ==
  LET ob == r.obs.r[B] IN
  IF IsPanic(ob) THEN (IF UnsupportedPanic(ob) THEN {"?unsupported"} ELSE {"C01/" \o B \o "/panic", "C02/" \o B \o "/panic"})
  ELSE
  LET o == ob.r
      s == BuildStmt(r.stmt)
      Tp == Lex(B, o.sql)
      Ti == Lex(B, o.inline)
      want == BoundOrder(B, s)
      lits == [i \in DOMAIN o.lits |-> Lex(B, o.lits[i])]
      same == SameStatementReason(Ti, Tp, lits)
      literalMarks == Len(SelectSeq(Tp, LAMBDA t : t.k = "ph")) # Len(o.values)
      gs == IF WithGrammar THEN GrammarReasons(B, s, o.inline) ELSE {}
  IN {(IF B = "sqlite" THEN "C07/" ELSE "C08/") \o B \o "/" \o g : g \in gs \ {"?unsupported"}}
     \cup {"C01/" \o B \o "/" \o x : x \in PlaceholderReasons(B, Tp, Len(o.values))}
     \* the dynamic entry point is judged on its own text and values as well (not only by comparison with build)
     \cup {"C01/" \o B \o "/build_any:" \o x : x \in PlaceholderReasons(B, Lex(B, o.sql_any), Len(o.values_any))}
     \cup (IF o.values = want THEN {} ELSE {"C01/" \o B \o "/bound_values_differ_from_given_order"})
     \cup {"C01/" \o B \o "/" \o x : x \in EventReasons(o.events, 1, 0, B = "pg")}
     \cup (IF EventsText(o.events, 1) = o.sql /\ EventsValues(o.events) = o.values /\ o.events_sql = o.sql /\ o.events_values = o.values
           THEN {} ELSE {"C01/" \o B \o "/event_stream_is_not_the_build"})
     \cup (IF same = "" THEN {} ELSE {"C02/" \o B \o "/" \o same})
     \cup (IF Len(o.lits) = Len(o.values) /\ \A i \in DOMAIN o.values : LitDenotes(B, lits[i], o.values[i]) THEN {}
           ELSE {"C02/" \o B \o "/inline_literal_does_not_denote_the_bound_value"})
     \cup (IF o.sql = o.sql_any /\ o.sql = o.collect_sql /\ o.sql = o.collect_any_sql /\ o.sql = o.collect_any_into_sql
              /\ o.values = o.values_any /\ o.values = o.collect_values /\ o.values = o.collect_any_into_values THEN {} ELSE {"C02/" \o B \o "/entry_points_disagree"})
     \cup (IF o.inline = o.inline_again /\ o.inline = o.collect_string /\ o.inline = o.collect_any_into_string THEN {} ELSE {"C02/" \o B \o "/inline_entry_points_disagree"})
     \cup (IF literalMarks THEN {}
           ELSE IF IsPanic(o.inject) THEN {"C11/" \o B \o "/inject_panics"}
           ELSE IF o.inject.r = o.inline THEN {}
           ELSE {"C11/" \o B \o "/inject_differs_from_inline" \o
                 (IF B = "sqlite" /\ \E i \in DOMAIN Ti : Ti[i].k = "str" /\ HasChar(Ti[i].t, BSL) THEN "/backslash_in_literal" ELSE "")})

Exact(B, r) ==
  IsPanic(r.obs.r[B]) \/
  LET o == r.obs.r[B].r
      p == RenderParams(B, r.stmt)
  IN o.inline = RenderInline(B, r.stmt) /\ o.sql = p.sql /\ Len(o.lits) = Len(p.vals) /\ \A i \in DOMAIN p.vals : o.lits[i] = p.vals[i]

\* C09: transliterations of the three renderings (inline and parameterised) and their token equality
C09Of(r) ==
  IF ~WithPortable THEN [portable |-> FALSE]
  ELSE LET s == BuildStmt(r.stmt) IN
    IF ~Portable(s) \/ \E B \in Backends : IsPanic(r.obs.r[B]) THEN [portable |-> FALSE]
    ELSE LET tl == Translit("sqlite", r.obs.r["sqlite"].r.inline)
             tm == Translit("mysql", r.obs.r["mysql"].r.inline)
             tp == Translit("pg", r.obs.r["pg"].r.inline)
             emu == Contains(r.obs.r["mysql"].r.inline, " IS NULL ASC, ") \/ Contains(r.obs.r["mysql"].r.inline, " IS NULL DESC, ")
         IN [portable |-> TRUE, nulls |-> emu,
             pg_tokens_equal |-> tp = tl, mysql_tokens_equal |-> emu \/ tm = tl,
             sqlite |-> JoinS(tl, " "), mysql |-> JoinS(tm, " "), pg |-> JoinS(tp, " "),
             mysql_p |-> TranslitText("mysql", r.obs.r["mysql"].r.sql), pg_p |-> TranslitText("pg", r.obs.r["pg"].r.sql)]

Verdict(r) ==
  IF IsPanic(r.obs) THEN [id |-> r.id, keys |-> {"C01/harness/panic", "C02/harness/panic"}, exact |-> TRUE, nvals |-> 0, skipped |-> 0, ref |-> "", ordered |-> FALSE, c09 |-> [portable |-> FALSE]]
  ELSE
  LET ks == UNION {KeysFor(B, r) : B \in Backends}
        \cup (IF r.obs.r.eq_after THEN {} ELSE {"C02/all/rendering_modified_the_statement"})
        \cup (IF r.stmt.kind = "with" \/ CallsOk(r.stmt) THEN {} ELSE {"!case_error/method_annotation_contradicts_stmt_methods_json"})
  IN [id |-> r.id, keys |-> ks \ {"?unsupported"},
      skipped |-> Cardinality({B \in Backends : KeysFor(B, r) = {"?unsupported"}}),
      exact |-> \A B \in Backends : Exact(B, r),
      nvals |-> IF IsPanic(r.obs.r["pg"]) THEN 0 ELSE Len(r.obs.r["pg"].r.values),
      ref |-> IF WithGrammar /\ ~Unsupported("sqlite", BuildStmt(r.stmt)) THEN RefS(BuildStmt(r.stmt)) ELSE "",
      ordered |-> LET s == BuildStmt(r.stmt) IN s.kind = "select" /\ Len(s.orders) > 0,
      c09 |-> C09Of(r)]

Step == /\ l <= Len(Rec)
        /\ PrintT(<<"R", ToJson(Verdict(Rec[l]))>>)
        /\ l' = l + 1
TSpec == TInit /\ [][Step]_l
AllConsumed == TLCGet("stats").diameter = Len(Rec) + 1
=============================================================================
