------------------------------- MODULE MCSchema -------------------------------
(***************************************************************************)
(* Design check of the schema renderers without the implementation: for    *)
(* every declaration of the space (one initial state each) the text the    *)
(* implementation-level model writes (Schema!RenderDDL) is parsed by the   *)
(* dialect's DDL grammar and compared with the declaration                 *)
(* (SchemaLaw!DdlReasons).  Model-level counterexamples are printed (MV),  *)
(* not raised: they count only when the replay reproduces them on the real *)
(* crate (that is how the Money / RENAME TO / VERSION findings show here). *)
(***************************************************************************)
EXTENDS SchemaLaw, Schema
Stmts == JsonDeserialize("schema_stmts.json")
VARIABLE i
Init == i \in DOMAIN Stmts
Next == UNCHANGED i
Spec == Init /\ [][Next]_i
D == Stmts[i]
ReasonsOn(B) ==
  IF Unsupported14(B, D) \/ RenderDDL(B, D) = Unsup THEN {}
  ELSE {x \in DdlReasons(B, D, RenderDDL(B, D)) : ~HasChar(x, "?")}
\* the modelled text never contains a token the dialect's lexer rejects
LexesCleanly == \A B \in {"mysql", "pg", "sqlite"} :
                  RenderDDL(B, D) = Unsup \/ ~\E k \in DOMAIN Lex(B, RenderDDL(B, D)) : Lex(B, RenderDDL(B, D))[k].k = "bad"
Check == (ReasonsOn("mysql") = {} /\ ReasonsOn("pg") = {})
         \/ PrintT(<<"MV", ToJson([stmt |-> D.stmt, mysql |-> ReasonsOn("mysql"), pg |-> ReasonsOn("pg")])>>)
=============================================================================
