-------------------------------- MODULE Expr --------------------------------
(***************************************************************************)
(* Implementation-level model of expression rendering:                     *)
(*  - Internal(e): the SimpleExpr the expression API builds for a case     *)
(*    tree (ExprTrait::between / like / is_in / cast_as encodings,         *)
(*    src/expr.rs, src/func.rs);                                           *)
(*  - RenderI(B, MP, x): prepare_simple_expr_common / binary_expr with the *)
(*    four drop_* flags, the Unary arm and the PrecedenceDecider /         *)
(*    OperLeftAssocDecider implementations (src/backend/query_builder.rs,  *)
(*    src/backend/postgres/query.rs); MP = option-more-parentheses;        *)
(*  - CondToExpr: Condition::to_simple_expr (src/query/condition.rs).      *)
(* Rendering is into a String writer (values inlined).                     *)
(***************************************************************************)
EXTENDS ExprLaw, Escape, Ident, Template

Bin(l, op, r) == [k |-> "Binary", l |-> l, op |-> op, r |-> r]
Un(e)         == [k |-> "Unary", e |-> e]

(************  Condition::add / any / all / not / add_option  **************)
\* stored conditions: [k:"cond", t, neg, ms] with members that are stored
\* conditions or case expressions; [k:"null"] marks add_option(None)
EmptyCond(t) == [k |-> "cond", t |-> t, neg |-> FALSE, ms |-> <<>>]
\* Condition::add - "Skip the junction if there is only one."
CondAdd(c, m) ==
  IF m.k = "cond" /\ Len(m.ms) = 1 /\ ~m.neg
  THEN [c EXCEPT !.ms = Append(@, m.ms[1])]
  ELSE [c EXCEPT !.ms = Append(@, m)]
\* the chain of calls the harness makes for a case condition tree
RECURSIVE BuildCond(_), BuildMembers(_, _, _)
BuildMembers(acc, ms, i) ==
  IF i > Len(ms) THEN acc
  ELSE IF ms[i].k = "null" THEN BuildMembers(acc, ms, i + 1)
  ELSE IF ms[i].k = "cond" THEN BuildMembers(CondAdd(acc, BuildCond(ms[i])), ms, i + 1)
  ELSE BuildMembers(CondAdd(acc, ms[i]), ms, i + 1)
BuildCond(j) ==
  LET c == BuildMembers(EmptyCond(j.t), j.ms, 1) IN
  IF Neg(j) THEN [c EXCEPT !.neg = ~@] ELSE c
\* IntoCondition: a Condition is itself; an expression becomes all[expr]
IntoCondition(x) == IF x.k = "cond" THEN BuildCond(x) ELSE CondAdd(EmptyCond("all"), x)

RECURSIVE Internal(_), InternalSeq(_), CondToExpr(_)
InternalSeq(es) == [i \in DOMAIN es |-> Internal(es[i])]

\* Condition::to_simple_expr on the *stored* condition tree c (already
\* rewritten by Condition::add / add_condition, see Cond.tla)
CondToExpr(c) ==
  IF c.k # "cond" THEN Internal(c)
  ELSE LET es == [i \in DOMAIN c.ms |-> CondToExpr(c.ms[i])]
           RECURSIVE Fold(_)
           Fold(n) == IF n = 1 THEN es[1] ELSE Bin(Fold(n - 1), IF c.t = "any" THEN "Or" ELSE "And", es[n])
           body == IF Len(es) = 0 THEN [k |-> "Constant", v |-> [t |-> "Bool", v |-> c.t = "all"]] ELSE Fold(Len(es))
       IN IF c.neg THEN Un(body) ELSE body

Internal(e) ==
  CASE e.k = "col" -> [k |-> "Column", n |-> e.n, q |-> IF "q" \in DOMAIN e THEN e.q ELSE <<>>]
    [] e.k = "val" -> [k |-> "Value", v |-> e.v]
    [] e.k = "const" -> [k |-> "Constant", v |-> e.v]
    [] e.k = "bin" -> Bin(Internal(e.l), e.op, Internal(e.r))
    [] e.k = "not" -> Un(Internal(e.e))
    [] e.k = "between" -> Bin(Internal(e.e), IF Neg(e) THEN "NotBetween" ELSE "Between", Bin(Internal(e.a), "And", Internal(e.b)))
    [] e.k = "like" ->
         LET pat == [k |-> "Value", v |-> [t |-> "String", v |-> e.p]]
             rhs == IF "esc" \in DOMAIN e THEN Bin(pat, "Escape", [k |-> "Constant", v |-> [t |-> "Char", v |-> e.esc]]) ELSE pat
             op  == IF "ci" \in DOMAIN e /\ e.ci THEN (IF Neg(e) THEN "PgNotILike" ELSE "PgILike")
                    ELSE (IF Neg(e) THEN "NotLike" ELSE "Like")
         IN Bin(Internal(e.e), op, rhs)
    [] e.k = "in" -> Bin(Internal(e.e), IF Neg(e) THEN "NotIn" ELSE "In", [k |-> "Tuple", es |-> InternalSeq(e.vs)])
    [] e.k = "isnull" -> Bin(Internal(e.e), IF Neg(e) THEN "IsNot" ELSE "Is", [k |-> "Keyword", w |-> "NULL"])
    [] e.k = "cast" -> [k |-> "Func", f |-> "CAST", ds |-> <<FALSE>>, args |-> <<Bin(Internal(e.e), "As", [k |-> "Custom", s |-> e.ty])>>]
    [] e.k = "fn" -> [k |-> "Func", f |-> e.f, ds |-> [i \in DOMAIN e.args |-> e.f = "CountDistinct"], args |-> InternalSeq(e.args)]
    [] e.k = "tuple" -> [k |-> "Tuple", es |-> InternalSeq(e.es)]
    [] e.k = "case" -> [k |-> "Case", whens |-> [i \in DOMAIN e.whens |-> [c |-> e.whens[i].c, r |-> Internal(e.whens[i].r)]],
                        else |-> IF "else" \in DOMAIN e THEN Internal(e.else) ELSE None]
    [] e.k = "kw" -> [k |-> "Keyword", w |-> Canon("mysql", e).w]
    [] e.k = "cust" -> [k |-> "Custom", s |-> e.s]
    [] e.k = "custv" -> [k |-> "CustomWithExpr", s |-> e.s, vs |-> InternalSeq(e.vs)]
    [] e.k = "vals" -> [k |-> "Values", vs |-> e.vs]
    [] e.k = "asenum" -> [k |-> "AsEnum", ty |-> e.ty, e |-> Internal(e.e)]
    \* subqueries arrive pre-rendered (field txt, see Stmt!MapSubq): the statement renderer is a later module
    [] e.k = "subq" -> [k |-> "SubQuery", op |-> IF "op" \in DOMAIN e THEN UpperStr(e.op) ELSE "", txt |-> IF "txt" \in DOMAIN e THEN e.txt ELSE "?"]
    [] e.k = "insub" -> Bin(Internal(e.e), IF Neg(e) THEN "NotIn" ELSE "In", [k |-> "SubQuery", op |-> "", txt |-> IF "txt" \in DOMAIN e THEN e.txt ELSE "?"])
    [] e.k = "cond" -> CondToExpr(BuildCond(e))

(***************************  Oper::is_* classes  **************************)
IsArith(op)      == op \in {"Mul", "Div", "Mod", "Add", "Sub"}
IsShift(op)      == op \in {"LShift", "RShift"}
IsComparison(op) == op \in {"SmallerThan", "SmallerThanOrEqual", "Equal", "GreaterThanOrEqual", "GreaterThan", "NotEqual"}
IsBetweenOp(op)  == op \in {"Between", "NotBetween"}
IsInOp(op)       == op \in {"In", "NotIn"}
IsLikeOp(op)     == op \in {"Like", "NotLike"}
IsIsOp(op)       == op \in {"Is", "IsNot"}
IsLogical(op)    == op \in {"Not", "And", "Or"}          \* "Not" = the unary operator
IsPgComparison(op) == op \in {"PgContained", "PgContains", "PgSimilarity", "PgWordSimilarity", "PgStrictWordSimilarity", "PgMatches"}

\* rendering options: mp = cargo feature option-more-parentheses; pm = parameter
\* mode (bound values are written as ESC literal DEL markers, see Stmt!ToParams)
Opt(mp, pm) == [mp |-> mp, pm |-> pm]
NoOpt == Opt(FALSE, FALSE)
POpen == NamedChars.ESC
PClose == NamedChars.DEL

\* common_inner_expr_well_known_greater_precedence
CommonGreater(MP, inner, outer) ==
  IF inner.k \in {"Column", "Tuple", "Constant", "Func", "Value", "Keyword", "Case", "SubQuery"} THEN TRUE
  ELSE IF inner.k = "Binary" THEN
    IF MP.mp THEN FALSE
    ELSE IF IsArith(inner.op) \/ IsShift(inner.op)
         THEN IsComparison(outer) \/ IsBetweenOp(outer) \/ IsInOp(outer) \/ IsLikeOp(outer) \/ IsLogical(outer)
    ELSE IF IsComparison(inner.op) \/ IsInOp(inner.op) \/ IsLikeOp(inner.op) \/ IsIsOp(inner.op) THEN IsLogical(outer)
    ELSE FALSE
  ELSE FALSE
\* PrecedenceDecider for PostgresQueryBuilder (is_ilike(inner) can never hold for an arithmetic inner operator)
Greater(B, MP, inner, outer) ==
  CommonGreater(MP, inner, outer)
  \/ (B = "pg" /\ inner.k = "Binary" /\ ~(IsArith(inner.op) \/ IsShift(inner.op)) /\ IsPgComparison(inner.op) /\ IsLogical(outer))
LeftAssoc(B, op) == op \in {"And", "Or", "Add", "Sub", "Mul", "Mod"} \/ (B = "pg" /\ op = "PgConcatenate")

(*****************************  value_to_string  ***************************)
ValueToString(B, v) ==
  IF "null" \in DOMAIN v /\ v.null THEN "NULL"
  ELSE CASE v.t = "Bool" -> (IF v.v THEN "TRUE" ELSE "FALSE")
         [] v.t \in {"String", "Char"} -> WriteStringQuoted(B, v.v)
         [] v.t = "Bytes" -> WriteBytes(B, v.v)
         [] OTHER -> v.v

RECURSIVE JoinStrs(_, _)
JoinStrs(ss, sep) == IF Len(ss) = 0 THEN "" ELSE IF Len(ss) = 1 THEN ss[1] ELSE ss[1] \o sep \o JoinStrs(Tail(ss), sep)

ColText(B, x) ==       \* x = [n, q]
  LET q == QuoteOf(B) IN
  ConcatAll([i \in DOMAIN x.q |-> Prepare(x.q[i], q, q) \o "."]) \o (IF x.n = "*" THEN "*" ELSE Prepare(x.n, q, q))

RECURSIVE RenderI(_, _, _), BinaryExpr(_, _, _, _, _)
BinaryExpr(B, MP, l, op, r) ==
  LET dlh == Greater(B, MP, l, op)
      dla == l.k = "Binary" /\ op = l.op /\ LeftAssoc(B, op)
      lp  == ~dlh /\ ~dla
      drh == Greater(B, MP, r, op)
      bh  == IsBetweenOp(op) /\ r.k = "Binary" /\ r.op = "And"
      eh  == (IsLikeOp(op) \/ op \in {"PgILike", "PgNotILike"}) /\ r.k = "Binary" /\ r.op = "Escape"
      ah  == op = "As" /\ r.k = "Custom"
      rp  == ~drh /\ ~eh /\ ~bh /\ ~ah
      opt == IF op = "As" THEN "AS" ELSE IF op = "Escape" THEN "ESCAPE" ELSE OpText(B, op)
      \* the two bounds of BETWEEN: parenthesised unless they bind tighter than BETWEEN
      Bound(x) == IF Greater(B, MP, x, op) THEN RenderI(B, MP, x) ELSE "(" \o RenderI(B, MP, x) \o ")"
      rtext == IF bh THEN Bound(r.l) \o " AND " \o Bound(r.r) ELSE RenderI(B, MP, r)
  IN (IF lp THEN "(" \o RenderI(B, MP, l) \o ")" ELSE RenderI(B, MP, l))
     \o " " \o opt \o " " \o
     (IF rp THEN "(" \o rtext \o ")" ELSE rtext)

IntVal(n) == [k |-> "Value", v |-> [t |-> "Int", v |-> n]]

RenderI(B, MP, x) ==
  CASE x.k = "Column" -> ColText(B, x)
    [] x.k = "Value" -> IF MP.pm THEN POpen \o ValueToString(B, x.v) \o PClose ELSE ValueToString(B, x.v)
    [] x.k = "Constant" -> ValueToString(B, x.v)
    [] x.k = "Keyword" -> x.w
    [] x.k = "Custom" -> x.s
    [] x.k = "SubQuery" -> x.op \o "(" \o x.txt \o ")"
    [] x.k = "Values" -> "(" \o JoinStrs([i \in DOMAIN x.vs |-> RenderI(B, MP, [k |-> "Value", v |-> x.vs[i]])], ", ") \o ")"
    [] x.k = "AsEnum" -> IF B = "pg" THEN "CAST(" \o RenderI(B, MP, x.e) \o " AS " \o Prepare(x.ty, "\"", "\"") \o ")" ELSE RenderI(B, MP, x.e)
    [] x.k = "CustomWithExpr" ->
         LET al == ConcatAll([i \in 1..Len(x.s) |-> IF Ch(x.s, i) \in Letters \cup Digits THEN "1" ELSE "0"])
             ps == ExpandImpl(B, x.s, al)
         IN ConcatAll([i \in DOMAIN ps |-> IF ps[i].k = "text" THEN ps[i].s ELSE RenderI(B, MP, x.vs[ps[i].i])])
    [] x.k = "Tuple" -> "(" \o JoinStrs([i \in DOMAIN x.es |-> RenderI(B, MP, x.es[i])], ", ") \o ")"
    [] x.k = "Unary" ->
         "NOT " \o (IF Greater(B, MP, x.e, "Not") THEN RenderI(B, MP, x.e) ELSE "(" \o RenderI(B, MP, x.e) \o ")")
    [] x.k = "Binary" ->
         IF x.op = "In" /\ x.r.k = "Tuple" /\ Len(x.r.es) = 0 THEN BinaryExpr(B, MP, IntVal("1"), "Equal", IntVal("2"))
         ELSE IF x.op = "NotIn" /\ x.r.k = "Tuple" /\ Len(x.r.es) = 0 THEN BinaryExpr(B, MP, IntVal("1"), "Equal", IntVal("1"))
         ELSE BinaryExpr(B, MP, x.l, x.op, x.r)
    [] x.k = "Func" ->
         (IF x.f = "CAST" THEN "CAST" ELSE FuncName(B, x.f)) \o "(" \o
         JoinStrs([i \in DOMAIN x.args |-> (IF x.ds[i] THEN "DISTINCT " ELSE "") \o RenderI(B, MP, x.args[i])], ", ") \o ")"
    [] x.k = "Case" ->
         "(CASE" \o
         ConcatAll([i \in DOMAIN x.whens |->
            " WHEN (" \o RenderI(B, MP, CondToExpr(IntoCondition(x.whens[i].c)))
            \o ") THEN " \o RenderI(B, MP, x.whens[i].r)]) \o
         (IF x.else = None THEN "" ELSE " ELSE " \o RenderI(B, MP, x.else)) \o " END)"

RenderExpr(B, mp, e) == RenderI(B, Opt(mp, FALSE), Internal(e))
=============================================================================
