----------------------------- MODULE ValueTrace -----------------------------
(* Trace validation for C12: every recorded conversion outcome of the real *)
(* crate against the table of Value.tla.                                   *)
EXTENDS Value, Json, IOUtils, TLCExt
Rec == ndJsonDeserialize(IOEnv.TRACE)
VARIABLE l
Init == l = 1

ObsKeys(r, o) ==
  LET v == From(r.src, r.null)
      want == TryFrom(r.tgt, r.opt, v)
      pfx == "C12/" \o r.src \o "->" \o (IF r.opt THEN "Option<" \o r.tgt \o ">" ELSE r.tgt) \o "/"
  IN (IF o.variant = v.variant /\ o.isnull = r.null THEN {} ELSE {pfx \o "into_value_wrong_variant"})
     \cup (IF o.out.k = want THEN {}
           ELSE IF want = "err" THEN {pfx \o "wrong_type_extraction_succeeds"}
           ELSE IF o.out.k = "none" THEN {pfx \o "present_value_extracted_as_absent"}
           ELSE {pfx \o "extraction_outcome_differs:" \o o.out.k})
     \cup (IF want = "ok" /\ o.out.k = "ok" /\ r.src = r.tgt /\ o.out.d # o["in"] THEN {pfx \o "payload_changed"} ELSE {})
     \cup (IF o.as_null = v.variant /\ (r.null \/ o.as_null_isnull) THEN {} ELSE {"C12/" \o r.src \o "/as_null_changes_variant"})
     \cup (IF o.dummy = v.variant /\ ~o.dummy_isnull THEN {} ELSE {"C12/" \o r.src \o "/dummy_value_changes_variant"})

Verdict(r) ==
  [id |-> r.id,
   keys |-> CASE r.kind = "cell" -> UNION {ObsKeys(r, r.obs[i]) : i \in DOMAIN r.obs}
              [] r.kind = "tuple" ->
                   (IF r.obs.kind = TupleKind(r.n) THEN {} ELSE {"C12/tuple/wrong_kind"})
                   \cup (IF Len(r.obs.items) = r.n THEN {} ELSE {"C12/tuple/arity_changed"})
                   \cup (IF r.obs.same THEN {} ELSE {"C12/tuple/round_trip_differs"})
                   \cup (IF r.obs.longer_refused THEN {} ELSE {"C12/tuple/longer_value_tuple_truncated"})
                   \cup (IF r.obs.shorter_refused THEN {} ELSE {"C12/tuple/shorter_value_tuple_accepted"})
                   \cup (IF \A i \in DOMAIN r.obs.items : r.obs.items[i] = "Int(Some(" \o ToString(100 + i) \o "))" THEN {} ELSE {"C12/tuple/order_changed"})
              [] r.kind = "sweep" -> IF Len(r.bad) = 0 THEN {} ELSE {"C12/sweep/" \o r.ty \o "/payload_changed"},
   n |-> CASE r.kind = "cell" -> Len(r.obs) [] r.kind = "sweep" -> r.n [] OTHER -> 1,
   nt |-> r.kind # "cell" \/ VariantOf(r.src) = VariantOf(r.tgt)]
Step == /\ l <= Len(Rec)
        /\ PrintT(<<"R", ToJson(Verdict(Rec[l]))>>)
        /\ l' = l + 1
Spec == Init /\ [][Step]_l
AllConsumed == TLCGet("stats").diameter = Len(Rec) + 1
=============================================================================
