------------------------------- MODULE Logic3 -------------------------------
(* SQL three-valued (Kleene) logic and evaluation of parsed predicate trees *)
(* under an assignment asg : column name -> {"T", "F", "N"} (1, 0, NULL).   *)
EXTENDS Naturals, Sequences, TLC

TV == {"T", "F", "N"}
And3(a, b) == IF a = "F" \/ b = "F" THEN "F" ELSE IF a = "N" \/ b = "N" THEN "N" ELSE "T"
Or3(a, b)  == IF a = "T" \/ b = "T" THEN "T" ELSE IF a = "N" \/ b = "N" THEN "N" ELSE "F"
Not3(a)    == CASE a = "T" -> "F" [] a = "F" -> "T" [] OTHER -> a
Eq3(a, b)  == IF a = "N" \/ b = "N" THEN "N" ELSE IF a = b THEN "T" ELSE "F"
Is3(a, b)  == IF a = b THEN "T" ELSE "F"

\* "?" = the tree contains something this evaluator does not interpret
RECURSIVE Eval3(_, _)
Eval3(t, asg) ==
  CASE t.k = "col" -> IF t.n \in DOMAIN asg THEN asg[t.n] ELSE "?"
    [] t.k = "num" -> (CASE t.t = "1" -> "T" [] t.t = "0" -> "F" [] OTHER -> "?")
    [] t.k = "kw" -> (CASE t.w = "TRUE" -> "T" [] t.w = "FALSE" -> "F" [] t.w = "NULL" -> "N" [] OTHER -> "?")
    [] t.k = "un" ->
         LET v == Eval3(t.e, asg) IN
         IF v = "?" THEN "?" ELSE IF t.op = "NOT" THEN Not3(v) ELSE "?"
    [] t.k = "bin" ->
         LET a == Eval3(t.l, asg)  b == Eval3(t.r, asg) IN
         IF a = "?" \/ b = "?" THEN "?"
         ELSE CASE t.op = "AND" -> And3(a, b) [] t.op = "OR" -> Or3(a, b)
                [] t.op = "=" -> Eq3(a, b) [] t.op = "<>" -> Not3(Eq3(a, b))
                [] t.op = "IS" -> Is3(a, b) [] t.op = "IS NOT" -> Not3(Is3(a, b))
                [] OTHER -> "?"
    [] OTHER -> "?"
=============================================================================
