------------------------------- MODULE MCDerive -------------------------------
(***************************************************************************)
(* Design check and case generation for C19.                               *)
(*                                                                         *)
(*  mode "words":  one initial state per word over the alphabet file; the  *)
(*                 heck scanner agrees with the stated word boundaries,    *)
(*                 snake_case is idempotent, and the fast path is sound    *)
(*                 for every name the predicate admits.                    *)
(*  mode "types":  a type definition is built step by step (AddVariant /   *)
(*                 AddField / Finish) from the menu file; every finished   *)
(*                 definition is emitted with the plan of values to        *)
(*                 observe (the identifiers enum_def is expected to        *)
(*                 generate come from this model, not from the driver).    *)
(***************************************************************************)
EXTENDS Derive
CONSTANTS Mode, MaxLen, MaxV, AlphaFile, MenuFile
Alpha == JsonDeserialize(AlphaFile)
Menu  == JsonDeserialize(MenuFile)
None == [k |-> "none", s |-> ""]
VARIABLES w, def, done
vars == <<w, def, done>>

Range(f) == {f[i] : i \in DOMAIN f}
EnumInits == {[kind |-> "enum", name |-> n, derive |-> d, crename |-> c, vs |-> <<>>] :
                n \in Range(Menu.tnames), d \in {"Iden", "IdenStatic"}, c \in Range(Menu.crenames)}
UnitInits == {[kind |-> "unit", name |-> n, derive |-> d, crename |-> c] :
                n \in Range(Menu.tnames), d \in {"Iden", "IdenStatic"}, c \in Range(Menu.urenames)}
DefInits  == {[kind |-> "enumdef", name |-> n, fields |-> <<>>, prefix |-> p, suffix |-> s, tname |-> t] :
                n \in Range(Menu.tnames), p \in Range(Menu.prefixes), s \in Range(Menu.suffixes), t \in Range(Menu.tablenames)}
\* prefix = suffix = "" would name the generated enum like the struct itself: not a program
WellFormed(d) == d.kind = "enumdef" => EnumDefIdent(d) # d.name

Init == /\ done = FALSE
        /\ IF Mode = "words" THEN w \in Words(Len(Alpha), MaxLen) /\ def = None
           ELSE w = <<>> /\ def \in {d \in EnumInits \cup UnitInits \cup DefInits : WellFormed(d)}

ShapesFor(a) == IF a.k = "flatten" THEN {"tuple", "named"} ELSE {"unit", "tuple", "named"}
AddVariant == /\ def.kind = "enum" /\ Len(def.vs) < MaxV
              /\ \E n \in Range(Menu.vnames), a \in Range(Menu.attrs) : \E sh \in ShapesFor(a) :
                   /\ \A i \in DOMAIN def.vs : def.vs[i].n # n
                   /\ def' = [def EXCEPT !.vs = Append(@, [n |-> n, shape |-> sh, attr |-> a])]
AddField == /\ def.kind = "enumdef" /\ Len(def.fields) < MaxV
            /\ \E f \in Range(Menu.fields) :
                 /\ \A i \in DOMAIN def.fields : PascalAbs(def.fields[i]) # PascalAbs(f)
                 /\ PascalAbs(f) # "Table"
                 /\ def' = [def EXCEPT !.fields = Append(@, f)]
Finish == /\ (def.kind = "enum" => Len(def.vs) >= 1)
          /\ done' = TRUE /\ UNCHANGED def
Next == /\ Mode = "types" /\ ~done /\ UNCHANGED w
        /\ ((AddVariant \/ AddField) /\ UNCHANGED done) \/ Finish
Spec == Init /\ [][Next]_vars

N == StrOf(Alpha, w)
\* ---- words mode -------------------------------------------------------
HeckAgrees   == Mode = "words" => HeckWords(N) = WordsOf(N)
SnakeIdem    == Mode = "words" => SnakeAbs(SnakeAbs(N)) = SnakeAbs(N)
SnakeShape   == Mode = "words" => \A i \in 1..Len(SnakeAbs(N)) : Ch(SnakeAbs(N), i) \in Lower \cup Digits \cup {"_"}
FastSound    == Mode = "words" => FastPathSound(N)
\* the predicate is not vacuous: it refuses exactly the names whose quoting differs somewhere
FastTight    == (Mode = "words" /\ \E q \in Quotes : FastPrepare(N, q[2], q[3]) # Prepare(N, q[2], q[3])) => ~MustBeValidIden(N)
\* may the word be written as a Rust identifier?  (`_` alone is not one)
IsRustIdent(n) == n # "" /\ n # "_" /\ (Ch(n, 1) = "_" \/ Ch(n, 1) \in Letters) /\ \A i \in 1..Len(n) : Ch(n, i) = "_" \/ IsAlnum(Ch(n, i))
EmitWord     == Mode = "words" => PrintT(<<"CASE", ToJson([ident |-> N, ok |-> IsRustIdent(N), snake |-> SnakeAbs(N)])>>)

\* ---- types mode -------------------------------------------------------
Plan(d) ==
  CASE d.kind = "enum" -> [ty |-> d.name, vals |-> [i \in DOMAIN d.vs |-> d.vs[i].n]]
    [] d.kind = "unit" -> [ty |-> d.name, vals |-> <<d.name>>]
    [] OTHER -> [ty |-> EnumDefIdent(d), vals |-> EnumDefVariants(d)]
\* model-level agreement: the implementation-level model spells the property-level names, with the same quoting
TypeSound == (Mode = "types" /\ done) =>
               /\ NamesImpl(def) = Names(def)
               /\ \A i \in DOMAIN Names(def) : \A q \in Quotes :
                    PrepareImpl(def, Names(def)[i], q[2], q[3]) = Prepare(Names(def)[i], q[2], q[3])
EmitType == (Mode = "types" /\ done) => PrintT(<<"CASE", ToJson([def |-> def, plan |-> Plan(def), fast |-> AllValid(def)])>>)
=============================================================================
