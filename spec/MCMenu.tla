------------------------------- MODULE MCMenu -------------------------------
(* Generic slot walker used for case generation: a behaviour walks the     *)
(* slots of one kind of the menu file in order and picks one option per    *)
(* slot; Budget bounds the number of non-default (index > 1) picks.        *)
(* Budget = 2 under BFS = pairwise-complete product; -simulate samples the *)
(* full product.  Emits the pick vector of every completed walk.           *)
EXTENDS Naturals, Sequences, TLC, Json
CONSTANTS MenuFile, Budget, MenuKinds
Menu == JsonDeserialize(MenuFile)
VARIABLES kind, slot, nd, picks
vars == <<kind, slot, nd, picks>>
Init == kind \in MenuKinds /\ slot = 1 /\ nd = 0 /\ picks = <<>>
Done == slot > Len(Menu[kind])
Next == /\ ~Done
        /\ \E o \in 1..Len(Menu[kind][slot]) :
             /\ (o > 1 => nd < Budget)
             /\ nd' = IF o > 1 THEN nd + 1 ELSE nd
             /\ picks' = Append(picks, o)
        /\ slot' = slot + 1 /\ UNCHANGED kind
Spec == Init /\ [][Next]_vars
PicksInRange == \A i \in DOMAIN picks : picks[i] >= 1 /\ picks[i] <= Len(Menu[kind][i])
Emit == ~Done \/ PrintT(<<"CASE", ToJson([kind |-> kind, picks |-> picks])>>)
=============================================================================
