-------------------------------- MODULE Cond --------------------------------
(***************************************************************************)
(* src/query/condition.rs as a state machine.  State: `contents` (the      *)
(* ConditionHolder: Empty or a stored condition) and the history variable  *)
(* `given` (the conditions as supplied).  Action CondWhere(x) is one       *)
(* cond_where / and_where / cond_having / and_having call.                 *)
(* Property level (C06): the rendered predicate is, under three-valued     *)
(* logic, the AND of the meanings of the supplied conditions; nothing      *)
(* supplied => no predicate.                                               *)
(***************************************************************************)
EXTENDS Expr, Logic3, StmtScan

EmptyHolder == [k |-> "empty"]

\* ConditionHolder::add_condition
AddCondition(cur, a) ==
  IF cur.k = "empty" THEN a
  ELSE IF cur.t = "all" /\ ~cur.neg THEN
         IF a.t = "all" /\ ~a.neg THEN [cur EXCEPT !.ms = @ \o a.ms]
         ELSE CondAdd(cur, a)
  ELSE CondAdd(CondAdd(EmptyCond("all"), cur), a)

\* one call: x is a case condition tree or a case expression
Apply(cur, x) == AddCondition(cur, IntoCondition(x))

(***************************  property level  ******************************)
RECURSIVE Meaning(_, _)
Meaning(x, asg) ==
  IF x.k # "cond" THEN Eval3(Canon("sqlite", x), asg)
  ELSE LET ms == SelectSeq(x.ms, LAMBDA m : m.k # "null")
           vs == [i \in DOMAIN ms |-> Meaning(ms[i], asg)]
           RECURSIVE Fold(_)
           Fold(n) == IF n = 0 THEN (IF x.t = "any" THEN "F" ELSE "T")
                      ELSE IF x.t = "any" THEN Or3(Fold(n - 1), vs[n]) ELSE And3(Fold(n - 1), vs[n])
           v == IF \E i \in DOMAIN vs : vs[i] = "?" THEN "?" ELSE Fold(Len(vs))
       IN IF Neg(x) /\ v # "?" THEN Not3(v) ELSE v

RECURSIVE Demanded(_, _, _)
Demanded(given, n, asg) == IF n = 0 THEN "T" ELSE And3(Demanded(given, n - 1, asg), Meaning(given[n], asg))

AtomNames == {"p", "q", "r"}
Assignments == [AtomNames -> TV]

\* the predicate of clause keyword kw in statement text sql: [has, ok, tr]
PredicateOf(B, sql, kw) ==
  LET T == Norm(Lex(B, sql))
      D == Depths(T)
      i == FindKwIn(T, D, {kw}, 1, 0)
  IN IF i = 0 THEN [has |-> FALSE, ok |-> TRUE, tr |-> None]
     ELSE LET e == ClauseEnd(T, D, i)
              r == ParseWhole(B, SubSeq(T, i + 1, e - 1))
          IN [has |-> TRUE, ok |-> r.ok, tr |-> r.tr]
\* ON CONFLICT (..) [WHERE target] DO UPDATE SET .. [WHERE action]: the predicate of one of the two clauses;
\* stray = the other clause carries a predicate although it was given none
ConflictPredicateOf(B, sql, target) ==
  LET T == Norm(Lex(B, sql))
      D == Depths(T)
      c == FindKwIn(T, D, {"CONFLICT"}, 1, 0)
      do == IF c = 0 THEN 0 ELSE FindKwIn(T, D, {"DO"}, c + 1, 0)
      wt == IF c = 0 THEN 0 ELSE FindKwIn(T, D, {"WHERE"}, c + 1, 0)
      tw == IF wt # 0 /\ do # 0 /\ wt < do THEN wt ELSE 0            \* WHERE of the target
      aw == IF do = 0 THEN 0 ELSE FindKwIn(T, D, {"WHERE"}, do + 1, 0)  \* WHERE of the action
      i == IF target THEN tw ELSE aw
      other == IF target THEN aw ELSE tw
  IN IF i = 0 THEN [has |-> FALSE, ok |-> TRUE, tr |-> None, stray |-> other # 0]
     ELSE LET e == ClauseEnd(T, D, i)
              r == ParseWhole(B, SubSeq(T, i + 1, e - 1))
          IN [has |-> TRUE, ok |-> r.ok, tr |-> r.tr, stray |-> other # 0]
\* CASE WHEN (<pred>) ... : the first WHEN condition of the first select item
CasePredicateOf(B, sql) ==
  LET T == Norm(Lex(B, sql))
      D == Depths(T)
      f == FindKwIn(T, D, {"FROM"}, 1, 0)
      r == ParseWhole(B, SubSeq(T, 2, (IF f = 0 THEN Len(T) + 1 ELSE f) - 1))
  IN IF ~r.ok THEN [has |-> TRUE, ok |-> FALSE, tr |-> r.tr]
     ELSE IF r.tr.k # "case" THEN [has |-> FALSE, ok |-> TRUE, tr |-> None]
     ELSE [has |-> TRUE, ok |-> TRUE, tr |-> r.tr.whens[1].c]

\* reason keys for one observation: given = conditions supplied so far
Reasons(B, pred, given) ==
  IF ~pred.ok THEN {"predicate_does_not_parse:" \o pred.tr.why}
  ELSE IF Len(given) = 0 THEN (IF pred.has THEN {"keyword_without_condition"} ELSE {})
  ELSE IF ~pred.has THEN {"condition_dropped"}
  ELSE LET bad == {asg \in Assignments : Eval3(pred.tr, asg) # Demanded(given, Len(given), asg)} IN
       IF bad = {} THEN {}
       ELSE IF \E asg \in bad : Eval3(pred.tr, asg) = "?" \/ Demanded(given, Len(given), asg) = "?" THEN {"?unevaluable"}
       ELSE {"meaning_differs"}
=============================================================================
