---------------------------- MODULE InsertTrace ----------------------------
(* Trace validation for C10: each record is one behaviour of the insert    *)
(* builder; at every step the recorded Result / panic must be the one the  *)
(* property demands, a rejected call must leave the statement equal to the *)
(* clone taken before it, and the three renderings must show exactly the   *)
(* accepted rows.                                                          *)
EXTENDS Insert, IOUtils, TLCExt
Rec == ndJsonDeserialize(IOEnv.TRACE)
Backends == {"mysql", "pg", "sqlite"}
VARIABLE l
Init == l = 1
IsPanic(o) == "panic" \in DOMAIN o

\* the error's message (Display): the decimal numbers in it, in reading order, and where it first mentions columns / values
RECURSIVE NumsFrom(_, _, _), FirstAt(_, _, _)
NumsFrom(m, i, cur) ==
  IF i > Len(m) THEN (IF cur = "" THEN <<>> ELSE <<cur>>)
  ELSE IF Ch(m, i) \in Digits THEN NumsFrom(m, i + 1, cur \o Ch(m, i))
  ELSE (IF cur = "" THEN <<>> ELSE <<cur>>) \o NumsFrom(m, i + 1, "")
FirstAt(m, sub, i) == IF i + Len(sub) - 1 > Len(m) THEN 0 ELSE IF SubSeq(m, i, i + Len(sub) - 1) = sub THEN i ELSE FirstAt(m, sub, i + 1)
\* a message that names columns and values and gives two numbers must give them in the order it names them
MessageMisreports(msg, cl, vl) ==
  LET ns == NumsFrom(msg, 1, "")
      pc == FirstAt(msg, "olumn", 1)
      pv == FirstAt(msg, "alue", 1)
  IN Len(ns) = 2 /\ pc # 0 /\ pv # 0 /\ cl # vl /\
     ns # (IF pc < pv THEN <<NatToStr(cl), NatToStr(vl)>> ELSE <<NatToStr(vl), NatToStr(cl)>>)

ResKeys(a, c, s) ==
  LET d == Demand(a, c) IN
  CASE d.k = "ok" -> IF ~IsPanic(s.res) /\ "ok" \in DOMAIN s.res.r /\ s.res.r.ok THEN {} ELSE {"C10/result/accepting_call_not_ok"}
    [] d.k = "err" ->
         IF IsPanic(s.res) \/ "ok" \notin DOMAIN s.res.r \/ s.res.r.ok THEN {"C10/result/mismatch_accepted"}
         ELSE (IF s.res.r.col_len = d.col_len /\ s.res.r.val_len = d.val_len THEN {} ELSE {"C10/result/error_counts_wrong"})
              \cup (IF s.unchanged THEN {} ELSE {"C10/result/rejected_call_left_a_trace"})
              \cup (IF "msg" \in DOMAIN s.res.r /\ MessageMisreports(s.res.r.msg, d.col_len, d.val_len) THEN {"C10/result/error_message_gives_the_counts_in_the_other_order"} ELSE {})
    [] d.k = "panic" -> IF IsPanic(s.res) THEN {} ELSE {"C10/result/mismatch_accepted_by_panic_variant"}
    [] OTHER -> IF IsPanic(s.res) THEN {"C10/result/unexpected_panic"} ELSE {}

RECURSIVE StepKeysFrom(_, _, _)
StepKeysFrom(r, i, a) ==
  IF i > Len(r.steps) THEN {}
  ELSE LET c == r.calls[i]
           s == r.steps[i]
           a2 == AbsCall(a, c)
       IN ResKeys(a, c, s)
          \cup UNION { IF IsPanic(s.obs[B]) THEN {"C10/" \o B \o "/render_panic"}
                       ELSE {"C10/" \o B \o "/" \o x : x \in RenderReasons(B, a2, s.obs[B].r)} : B \in Backends }
          \cup StepKeysFrom(r, i + 1, a2)

RECURSIVE ModelAfter(_, _)
ModelAfter(calls, n) == IF n = 0 THEN InitStmt ELSE Call(ModelAfter(calls, n - 1), calls[n]).st
Exact(r) == \A i \in DOMAIN r.steps : \A B \in Backends :
              IsPanic(r.steps[i].obs[B]) \/ r.steps[i].obs[B].r = RenderInsert(B, ModelAfter(r.calls, i))

Verdict(r) ==
  [id |-> r.id, keys |-> StepKeysFrom(r, 1, AbsInit), exact |-> Exact(r),
   nt |-> \E i \in DOMAIN r.calls : r.calls[i].op \in {"values", "values_panic", "values_from_panic", "select_from"}]
Step == /\ l <= Len(Rec)
        /\ PrintT(<<"R", ToJson(Verdict(Rec[l]))>>)
        /\ l' = l + 1
Spec == Init /\ [][Step]_l
AllConsumed == TLCGet("stats").diameter = Len(Rec) + 1
=============================================================================
