----------------------------- MODULE Tokenizer -----------------------------
(***************************************************************************)
(* src/token.rs.  Implementation-level model (the four sub-scanners in the *)
(* order Tokenizer::next tries them) and, separately, the property-level   *)
(* definition TokenizerAbs (C16).  A text is a string s together with a    *)
(* flag string al of the same length: al[i] = "1" iff the character is     *)
(* alphanumeric in the sense of char::is_alphabetic || is_ascii_digit.     *)
(***************************************************************************)
EXTENDS Chars

IsSpaceT(c)  == c \in {" ", "\t", "\r", "\n"}
IsIdentT(c)  == c \in {"_", "$"}
IsDelimStart(c) == c \in {"`", "[", "'", "\""}
IsEscapeFor(start, c) == start \in {"`", "'", "\""} /\ c = start
IsDelimEndFor(start, c) ==
  CASE start = "`" -> c = "`" [] start = "[" -> c = "]" [] start = "'" -> c = "'"
    [] start = "\"" -> c = "\"" [] OTHER -> FALSE
IsAlnumAt(al, i) == Ch(al, i) = "1"

(******************************  implementation  ***************************)
RECURSIVE ScanSpace(_, _)
ScanSpace(s, i) == IF i <= Len(s) /\ IsSpaceT(Ch(s, i)) THEN ScanSpace(s, i + 1) ELSE i

RECURSIVE ScanUnquoted(_, _, _, _)
ScanUnquoted(s, al, i, first) ==
  IF i > Len(s) THEN i
  ELSE IF IsAlnumAt(al, i) THEN ScanUnquoted(s, al, i + 1, FALSE)
  ELSE IF ~first /\ IsIdentT(Ch(s, i)) THEN ScanUnquoted(s, al, i + 1, first)
  ELSE i

RECURSIVE ScanQuoted(_, _, _, _, _)
ScanQuoted(s, i, first, esc, start) ==
  IF i > Len(s) THEN i
  ELSE LET c == Ch(s, i) IN
    IF first /\ IsDelimStart(c) THEN ScanQuoted(s, i + 1, FALSE, esc, c)
    ELSE IF ~first /\ ~esc /\ IsDelimEndFor(start, c) THEN
           IF i + 1 > Len(s) THEN i + 1
           ELSE IF ~IsEscapeFor(start, Ch(s, i + 1)) THEN i + 1
           ELSE ScanQuoted(s, i + 2, FALSE, esc, start)
    ELSE IF ~first THEN ScanQuoted(s, i + 1, FALSE, ~esc /\ c = BSL, start)
    ELSE i

\* one char = one or two UTF-16 units; al marks the second unit of a
\* non-alphanumeric char with "x"
ScanPunct(s, al, i) ==
  IF i <= Len(s) /\ ~IsSpaceT(Ch(s, i)) /\ ~IsAlnumAt(al, i)
  THEN (IF i + 1 <= Len(s) /\ Ch(al, i + 1) = "x" THEN i + 2 ELSE i + 1) ELSE i

\* one call of Tokenizer::next at position p: [k, e] (kind, index after the
\* token); k = "None" when the iterator ends
NextTok(s, al, p) ==
  LET e1 == ScanSpace(s, p) IN
  IF e1 > p THEN [k |-> "Space", e |-> e1] ELSE
  LET e2 == ScanUnquoted(s, al, p, TRUE) IN
  IF e2 > p THEN [k |-> "Unquoted", e |-> e2] ELSE
  LET e3 == ScanQuoted(s, p, TRUE, FALSE, " ") IN
  IF e3 > p THEN [k |-> "Quoted", e |-> e3] ELSE
  LET e4 == ScanPunct(s, al, p) IN
  IF e4 > p THEN [k |-> "Punctuation", e |-> e4] ELSE [k |-> "None", e |-> p]

RECURSIVE TokenizeFrom(_, _, _)
TokenizeFrom(s, al, p) ==
  LET n == NextTok(s, al, p) IN
  IF n.k = "None" THEN <<>>
  ELSE <<[k |-> n.k, t |-> SubSeq(s, p, n.e - 1)]>> \o TokenizeFrom(s, al, n.e)
Tokenize(s, al) == TokenizeFrom(s, al, 1)

\* Token::unquote on the text of a quoted token
RECURSIVE UnquoteFrom(_, _, _, _, _)
UnquoteFrom(s, i, first, esc, start) ==
  IF i > Len(s) THEN ""
  ELSE LET c == Ch(s, i) IN
    IF first /\ IsDelimStart(c) THEN UnquoteFrom(s, i + 1, FALSE, esc, c)
    ELSE IF ~first /\ ~esc /\ IsDelimEndFor(start, c) THEN
           IF i + 1 > Len(s) THEN ""
           ELSE IF ~IsEscapeFor(start, Ch(s, i + 1)) THEN ""
           ELSE c \o UnquoteFrom(s, i + 2, FALSE, esc, start)
    ELSE IF ~first THEN c \o UnquoteFrom(s, i + 1, FALSE, ~esc /\ c = BSL, start)
    ELSE ""
Unquote(s) == UnquoteFrom(s, 1, TRUE, FALSE, " ")

(****************************  property level  *****************************)
(* The property's own definition of a quoted span: from an opening         *)
(* delimiter to the first matching closing delimiter that is neither       *)
(* doubled nor preceded by an (unescaped) backslash; to the end of input   *)
(* when there is none.  Written as "skip two" rules, not as a flag         *)
(* automaton, so that the scanner is compared with a definition and not    *)
(* with itself.                                                            *)
RECURSIVE SpanEndFrom(_, _, _)
SpanEndFrom(s, j, open) ==
  IF j > Len(s) THEN Len(s) + 1
  ELSE LET c == Ch(s, j) IN
    IF c = BSL THEN (IF j + 1 > Len(s) THEN Len(s) + 1 ELSE SpanEndFrom(s, j + 2, open))
    ELSE IF IsDelimEndFor(open, c) THEN
           IF open # "[" /\ j + 1 <= Len(s) /\ Ch(s, j + 1) = c THEN SpanEndFrom(s, j + 2, open)
           ELSE j + 1
    ELSE SpanEndFrom(s, j + 1, open)
QuotedSpanEnd(s, i) == SpanEndFrom(s, i + 1, Ch(s, i))

RECURSIVE ConcatToks(_)
ConcatToks(toks) == IF toks = <<>> THEN "" ELSE toks[1].t \o ConcatToks(Tail(toks))

\* start position of token i (1-based) given the token texts
RECURSIVE StartOf(_, _)
StartOf(toks, i) == IF i = 1 THEN 1 ELSE StartOf(toks, i - 1) + Len(toks[i - 1].t)

\* Reason keys: empty set iff the token list satisfies C16's safety part for s
AbsReasons(s, toks) ==
  LET ne == \A i \in DOMAIN toks : toks[i].t # ""
      ll == ConcatToks(toks) = s
  IN  (IF ne THEN {} ELSE {"C16/empty_token"})
      \cup (IF ll THEN {} ELSE {"C16/not_lossless"})
      \cup (IF ne /\ ll /\ \E i \in DOMAIN toks :
                 LET st == StartOf(toks, i) IN
                 /\ IsDelimStart(Ch(s, st))
                 /\ ~(toks[i].k = "Quoted" /\ st + Len(toks[i].t) = QuotedSpanEnd(s, st))
            THEN {"C16/quoted_span_split"} ELSE {})
      \cup (IF ne /\ ll /\ \E i \in DOMAIN toks :
                 toks[i].k = "Quoted" /\ ~IsDelimStart(Ch(s, StartOf(toks, i)))
            THEN {"C16/quoted_without_delimiter"} ELSE {})
      \cup (IF Len(toks) > Len(s) THEN {"C16/more_tokens_than_chars"} ELSE {})

HasQuoteOrMark(s) == \E i \in 1..Len(s) : IsDelimStart(Ch(s, i)) \/ Ch(s, i) \in {"?", "$", BSL}
=============================================================================
