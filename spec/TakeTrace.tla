------------------------------ MODULE TakeTrace ------------------------------
(* Trace validation for C15: recorded two-register histories of the real    *)
(* SelectStatement (==, renderings) against the value semantics of Take.tla *)
EXTENDS Take, IOUtils, TLCExt
Rec == ndJsonDeserialize(IOEnv.TRACE)
Backends == {"mysql", "pg", "sqlite"}
VARIABLE l
Init == l = 1
IsPanic(o) == "panic" \in DOMAIN o
SameRender(a, b) == \A B \in Backends : (IsPanic(a[B]) /\ IsPanic(b[B])) \/ (~IsPanic(a[B]) /\ ~IsPanic(b[B]) /\ a[B].r = b[B].r)
SameTokens(a, b) == \A B \in Backends : (IsPanic(a[B]) /\ IsPanic(b[B])) \/
   (~IsPanic(a[B]) /\ ~IsPanic(b[B]) /\ [i \in DOMAIN Lex(B, a[B].r) |-> Lex(B, a[B].r)[i].t] = [i \in DOMAIN Lex(B, b[B].r) |-> Lex(B, b[B].r)[i].t])

StepKeys(r, i) ==
  LET s == r.steps[i]
      c == r.calls[i]
      prev1 == IF i = 1 THEN s.r1 ELSE r.steps[i - 1].r1
      prev2 == IF i = 1 THEN s.r2 ELSE r.steps[i - 1].r2
      on2 == "reg" \in DOMAIN c /\ c.reg = 2
  IN CASE c.op = "take" ->
            (IF s.taken_eq_pre THEN {} ELSE {"C15/take/taken_not_equal_to_statement_before"})
            \cup (IF s.left_eq_new THEN {} ELSE {"C15/take/left_behind_not_new"})
            \cup (IF SameRender(s.render_taken, s.render_pre) THEN {} ELSE {"C15/take/taken_renders_differently"})
            \cup (IF SameRender(s.r2, s.render_pre) THEN {} ELSE {"C15/take/taken_renders_differently"})
       [] c.op = "clone" ->
            (IF s.clone_eq /\ s.eq12 THEN {} ELSE {"C15/clone/not_equal_to_source"})
            \cup (IF SameRender(s.r1, s.r2) THEN {} ELSE {"C15/clone/renders_differently"})
            \cup (IF i = 1 \/ SameRender(s.r1, prev1) THEN {} ELSE {"C15/clone/source_changed"})
       [] OTHER ->
            (IF s.other_unchanged THEN {} ELSE {"C15/interference/other_statement_value_changed"})
            \cup (IF i = 1 \/ (IF on2 THEN SameRender(s.r1, prev1) ELSE SameRender(s.r2, prev2)) THEN {} ELSE {"C15/interference/other_statement_rendering_changed"})
            \cup (IF c.op \in ClearOps /\ "ref" \in DOMAIN s THEN
                    (IF SameTokens(s.r1, s.ref) THEN {} ELSE {"C15/" \o c.op \o "/not_exactly_that_clause_removed"})
                    \cup (IF s.ref_eq THEN {} ELSE {"C15/" \o c.op \o "/not_equal_to_statement_built_without_the_clause"})
                  ELSE {})

\* model-side validation of the reference histories supplied with the case, and exactness
RefsValid(r) == \A k \in DOMAIN r.refs : ApplyAll(NewOf(r.kind), r.refs[k].calls, 1) = RegsAfterK(r.kind, r.calls, r.refs[k].step).m1
Exact(r) == \A i \in DOMAIN r.steps : \A B \in Backends :
   LET R == RegsAfterK(r.kind, r.calls, i) IN
   (IsPanic(r.steps[i].r1[B]) \/ r.steps[i].r1[B].r = RStmt(B, NoOpt, R.m1)) /\ (IsPanic(r.steps[i].r2[B]) \/ r.steps[i].r2[B].r = RStmt(B, NoOpt, R.m2))

Verdict(r) ==
  IF "panic" \in DOMAIN r THEN [id |-> r.id, keys |-> {"C15/harness/panic"}, exact |-> TRUE, nt |-> FALSE, refs_valid |-> TRUE]
  ELSE [id |-> r.id, keys |-> UNION {StepKeys(r, i) : i \in DOMAIN r.steps}, exact |-> Exact(r), refs_valid |-> RefsValid(r),
        nt |-> \E i \in DOMAIN r.calls : r.calls[i].op \in {"take", "clone"} \cup ClearOps]
Step == /\ l <= Len(Rec)
        /\ PrintT(<<"R", ToJson(Verdict(Rec[l]))>>)
        /\ l' = l + 1
Spec == Init /\ [][Step]_l
AllConsumed == TLCGet("stats").diameter = Len(Rec) + 1
=============================================================================
