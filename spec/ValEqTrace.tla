----------------------------- MODULE ValEqTrace -----------------------------
(* Trace validation for C18: recorded ==, hash agreement and HashSet        *)
(* membership of the real Value type, row by row, against ValueEq; the last *)
(* record carries the whole matrix for symmetry / transitivity.             *)
EXTENDS ValueEq, Json, IOUtils, TLCExt
Rec == ndJsonDeserialize(IOEnv.TRACE)
VARIABLE l
Init == l = 1
\* the five value-tuple forms were observed for partner j (keeps the validator total on incomplete records)
VtxShape(r, j) == j \in DOMAIN r.vtx_eq /\ j \in DOMAIN r.vtx_hash /\ j \in DOMAIN r.vtx_set
                  /\ Len(r.vtx_eq[j]) = 5 /\ Len(r.vtx_hash[j]) = 5 /\ Len(r.vtx_set[j]) = 5
RowKeys(r) ==
  LET names == r.names
      n == r.name
  IN UNION { (IF r.eq[j] = Eq(n, names[j]) \/ Soft(n, names[j]) THEN {}
              ELSE IF r.eq[j] THEN {"C18/unequal_payloads_compare_equal:" \o VariantOfName(n)} ELSE {"C18/equal_payloads_compare_unequal:" \o VariantOfName(n)})
             \cup (IF r.eq[j] = r.eq_rev[j] THEN {} ELSE {"C18/not_symmetric:" \o VariantOfName(n)})
             \cup (IF r.eq[j] /\ ~r.hash_eq[j] THEN {"C18/equal_values_hash_differently:" \o VariantOfName(n)} ELSE {})
             \cup (IF r.eq[j] /\ r.variants[r.i + 1] # r.variants[j] THEN {"C18/different_variants_equal"} ELSE {})
             \cup (IF r.in_set[j] = r.eq[j] THEN {} ELSE {"C18/hashset_membership_disagrees:" \o VariantOfName(n)})
             \cup (IF r.vt_eq[j] = r.eq[j] THEN {} ELSE {"C18/value_tuple_equality_disagrees:" \o VariantOfName(n)})
             \* value tuples (same content as One/Two/Three and as Many): whatever == says, hashing and set membership agree with it;
             \* tuples of the same representation are equal exactly when the values are
             \cup (IF ~VtxShape(r, j) THEN {"C18/value_tuple_observation_incomplete"}
                   ELSE (IF \A f \in 1..5 : r.vtx_eq[j][f] => r.vtx_hash[j][f] THEN {} ELSE {"C18/equal_value_tuples_hash_differently:" \o VariantOfName(n)})
                        \cup (IF \A f \in 1..5 : r.vtx_set[j][f] = r.vtx_eq[j][f] THEN {} ELSE {"C18/value_tuple_hashset_membership_disagrees:" \o VariantOfName(n)})
                        \cup (IF r.vtx_eq[j][1] = r.eq[j] /\ r.vtx_eq[j][5] = r.eq[j] THEN {} ELSE {"C18/value_tuple_equality_disagrees:" \o VariantOfName(n)}))
             : j \in DOMAIN names }
     \cup (IF r.eq[r.i + 1] /\ r.clone_eq THEN {} ELSE {"C18/not_reflexive:" \o VariantOfName(n)})
MatrixKeys(r) ==
  LET m == r.m  n == Len(m) IN
  (IF \A i \in 1..n : \A j \in 1..n : m[i][j] = m[j][i] THEN {} ELSE {"C18/not_symmetric"})
  \cup (IF \A i \in 1..n : \A j \in 1..n : m[i][j] => \A k \in 1..n : m[j][k] => m[i][k] THEN {} ELSE {"C18/not_transitive"})
Verdict(r) == [id |-> r.id, keys |-> IF r.kind = "row" THEN RowKeys(r) ELSE MatrixKeys(r),
               exact |-> r.kind # "row" \/ \A j \in DOMAIN r.names : r.eq[j] = Eq(r.name, r.names[j]),
               nt |-> r.kind = "matrix" \/ \E j \in DOMAIN r.eq : r.eq[j] /\ j # r.i + 1]
Step == /\ l <= Len(Rec)
        /\ PrintT(<<"R", ToJson(Verdict(Rec[l]))>>)
        /\ l' = l + 1
Spec == Init /\ [][Step]_l
AllConsumed == TLCGet("stats").diameter = Len(Rec) + 1
=============================================================================
