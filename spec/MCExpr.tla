------------------------------- MODULE MCExpr -------------------------------
(***************************************************************************)
(* Design check for C05: for every enumerated expression tree, the         *)
(* implementation-level rendering (Expr!RenderExpr, with and without       *)
(* option-more-parentheses) re-parses under each engine's precedence       *)
(* table to the tree that was built (ExprLaw!Canon).  One initial state    *)
(* per tree.  Shapes: "one" (single operator), "two" (outer x inner x      *)
(* operand position over ALL constructors), "three" (three operators over  *)
(* a representative constructor set, every shape).                         *)
(***************************************************************************)
EXTENDS Expr, FiniteSets
CONSTANT Depth            \* 2: one + two ; 3: + three

BaseOps == {"And", "Or", "Equal", "NotEqual", "SmallerThan", "GreaterThan", "SmallerThanOrEqual",
            "GreaterThanOrEqual", "Add", "Sub", "Mul", "Div", "Mod", "BitAnd", "BitOr", "LShift", "RShift", "Is", "IsNot"}
PgOps == {"PgILike", "PgNotILike", "PgMatches", "PgContains", "PgContained", "PgConcatenate", "PgOverlap",
          "PgSimilarity", "PgWordSimilarity", "PgStrictWordSimilarity", "PgSimilarityDistance",
          "PgWordSimilarityDistance", "PgStrictWordSimilarityDistance", "PgGetJsonField", "PgCastJsonField",
          "PgRegex", "PgRegexCaseInsensitive"}
LiteOps == {"SqliteGlob", "SqliteMatch", "SqliteGetJsonField", "SqliteCastJsonField"}
\* BinOper::Custom with operators whose engine precedence is known (EnginePrec): concat / OR, power / xor, logical xor, null-safe equal
CustomOps == {"Custom:||", "Custom:^", "Custom:XOR", "Custom:<=>"}

BinC(op) == [c |-> "bin", op |-> op, neg |-> FALSE, esc |-> FALSE, ci |-> FALSE]
OtherC(c, neg, esc, ci) == [c |-> c, op |-> "", neg |-> neg, esc |-> esc, ci |-> ci]
Ctors ==
  {BinC(op) : op \in BaseOps \cup PgOps \cup LiteOps \cup CustomOps}
  \cup {OtherC("not", FALSE, FALSE, FALSE), OtherC("cast", FALSE, FALSE, FALSE), OtherC("fn", FALSE, FALSE, FALSE), OtherC("asenum", FALSE, FALSE, FALSE)}
  \cup {OtherC("fn1", FALSE, FALSE, FALSE), OtherC("fn1", TRUE, FALSE, FALSE)}        \* one-argument GREATEST / LEAST (MAX / MIN on SQLite)
  \cup {OtherC("between", n, FALSE, FALSE) : n \in BOOLEAN}
  \cup {OtherC("in", n, FALSE, FALSE) : n \in BOOLEAN}
  \cup {OtherC("isnull", n, FALSE, FALSE) : n \in BOOLEAN}
  \cup {OtherC("like", n, e, ci) : n \in BOOLEAN, e \in BOOLEAN, ci \in BOOLEAN}
\* representative set for three-operator trees: one per precedence class
RepCtors ==
  {BinC(op) : op \in {"And", "Or", "Equal", "Add", "Mul", "Div", "BitOr", "LShift", "Is", "PgConcatenate", "PgContains", "SqliteGlob", "Custom:||", "Custom:XOR"}}
  \cup {OtherC("not", FALSE, FALSE, FALSE), OtherC("between", FALSE, FALSE, FALSE), OtherC("like", FALSE, TRUE, FALSE),
        OtherC("in", TRUE, FALSE, FALSE), OtherC("cast", FALSE, FALSE, FALSE), OtherC("asenum", FALSE, FALSE, FALSE), OtherC("fn1", FALSE, FALSE, FALSE)}

Arity(c) == CASE c.c = "bin" -> 2 [] c.c = "between" -> 3 [] c.c = "in" -> 2 [] OTHER -> 1
Col(n) == [k |-> "col", n |-> n]
IntV(n) == [k |-> "val", v |-> [t |-> "Int", v |-> n]]
Build(c, xs) ==
  CASE c.c = "bin" -> [k |-> "bin", op |-> c.op, l |-> xs[1], r |-> xs[2]]
    [] c.c = "not" -> [k |-> "not", e |-> xs[1]]
    [] c.c = "between" -> [k |-> "between", neg |-> c.neg, e |-> xs[1], a |-> xs[2], b |-> xs[3]]
    [] c.c = "like" -> IF c.esc THEN [k |-> "like", neg |-> c.neg, ci |-> c.ci, e |-> xs[1], p |-> "x%", esc |-> "|"]
                       ELSE [k |-> "like", neg |-> c.neg, ci |-> c.ci, e |-> xs[1], p |-> "x%"]
    [] c.c = "in" -> [k |-> "in", neg |-> c.neg, e |-> xs[1], vs |-> <<xs[2], IntV("7")>>]
    [] c.c = "isnull" -> [k |-> "isnull", neg |-> c.neg, e |-> xs[1]]
    [] c.c = "cast" -> [k |-> "cast", e |-> xs[1], ty |-> "integer"]
    [] c.c = "asenum" -> [k |-> "asenum", e |-> xs[1], ty |-> "mood"]
    [] c.c = "fn" -> [k |-> "fn", f |-> "Max", args |-> <<xs[1]>>]
    [] c.c = "fn1" -> [k |-> "fn", f |-> IF c.neg THEN "Least" ELSE "Greatest", args |-> <<xs[1]>>]

L1 == <<Col("a"), Col("b"), IntV("3")>>
L2 == <<Col("d"), IntV("5"), Col("f")>>
L3 == <<Col("g"), Col("h"), IntV("9")>>
Sub3(xs, p, y) == [i \in 1..3 |-> IF i = p THEN y ELSE xs[i]]

One == {Build(c, L1) : c \in Ctors}
Two == {Build(c, Sub3(L1, p, Build(d, L2))) : <<c, p, d>> \in {x \in Ctors \X (1..3) \X Ctors : x[2] <= Arity(x[1])}}
\* chain: c(.. d(.. e ..) ..)   and fork: c(d, e) on two different operands
ThreeChain == {Build(c, Sub3(L1, p, Build(d, Sub3(L2, q, Build(e, L3))))) :
                 <<c, p, d, q, e>> \in {x \in RepCtors \X (1..3) \X RepCtors \X (1..3) \X RepCtors :
                                          x[2] <= Arity(x[1]) /\ x[4] <= Arity(x[3])}}
ThreeFork == {Build(c, Sub3(Sub3(L1, 1, Build(d, L2)), 2, Build(e, L3))) :
                 <<c, d, e>> \in {x \in RepCtors \X RepCtors \X RepCtors : Arity(x[1]) >= 2}}
\* an enum cast between two operators: transparent on MySQL / SQLite (the operand is written as it is), a CAST on PostgreSQL
WrapE(x) == [k |-> "asenum", e |-> x, ty |-> "mood"]
TwoEnum == {Build(c, Sub3(L1, p, WrapE(Build(d, L2)))) : <<c, p, d>> \in {x \in RepCtors \X (1..3) \X RepCtors : x[2] <= Arity(x[1])}}
Trees == One \cup Two \cup TwoEnum \cup (IF Depth >= 3 THEN ThreeChain \cup ThreeFork ELSE {})

VARIABLE e
Init == e \in Trees
Next == UNCHANGED e
Spec == Init /\ [][Next]_e
Backends == {"mysql", "pg", "sqlite"}

Viol == {<<B, MP>> \in Backends \X BOOLEAN :
           Supported(B, e) /\ ExprReasons(B, e, "SELECT " \o RenderExpr(B, MP, e)) # {}}
\* model-level counterexamples are printed, not raised: they become findings
\* only when the replay reproduces them on the real code
Check == Viol = {} \/ PrintT(<<"MV", ToJson([e |-> e, where |-> Viol])>>)
Emit == PrintT(<<"CASE", ToJson(e)>>)
=============================================================================
