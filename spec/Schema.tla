-------------------------------- MODULE Schema --------------------------------
(***************************************************************************)
(* Implementation-level model of the schema statement renderers            *)
(* (src/backend/table_builder.rs, index_builder.rs, foreign_key_builder.rs *)
(* and the MySQL / PostgreSQL / SQLite overrides in src/backend/*/table.rs,*)
(* index.rs, foreign_key.rs, postgres/types.rs, postgres/extension.rs):    *)
(* RenderDDL(B, d) is the text the crate writes for declaration d on       *)
(* backend B, or Unsup when the crate panics / the statement does not      *)
(* exist for B.  Declarations are the records of lib/schemagen.py.         *)
(* Used (1) by MCSchema: the rendered text of every declaration in the     *)
(* space must satisfy SchemaLaw!DdlReasons (a design check that needs no   *)
(* implementation), (2) by SchemaTrace: impl_model_exact.                  *)
(***************************************************************************)
EXTENDS Stmt

Unsup == "<unsupported>"
Has2(r, f) == f \in DOMAIN r
Flag(r, f) == f \in DOMAIN r /\ r[f]
N(n) == NatToStr(n)

(*****************************  column types  ******************************)
MyType(t) ==
  CASE t.k = "Char" -> IF Has2(t, "n") THEN "char(" \o N(t.n) \o ")" ELSE "char"
    [] t.k = "String" -> IF Has2(t, "n") THEN "varchar(" \o N(t.n) \o ")" ELSE IF Flag(t, "max") THEN "varchar(65535)" ELSE "varchar(255)"
    [] t.k = "Text" -> "text"
    [] t.k \in {"TinyInteger", "TinyUnsigned"} -> "tinyint" [] t.k \in {"SmallInteger", "SmallUnsigned"} -> "smallint"
    [] t.k \in {"Integer", "Unsigned"} -> "int" [] t.k \in {"BigInteger", "BigUnsigned"} -> "bigint"
    [] t.k = "Float" -> "float" [] t.k = "Double" -> "double"
    [] t.k \in {"Decimal", "Money"} -> IF Has2(t, "p") THEN "decimal(" \o N(t.p) \o ", " \o N(t.s) \o ")" ELSE "decimal"
    [] t.k = "DateTime" -> "datetime" [] t.k \in {"Timestamp", "TimestampWithTimeZone"} -> "timestamp"
    [] t.k = "Time" -> "time" [] t.k = "Date" -> "date" [] t.k = "Year" -> "year"
    [] t.k = "Binary" -> "binary(" \o N(t.n) \o ")"
    [] t.k = "VarBinary" -> IF Has2(t, "n") THEN "varbinary(" \o N(t.n) \o ")" ELSE "varbinary(255)"
    [] t.k = "Blob" -> "blob"
    [] t.k = "Bit" -> IF Has2(t, "n") THEN "bit(" \o N(t.n) \o ")" ELSE "bit"
    [] t.k = "VarBit" -> "bit(" \o N(t.n) \o ")"
    [] t.k = "Boolean" -> "bool" [] t.k \in {"Json", "JsonBinary"} -> "json" [] t.k = "Uuid" -> "binary(16)"
    [] t.k = "Enum" -> "ENUM('" \o JoinStrs([i \in DOMAIN t.variants |-> EscapeB("mysql", t.variants[i])], "', '") \o "')"
    [] t.k = "Custom" -> t.name [] t.k = "Interval" -> "unsupported"
    [] OTHER -> Unsup
MyTypeFull(t) == IF MyType(t) = Unsup THEN Unsup
                 ELSE MyType(t) \o (IF t.k \in {"TinyUnsigned", "SmallUnsigned", "Unsigned", "BigUnsigned"} THEN " UNSIGNED" ELSE "")

RECURSIVE PgType(_)
PgType(t) ==
  CASE t.k = "Char" -> IF Has2(t, "n") THEN "char(" \o N(t.n) \o ")" ELSE "char"
    [] t.k = "String" -> IF Has2(t, "n") THEN "varchar(" \o N(t.n) \o ")" ELSE "varchar"
    [] t.k = "Text" -> "text"
    [] t.k \in {"TinyInteger", "TinyUnsigned", "SmallInteger", "SmallUnsigned"} -> "smallint"
    [] t.k \in {"Integer", "Unsigned"} -> "integer" [] t.k \in {"BigInteger", "BigUnsigned"} -> "bigint"
    [] t.k = "Float" -> "real" [] t.k = "Double" -> "double precision"
    [] t.k = "Decimal" -> IF Has2(t, "p") THEN "decimal(" \o N(t.p) \o ", " \o N(t.s) \o ")" ELSE "decimal"
    [] t.k = "DateTime" -> "timestamp without time zone" [] t.k = "Timestamp" -> "timestamp"
    [] t.k = "TimestampWithTimeZone" -> "timestamp with time zone" [] t.k = "Time" -> "time" [] t.k = "Date" -> "date"
    [] t.k \in {"Binary", "VarBinary", "Blob"} -> "bytea"
    [] t.k = "Bit" -> IF Has2(t, "n") THEN "bit(" \o N(t.n) \o ")" ELSE "bit"
    [] t.k = "VarBit" -> "varbit(" \o N(t.n) \o ")"
    [] t.k = "Boolean" -> "bool"
    [] t.k = "Money" -> IF Has2(t, "p") THEN "money(" \o N(t.p) \o ", " \o N(t.s) \o ")" ELSE "money"
    [] t.k = "Json" -> "json" [] t.k = "JsonBinary" -> "jsonb" [] t.k = "Uuid" -> "uuid"
    [] t.k = "Enum" -> t.name
    [] t.k = "Cidr" -> "cidr" [] t.k = "Inet" -> "inet" [] t.k = "MacAddr" -> "macaddr" [] t.k = "LTree" -> "ltree"
    [] t.k = "Custom" -> t.name
    [] t.k = "Array" -> IF PgType(t.elem) = Unsup THEN Unsup ELSE PgType(t.elem) \o "[]"
    [] t.k = "Interval" -> "interval" \o (IF Has2(t, "n") THEN "(" \o N(t.n) \o ")" ELSE "")
    [] t.k = "Vector" -> IF Has2(t, "n") THEN "vector(" \o N(t.n) \o ")" ELSE "vector"
    [] OTHER -> Unsup
PgSerial(t) == CASE t.k = "SmallInteger" -> "smallserial" [] t.k = "Integer" -> "serial" [] t.k = "BigInteger" -> "bigserial" [] OTHER -> Unsup

LiteType(t, autoinc) ==
  CASE t.k = "Char" -> IF Has2(t, "n") THEN "char(" \o N(t.n) \o ")" ELSE "char"
    [] t.k = "String" -> IF Has2(t, "n") THEN "varchar(" \o N(t.n) \o ")" ELSE "varchar"
    [] t.k = "Text" -> "text"
    [] t.k \in {"TinyInteger", "TinyUnsigned"} -> "tinyint" [] t.k \in {"SmallInteger", "SmallUnsigned"} -> "smallint"
    [] t.k \in {"Integer", "Unsigned"} -> "integer"
    [] t.k \in {"BigInteger", "BigUnsigned"} -> IF autoinc THEN "integer" ELSE "bigint"
    [] t.k = "Float" -> "float" [] t.k = "Double" -> "double"
    [] t.k = "Decimal" -> IF Has2(t, "p") THEN (IF t.p > 16 THEN Unsup ELSE "real(" \o N(t.p) \o ", " \o N(t.s) \o ")") ELSE "real"
    [] t.k = "DateTime" -> "datetime_text" [] t.k = "Timestamp" -> "timestamp_text"
    [] t.k = "TimestampWithTimeZone" -> "timestamp_with_timezone_text" [] t.k = "Time" -> "time_text" [] t.k = "Date" -> "date_text"
    [] t.k = "Binary" -> "blob(" \o N(t.n) \o ")"
    [] t.k = "VarBinary" -> IF Has2(t, "n") THEN "varbinary_blob(" \o N(t.n) \o ")" ELSE "varbinary_blob"
    [] t.k = "Blob" -> "blob" [] t.k = "Boolean" -> "boolean"
    [] t.k = "Money" -> IF Has2(t, "p") THEN "real_money(" \o N(t.p) \o ", " \o N(t.s) \o ")" ELSE "real_money"
    [] t.k = "Json" -> "json_text" [] t.k = "JsonBinary" -> "jsonb_text" [] t.k = "Uuid" -> "uuid_text" [] t.k = "Enum" -> "enum_text"
    [] t.k = "Custom" -> t.name
    [] OTHER -> Unsup

(************************  column specifications  **************************)
HasSp(c, k) == \E i \in DOMAIN c.specs : c.specs[i].k = k
ValExpr(v) == [k |-> "val", v |-> v]
\* prepare_column_spec (table_builder.rs); Comment only on MySQL
SpecText(B, s) ==
  CASE s.k = "Null" -> "NULL" [] s.k = "NotNull" -> "NOT NULL"
    [] s.k = "Default" -> "DEFAULT " \o RExpr(B, NoOpt, ValExpr(s.v))
    [] s.k = "DefaultExpr" -> "DEFAULT " \o RExpr(B, NoOpt, s.e)
    [] s.k = "AutoIncrement" -> (CASE B = "mysql" -> "AUTO_INCREMENT" [] B = "sqlite" -> "AUTOINCREMENT" [] OTHER -> "")
    [] s.k = "Unique" -> "UNIQUE" [] s.k = "PrimaryKey" -> "PRIMARY KEY"
    [] s.k = "Check" -> "CHECK (" \o RExpr(B, NoOpt, s.e) \o ")"
    [] s.k = "Generated" -> "GENERATED ALWAYS AS (" \o RExpr(B, NoOpt, s.e) \o ")" \o (IF s.stored THEN " STORED" ELSE " VIRTUAL")
    [] s.k = "Comment" -> IF B = "mysql" THEN "COMMENT '" \o EscapeB("mysql", s.s) \o "'" ELSE ""
RECURSIVE SpecsText(_, _, _, _)
SpecsText(B, specs, i, skip) ==
  IF i > Len(specs) THEN ""
  ELSE (IF specs[i].k \in skip THEN "" ELSE " " \o SpecText(B, specs[i])) \o SpecsText(B, specs, i + 1, skip)

\* prepare_column_def of each backend (addcol: PostgreSQL ADD COLUMN goes the same way)
ColumnDef(B, c) ==
  LET ty == IF Has2(c, "type") THEN
              (CASE B = "mysql" -> MyTypeFull(c.type)
                 [] B = "pg" -> (IF HasSp(c, "AutoIncrement") THEN PgSerial(c.type) ELSE PgType(c.type))
                 [] OTHER -> LiteType(c.type, HasSp(c, "AutoIncrement")))
            ELSE ""
  IN IF ty = Unsup THEN Unsup
     ELSE Q(B, c.name) \o (IF Has2(c, "type") THEN " " \o ty ELSE "")
          \o (CASE B = "mysql" -> SpecsText(B, c.specs, 1, {})
                [] B = "pg" -> SpecsText(B, c.specs, 1, {"AutoIncrement", "Comment"})
                [] OTHER -> SpecsText(B, c.specs, 1, {"PrimaryKey", "AutoIncrement", "Comment"})
                            \o (IF HasSp(c, "PrimaryKey") THEN " PRIMARY KEY" ELSE "")
                            \o (IF HasSp(c, "AutoIncrement") THEN " AUTOINCREMENT" ELSE ""))

(***************************  indexes, keys  *******************************)
IdxColsText(B, cs) ==
  "(" \o Sep([i \in DOMAIN cs |-> Q(B, cs[i].n) \o (IF Has2(cs[i], "p") /\ B # "sqlite" THEN " (" \o N(cs[i].p) \o ")" ELSE "") \o (IF Has2(cs[i], "o") THEN (IF cs[i].o = "Asc" THEN " ASC" ELSE " DESC") ELSE "")]) \o ")"
IdxType(x) == IF Has2(x, "index_type") THEN x.index_type ELSE ""
MyUsing(x) == CASE IdxType(x) = "BTree" -> " USING BTREE" [] IdxType(x) = "Hash" -> " USING HASH" [] OTHER -> ""
PgUsing(x) == CASE IdxType(x) = "BTree" -> " USING BTREE" [] IdxType(x) = "Hash" -> " USING HASH" [] IdxType(x) = "FullText" -> " USING GIN" [] OTHER -> ""
PgInclude(B, x) == IF Has2(x, "include") /\ Len(x.include) > 0 THEN " INCLUDE (" \o Sep([i \in DOMAIN x.include |-> Q(B, x.include[i])]) \o ")" ELSE ""
IdxWhere(B, x) == IF Has2(x, "where") THEN " WHERE " \o RExpr(B, NoOpt, x.where) ELSE ""

\* prepare_table_index_expression (inside CREATE TABLE)
TableIndex(B, x) ==
  CASE B = "mysql" ->
         (IF Flag(x, "primary") THEN "PRIMARY " ELSE "") \o (IF Flag(x, "unique") THEN "UNIQUE " ELSE "") \o (IF IdxType(x) = "FullText" THEN "FULLTEXT " ELSE "")
         \o "KEY " \o (IF Has2(x, "name") THEN Q(B, x.name) \o " " ELSE "") \o MyUsing(x) \o (IF IdxType(x) = "FullText" THEN " " ELSE "") \o IdxColsText(B, x.cols)
    [] B = "pg" ->
         (IF Has2(x, "name") THEN "CONSTRAINT " \o Q(B, x.name) \o " " ELSE "")
         \o (IF Flag(x, "primary") THEN "PRIMARY KEY " ELSE "") \o (IF Flag(x, "unique") THEN "UNIQUE " ELSE "")
         \o (IF Flag(x, "nulls_not_distinct") THEN "NULLS NOT DISTINCT " ELSE "") \o IdxColsText(B, x.cols) \o PgInclude(B, x)
    [] OTHER ->
         (IF Has2(x, "name") THEN "CONSTRAINT " \o Q(B, x.name) \o " " ELSE "")
         \o (IF Flag(x, "primary") THEN "PRIMARY KEY " ELSE "") \o (IF Flag(x, "unique") THEN "UNIQUE " ELSE "") \o IdxColsText(B, x.cols) \o IdxWhere(B, x)

FkAction(a) == CASE a = "Restrict" -> "RESTRICT" [] a = "Cascade" -> "CASCADE" [] a = "SetNull" -> "SET NULL" [] a = "SetDefault" -> "SET DEFAULT" [] OTHER -> "NO ACTION"
FkBody(B, f) ==
  (IF B = "mysql" THEN "CONSTRAINT " \o (IF Has2(f, "name") THEN Q(B, f.name) ELSE "") \o " FOREIGN KEY ("
   ELSE (IF Has2(f, "name") /\ B = "pg" THEN "CONSTRAINT " \o Q(B, f.name) \o " " ELSE "") \o "FOREIGN KEY (")      \* SQLite writes no constraint name
  \o Sep([i \in DOMAIN f.from_cols |-> Q(B, f.from_cols[i])]) \o ") REFERENCES " \o Q(B, f.to_table) \o " ("
  \o Sep([i \in DOMAIN f.to_cols |-> Q(B, f.to_cols[i])]) \o ")"
  \o (IF Has2(f, "on_delete") THEN " ON DELETE " \o FkAction(f.on_delete) ELSE "")
  \o (IF Has2(f, "on_update") THEN " ON UPDATE " \o FkAction(f.on_update) ELSE "")

(*****************************  statements  ********************************)
CreateTable(B, d) ==
  LET cols == [i \in DOMAIN d.cols |-> ColumnDef(B, d.cols[i])]
      ix == IF Has2(d, "indexes") THEN [i \in DOMAIN d.indexes |-> TableIndex(B, d.indexes[i])] ELSE <<>>
      fk == IF Has2(d, "fks") THEN [i \in DOMAIN d.fks |-> FkBody(B, d.fks[i])] ELSE <<>>
      ck == IF Has2(d, "checks") THEN [i \in DOMAIN d.checks |-> "CHECK (" \o RExpr(B, NoOpt, d.checks[i]) \o ")"] ELSE <<>>
  IN IF \E i \in DOMAIN cols : cols[i] = Unsup THEN Unsup
     ELSE "CREATE " \o (IF Flag(d, "temporary") THEN "TEMPORARY " ELSE "") \o "TABLE " \o (IF Flag(d, "if_not_exists") THEN "IF NOT EXISTS " ELSE "")
          \o Q(B, d.table) \o " ( " \o Sep(cols \o ix \o fk \o ck) \o " )"
          \o (IF B = "mysql" /\ Has2(d, "comment") THEN " COMMENT '" \o EscapeB("mysql", d.comment) \o "'" ELSE "")
          \o (IF Has2(d, "engine") THEN " ENGINE=" \o d.engine ELSE "")
          \o (IF Has2(d, "collate") THEN " COLLATE=" \o d.collate ELSE "")
          \o (IF Has2(d, "character_set") THEN " DEFAULT CHARSET=" \o d.character_set ELSE "")

\* PostgreSQL MODIFY COLUMN: one ALTER COLUMN sub-clause per specification that has one
RECURSIVE PgModSpecs(_, _, _, _)
PgModSpecs(c, i, first, B) ==
  IF i > Len(c.specs) THEN ""
  ELSE LET s == c.specs[i]
           emits == s.k \notin {"AutoIncrement", "Generated", "Comment"}
           nm == Q(B, c.name)
           txt == CASE s.k = "Null" -> "ALTER COLUMN " \o nm \o " DROP NOT NULL"
                    [] s.k = "NotNull" -> "ALTER COLUMN " \o nm \o " SET NOT NULL"
                    [] s.k = "Default" -> "ALTER COLUMN " \o nm \o " SET DEFAULT " \o RExpr(B, NoOpt, ValExpr(s.v))
                    [] s.k = "Unique" -> "ADD UNIQUE (" \o nm \o ")"
                    [] s.k = "PrimaryKey" -> "ADD PRIMARY KEY (" \o nm \o ")"
                    [] s.k = "Check" -> "ADD CHECK (" \o RExpr(B, NoOpt, s.e) \o ")"
                    [] OTHER -> ""
       IN (IF ~first /\ emits THEN ", " ELSE "") \o txt \o PgModSpecs(c, i + 1, first /\ ~emits, B)

AlterOp(B, o) ==
  CASE o.k \in {"add_column", "add_column_if_not_exists"} ->
         IF ColumnDef(B, o.col) = Unsup THEN Unsup
         ELSE "ADD COLUMN " \o (IF o.k = "add_column_if_not_exists" /\ B # "sqlite" THEN "IF NOT EXISTS " ELSE "") \o ColumnDef(B, o.col)
    [] o.k = "modify_column" ->
         (CASE B = "mysql" -> IF ColumnDef(B, o.col) = Unsup THEN Unsup ELSE "MODIFY COLUMN " \o ColumnDef(B, o.col)
            [] B = "pg" -> IF Has2(o.col, "type") /\ PgType(o.col.type) = Unsup THEN Unsup
                           ELSE (IF Has2(o.col, "type") THEN "ALTER COLUMN " \o Q(B, o.col.name) \o " TYPE " \o PgType(o.col.type) ELSE "")
                                \o PgModSpecs(o.col, 1, ~Has2(o.col, "type"), B)
            [] OTHER -> Unsup)
    [] o.k = "rename_column" -> "RENAME COLUMN " \o Q(B, o.from) \o " TO " \o Q(B, o.to)
    [] o.k = "drop_column" -> "DROP COLUMN " \o Q(B, o.name)
    [] o.k = "add_fk" -> IF B = "sqlite" THEN Unsup ELSE "ADD " \o FkBody(B, o.fk)
    [] o.k = "drop_fk" -> CASE B = "mysql" -> "DROP FOREIGN KEY " \o Q(B, o.name) [] B = "pg" -> "DROP CONSTRAINT " \o Q(B, o.name) [] OTHER -> Unsup
AlterTable(B, d) ==
  LET ops == [i \in DOMAIN d.ops |-> AlterOp(B, d.ops[i])] IN
  IF Len(d.ops) = 0 \/ (B = "sqlite" /\ Len(d.ops) > 1) \/ \E i \in DOMAIN ops : ops[i] = Unsup THEN Unsup
  ELSE "ALTER TABLE " \o Q(B, d.table) \o " " \o Sep(ops)

CreateIndex(B, d) ==
  CASE B = "mysql" ->
         "CREATE " \o (IF Flag(d, "primary") THEN "PRIMARY " ELSE "") \o (IF Flag(d, "unique") THEN "UNIQUE " ELSE "") \o (IF IdxType(d) = "FullText" THEN "FULLTEXT " ELSE "")
         \o "INDEX " \o Q(B, d.name) \o " ON " \o Q(B, d.table) \o " " \o IdxColsText(B, d.cols) \o MyUsing(d)
    [] B = "pg" ->
         "CREATE " \o (IF Flag(d, "primary") THEN "PRIMARY KEY " ELSE "") \o (IF Flag(d, "unique") THEN "UNIQUE " ELSE "") \o "INDEX "
         \o (IF Flag(d, "if_not_exists") THEN "IF NOT EXISTS " ELSE "") \o Q(B, d.name) \o " ON " \o Q(B, d.table) \o PgUsing(d) \o " " \o IdxColsText(B, d.cols)
         \o PgInclude(B, d) \o (IF Flag(d, "nulls_not_distinct") THEN " NULLS NOT DISTINCT" ELSE "") \o IdxWhere(B, d)
    [] OTHER ->
         "CREATE " \o (IF Flag(d, "primary") THEN "PRIMARY KEY " ELSE "") \o (IF Flag(d, "unique") THEN "UNIQUE " ELSE "") \o "INDEX "
         \o (IF Flag(d, "if_not_exists") THEN "IF NOT EXISTS " ELSE "") \o Q(B, d.name) \o " ON " \o Q(B, d.table) \o " " \o IdxColsText(B, d.cols) \o IdxWhere(B, d)
DropIndex(B, d) ==
  CASE B = "mysql" -> IF Flag(d, "if_exists") \/ Has2(d, "schema") THEN Unsup ELSE "DROP INDEX " \o Q(B, d.name) \o " ON " \o Q(B, d.table)
    [] B = "pg" -> "DROP INDEX " \o (IF Flag(d, "if_exists") THEN "IF EXISTS " ELSE "") \o (IF Has2(d, "schema") THEN Q(B, d.schema) \o "." ELSE "") \o Q(B, d.name)
    [] OTHER -> "DROP INDEX " \o (IF Flag(d, "if_exists") THEN "IF EXISTS " ELSE "") \o Q(B, d.name)      \* SQLite ignores the table

PgStr(s) == ValueToString("pg", [t |-> "String", v |-> s])
TypeAlter(d) ==
  "ALTER TYPE " \o Q("pg", d.name) \o
  (CASE d.op = "add_value" -> " ADD VALUE " \o (IF Flag(d, "if_not_exists") THEN "IF NOT EXISTS " ELSE "") \o PgStr(d.value)
                                \o (IF Has2(d, "before") THEN " BEFORE " \o PgStr(d.before) ELSE IF Has2(d, "after") THEN " AFTER " \o PgStr(d.after) ELSE "")
     [] d.op = "rename_to" -> " RENAME TO " \o PgStr(d.value)
     [] OTHER -> " RENAME VALUE " \o PgStr(d.value) \o " TO " \o PgStr(d.to))

RenderDDL(B, d) ==
  CASE d.stmt = "table_create" -> CreateTable(B, d)
    [] d.stmt = "table_alter" -> AlterTable(B, d)
    [] d.stmt = "table_rename" -> (IF B = "mysql" THEN "RENAME TABLE " \o Q(B, d.from) \o " TO " \o Q(B, d.to) ELSE "ALTER TABLE " \o Q(B, d.from) \o " RENAME TO " \o Q(B, d.to))
    [] d.stmt = "table_drop" -> "DROP TABLE " \o (IF Flag(d, "if_exists") THEN "IF EXISTS " ELSE "") \o Sep([i \in DOMAIN d.tables |-> Q(B, d.tables[i])])
                                \o (IF B # "sqlite" /\ Flag(d, "cascade") THEN " CASCADE" ELSE "")
    [] d.stmt = "table_truncate" -> IF B = "sqlite" THEN Unsup ELSE "TRUNCATE TABLE " \o Q(B, d.table)
    [] d.stmt = "index_create" -> CreateIndex(B, d)
    [] d.stmt = "index_drop" -> DropIndex(B, d)
    [] d.stmt = "fk_create" -> IF B = "sqlite" THEN Unsup ELSE "ALTER TABLE " \o Q(B, d.from_table) \o " ADD " \o FkBody(B, d)
    [] d.stmt = "fk_drop" -> (CASE B = "mysql" -> "ALTER TABLE " \o Q(B, d.table) \o " DROP FOREIGN KEY " \o Q(B, d.name)
                                [] B = "pg" -> "ALTER TABLE " \o Q(B, d.table) \o " DROP CONSTRAINT " \o Q(B, d.name) [] OTHER -> Unsup)
    [] d.stmt = "type_create" -> IF B # "pg" THEN Unsup ELSE "CREATE TYPE " \o Q(B, d.name) \o " AS ENUM (" \o Sep([i \in DOMAIN d.values |-> PgStr(d.values[i])]) \o ")"
    [] d.stmt = "type_drop" -> IF B # "pg" THEN Unsup ELSE "DROP TYPE " \o (IF Flag(d, "if_exists") THEN "IF EXISTS " ELSE "") \o Q(B, d.name) \o (IF Flag(d, "cascade") THEN " CASCADE" ELSE "")
    [] d.stmt = "type_alter" -> IF B # "pg" THEN Unsup ELSE TypeAlter(d)
    [] d.stmt = "extension_create" ->
         IF B # "pg" THEN Unsup
         ELSE "CREATE EXTENSION " \o (IF Flag(d, "if_not_exists") THEN "IF NOT EXISTS " ELSE "") \o d.name
              \o (IF Has2(d, "schema") THEN " WITH SCHEMA " \o d.schema ELSE "") \o (IF Has2(d, "version") THEN " VERSION " \o d.version ELSE "")
              \o (IF Flag(d, "cascade") THEN " CASCADE" ELSE "")
    [] d.stmt = "extension_drop" ->
         IF B # "pg" THEN Unsup
         ELSE "DROP EXTENSION " \o (IF Flag(d, "if_exists") THEN "IF EXISTS " ELSE "") \o d.name \o (IF Flag(d, "cascade") THEN " CASCADE" ELSE "") \o (IF Flag(d, "restrict") THEN " RESTRICT" ELSE "")
    [] OTHER -> Unsup
=============================================================================
