------------------------------ MODULE EscTrace ------------------------------
(* Trace validation for C17: recorded escape_string / unescape_string of   *)
(* the real backends; verdict = round trip, exactness = the modelled chain *)
EXTENDS Escape, IOUtils, TLCExt

Rec == ndJsonDeserialize(IOEnv.TRACE)
Backends == {"mysql", "pg", "sqlite"}
VARIABLE l
Init == l = 1
IsPanic(o) == "panic" \in DOMAIN o

Verdict(r) ==
  [id |-> r.id,
   keys |-> UNION { IF IsPanic(r.obs[B]) THEN {"C17/" \o B \o "/panic"}
                    ELSE IF r.obs[B].r.u # r.s THEN {"C17/" \o B \o "/round_trip_differs"} ELSE {}
                    : B \in Backends },
   exact |-> \A B \in Backends : IsPanic(r.obs[B]) \/
                (r.obs[B].r.e = EscapeB(B, r.s) /\ r.obs[B].r.u = UnescapeB(B, r.obs[B].r.e)),
   nt |-> \E B \in Backends : ~IsPanic(r.obs[B]) /\ r.obs[B].r.e # r.s]

Step == /\ l <= Len(Rec)
        /\ PrintT(<<"R", ToJson(Verdict(Rec[l]))>>)
        /\ l' = l + 1
Spec == Init /\ [][Step]_l
AllConsumed == TLCGet("stats").diameter = Len(Rec) + 1
=============================================================================
