------------------------------- MODULE MCStmt -------------------------------
(***************************************************************************)
(* Design check + generation for the statement-level properties (C01, C02; *)
(* the generated statements also feed C07 / C08 / C09 / C11).  A behaviour *)
(* walks the clause slots of one statement kind in order and picks one     *)
(* option per slot (stmt_menu.json; option 1 = clause absent / minimal).   *)
(* Budget bounds the number of non-default choices: Budget = 2 under BFS   *)
(* gives the pairwise-complete product exhaustively; a large Budget under  *)
(* -simulate samples the full product.                                     *)
(***************************************************************************)
EXTENDS StmtLaw, FiniteSets
CONSTANTS Budget, StmtKinds
Menu == JsonDeserialize("stmt_menu.json")

VARIABLES kind, slot, nd, calls, picks
vars == <<kind, slot, nd, calls, picks>>
Init == kind \in StmtKinds /\ slot = 1 /\ nd = 0 /\ calls = <<>> /\ picks = <<>>
Done == slot > Len(Menu[kind])
Pick ==
  /\ ~Done
  /\ \E o \in 1..Len(Menu[kind][slot]) :
       /\ (o > 1 => nd < Budget)
       /\ nd' = IF o > 1 THEN nd + 1 ELSE nd
       /\ calls' = calls \o Menu[kind][slot][o]
       /\ picks' = Append(picks, o)
  /\ slot' = slot + 1
  /\ UNCHANGED kind
Next == Pick
Spec == Init /\ [][Next]_vars

Backends == {"mysql", "pg", "sqlite"}
J == [kind |-> kind, calls |-> calls]
ViolFor(B) ==
  LET s == BuildStmt(J)
      inl == RStmt(B, NoOpt, s)
      par == ToParams(B, RStmt(B, Opt(FALSE, TRUE), s))
      want == BoundOrder(B, s)
      Ti == Lex(B, inl)
      Tp == Lex(B, par.sql)
  IN {"C01/" \o x : x \in PlaceholderReasons(B, Tp, Len(par.vals))}
     \cup (IF par.vals = [i \in DOMAIN want |-> ValueToString(B, want[i])] THEN {} ELSE {"C01/bound_values_differ_from_given_order"})
     \cup (LET r == SameStatementReason(Ti, Tp, [i \in DOMAIN par.vals |-> Lex(B, par.vals[i])]) IN IF r = "" THEN {} ELSE {"C02/" \o r})
Viol == UNION {{<<B, x>> : x \in ViolFor(B)} : B \in Backends}
Check == ~Done \/ Viol = {} \/ PrintT(<<"MV", ToJson([stmt |-> J, where |-> Viol])>>)
Emit == ~Done \/ PrintT(<<"CASE", ToJson(J)>>)
=============================================================================
