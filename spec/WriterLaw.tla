------------------------------ MODULE WriterLaw ------------------------------
(* Trace form of Writer.tla: does a recorded event list (sequence of [w] /   *)
(* [p, mark] records) follow the actions Write / PushParam?                  *)
EXTENDS Chars
RECURSIVE EventReasons(_, _, _, _)
EventReasons(ev, i, cnt, numbered) ==
  IF i > Len(ev) THEN {}
  ELSE IF "w" \in DOMAIN ev[i] THEN EventReasons(ev, i + 1, cnt, numbered)
  ELSE (IF ev[i].mark = (IF numbered THEN "$" \o NatToStr(cnt + 1) ELSE "?") THEN {} ELSE {"param_event_wrong_mark"})
       \cup EventReasons(ev, i + 1, cnt + 1, numbered)
RECURSIVE EventsText(_, _)
EventsText(ev, i) == IF i > Len(ev) THEN "" ELSE (IF "w" \in DOMAIN ev[i] THEN ev[i].w ELSE ev[i].mark) \o EventsText(ev, i + 1)
EventsValues(ev) == LET ps == SelectSeq(ev, LAMBDA e : "p" \in DOMAIN e) IN [i \in DOMAIN ps |-> ps[i].p]
=============================================================================
