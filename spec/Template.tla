------------------------------ MODULE Template ------------------------------
(***************************************************************************)
(* Custom SQL templates (C11).                                             *)
(*  Implementation level: the CustomWithExpr arm of                        *)
(*  prepare_simple_expr_common (tokenize, one-token peek, positional /     *)
(*  numbered lookup) and inject_parameters (src/prepare.rs), both over the *)
(*  Tokenizer model.                                                       *)
(*  Property level: TemplateAbs — placeholders as the property defines     *)
(*  them (outside quoted text; `?`, or `$n` on Postgres; a doubled mark is *)
(*  a literal one), every other character unchanged.                       *)
(* An expansion is a sequence of parts [k:"text", s] / [k:"val", i].       *)
(***************************************************************************)
EXTENDS Tokenizer

MarkOf(B) == IF B = "pg" THEN "$" ELSE "?"
Numbered(B) == B = "pg"
Txt(s) == [k |-> "text", s |-> s]
Val(i) == [k |-> "val", i |-> i]

\* merge adjacent text parts (normal form for comparison)
RECURSIVE Merge(_)
Merge(ps) ==
  IF Len(ps) <= 1 THEN ps
  ELSE IF ps[1].k = "text" /\ ps[2].k = "text" THEN Merge(<<Txt(ps[1].s \o ps[2].s)>> \o SubSeq(ps, 3, Len(ps)))
  ELSE <<ps[1]>> \o Merge(Tail(ps))
DropEmpty(ps) == SelectSeq(ps, LAMBDA p : ~(p.k = "text" /\ p.s = ""))

(*************************  implementation level  **************************)
\* CustomWithExpr loop over tokens toks (seq of [k, t]); count = next positional index (0-based)
\* returns parts; [k:"oob", i] when the code would index out of range (panic)
RECURSIVE ExpandToks(_, _, _, _)
ExpandToks(B, toks, j, count) ==
  IF j > Len(toks) THEN <<>>
  ELSE LET tk == toks[j]
           mark == MarkOf(B)
       IN IF tk.k = "Punctuation" /\ tk.t = mark THEN
            IF j + 1 <= Len(toks) /\ toks[j + 1].k = "Punctuation" /\ toks[j + 1].t = mark
            THEN <<Txt(mark)>> \o ExpandToks(B, toks, j + 2, count)
            ELSE IF j + 1 <= Len(toks) /\ toks[j + 1].k = "Unquoted" /\ Numbered(B) THEN
              LET n == StrToNat(toks[j + 1].t) IN
              (IF n >= 0 THEN <<Val(n)>> ELSE <<>>) \o ExpandToks(B, toks, j + 2, count)     \* not a number: both tokens dropped
            ELSE <<Val(count + 1)>> \o ExpandToks(B, toks, j + 1, count + 1)
          ELSE <<Txt(tk.t)>> \o ExpandToks(B, toks, j + 1, count)
ExpandImpl(B, tpl, al) == Merge(DropEmpty(ExpandToks(B, Tokenize(tpl, al), 1, 0)))

\* inject_parameters loop (no doubled-mark rule)
RECURSIVE InjectToks(_, _, _, _)
InjectToks(B, toks, j, count) ==
  IF j > Len(toks) THEN <<>>
  ELSE LET tk == toks[j]  mark == MarkOf(B) IN
    IF tk.k = "Punctuation" /\ tk.t = mark /\ ~Numbered(B) THEN <<Val(count + 1)>> \o InjectToks(B, toks, j + 1, count + 1)
    ELSE IF tk.k = "Punctuation" /\ tk.t = mark /\ Numbered(B) /\ j + 1 <= Len(toks)
            /\ toks[j + 1].k = "Unquoted" /\ StrToNat(toks[j + 1].t) >= 0
         THEN <<Val(StrToNat(toks[j + 1].t))>> \o InjectToks(B, toks, j + 2, count)
    ELSE <<Txt(tk.t)>> \o InjectToks(B, toks, j + 1, count)
InjectImpl(B, sql, al) == Merge(DropEmpty(InjectToks(B, Tokenize(sql, al), 1, 0)))

(****************************  property level  *****************************)
IsWordCh(al, s, i) == IsAlnumAt(al, i) \/ Ch(s, i) = "_"
RECURSIVE DigitsEnd(_, _)
DigitsEnd(s, i) == IF i <= Len(s) /\ Ch(s, i) \in Digits THEN DigitsEnd(s, i + 1) ELSE i
\* parts, or <<[k:"ood", why]>> somewhere when the template is outside the domain
RECURSIVE AbsFrom(_, _, _, _, _)
AbsFrom(B, s, al, i, count) ==
  IF i > Len(s) THEN <<>>
  ELSE LET c == Ch(s, i) IN
    IF IsDelimStart(c) THEN
      LET e == QuotedSpanEnd(s, i) IN <<Txt(SubSeq(s, i, e - 1))>> \o AbsFrom(B, s, al, e, count)
    ELSE IF B # "pg" /\ c = "?" THEN
      IF i + 1 <= Len(s) /\ Ch(s, i + 1) = "?" THEN <<Txt("?")>> \o AbsFrom(B, s, al, i + 2, count)
      ELSE <<Val(count + 1)>> \o AbsFrom(B, s, al, i + 1, count + 1)
    ELSE IF B = "pg" /\ c = "$" THEN
      IF i + 1 <= Len(s) /\ Ch(s, i + 1) = "$" THEN <<Txt("$")>> \o AbsFrom(B, s, al, i + 2, count)
      ELSE LET e == DigitsEnd(s, i + 1) IN
        IF e > i + 1 THEN
          IF e <= Len(s) /\ (IsWordCh(al, s, e) \/ Ch(s, e) = "$") THEN <<[k |-> "ood", why |-> "junk_after_parameter"]>>
          ELSE IF e - i - 1 > 8 THEN <<[k |-> "ood", why |-> "huge_parameter_number"]>>
          ELSE <<Val(StrToNat(SubSeq(s, i + 1, e - 1)))>> \o AbsFrom(B, s, al, e, count)
        ELSE <<Txt("$")>> \o AbsFrom(B, s, al, i + 1, count)
    ELSE <<Txt(c)>> \o AbsFrom(B, s, al, i + 1, count)
ExpandAbs(B, tpl, al) == Merge(DropEmpty(AbsFrom(B, tpl, al, 1, 0)))

\* a "$" glued to a preceding word character: whether that is a parameter is
\* engine-lexer dependent ("a$1" is an identifier, "1$2" is an error) - outside the domain
DollarAfterWord(s, al) == \E i \in 2..Len(s) : Ch(s, i) = "$" /\ IsWordCh(al, s, i - 1)

InDomain(B, tpl, al, nvals) ==
  LET ps == ExpandAbs(B, tpl, al) IN
  /\ ~\E i \in DOMAIN ps : ps[i].k = "ood"
  /\ \A i \in DOMAIN ps : ps[i].k = "val" => ps[i].i >= 1 /\ ps[i].i <= nvals
  /\ ~(B = "pg" /\ DollarAfterWord(tpl, al))

\* expected texts, given the literal of each value (lits) for the inline form
RECURSIVE InlineOf(_, _)
InlineOf(ps, lits) == IF ps = <<>> THEN ""
                      ELSE (IF ps[1].k = "text" THEN ps[1].s ELSE IF ps[1].i \in DOMAIN lits THEN lits[ps[1].i] ELSE "<no such value>") \o InlineOf(Tail(ps), lits)
\* parameterised form: k-th value part becomes the k-th mark
RECURSIVE ParamOf(_, _, _)
ParamOf(B, ps, k) ==
  IF ps = <<>> THEN ""
  ELSE IF ps[1].k = "text" THEN ps[1].s \o ParamOf(B, Tail(ps), k)
  ELSE (IF Numbered(B) THEN "$" \o NatToStr(k) ELSE "?") \o ParamOf(B, Tail(ps), k + 1)
ValOrder(ps) == LET vs == SelectSeq(ps, LAMBDA p : p.k = "val") IN [i \in DOMAIN vs |-> vs[i].i]
=============================================================================
