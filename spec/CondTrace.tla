----------------------------- MODULE CondTrace -----------------------------
(* Trace validation for C06.  One record = one behaviour of the Cond state *)
(* machine: the recorded calls are replayed through the model's actions    *)
(* (to know what was given and what the model's holder contains) and every *)
(* recorded rendering along the way must mean the AND of what was given.   *)
EXTENDS Cond, IOUtils, TLCExt
Rec == ndJsonDeserialize(IOEnv.TRACE)
Backends == {"mysql", "pg", "sqlite"}
VARIABLE l
Init == l = 1
IsPanic(o) == "panic" \in DOMAIN o

ArgOf(call) == IF "c" \in DOMAIN call THEN call.c ELSE call.e
GivenUpTo(calls, n) == [i \in 1..n |-> ArgOf(calls[i])]
RECURSIVE HolderAfter(_, _)
HolderAfter(calls, n) == IF n = 0 THEN EmptyHolder ELSE Apply(HolderAfter(calls, n - 1), ArgOf(calls[n]))

\* the keyword that introduces the conditions of a place; MySQL turns UPDATE .. FROM into UPDATE .. JOIN .. ON
KwOfB(B, stmt) == CASE stmt \in {"having", "having_plain", "having_take"} -> "HAVING" [] stmt = "join" -> "ON"
                    [] stmt = "update_from2" -> (IF B = "mysql" THEN "ON" ELSE "WHERE") [] OTHER -> "WHERE"
SupportedPlace(B, stmt) == ~(stmt \in {"conflict", "conflict_target"} /\ B = "mysql")
RECURSIVE AllSupported(_, _)
AllSupported(B, given) == \A i \in DOMAIN given : Supported(B, given[i])

StepKeys(r, s) ==
  LET single == "single" \in DOMAIN s /\ s.single
      given == IF single THEN <<ArgOf(r.calls[s.step])>> ELSE GivenUpTo(r.calls, s.step)
  IN UNION { IF ~SupportedPlace(B, r.stmt) \/ ~AllSupported(B, given) THEN {}
             ELSE IF IsPanic(s.obs[B]) THEN {"C06/" \o r.stmt \o "/" \o B \o "/panic"}
             ELSE LET pred == IF r.stmt = "case" THEN CasePredicateOf(B, s.obs[B].r)
                              ELSE IF r.stmt \in {"conflict", "conflict_target"} THEN ConflictPredicateOf(B, s.obs[B].r, r.stmt = "conflict_target")
                              ELSE PredicateOf(B, s.obs[B].r, KwOfB(B, r.stmt))
                  IN {"C06/" \o r.stmt \o "/" \o B \o "/" \o x : x \in Reasons(B, pred, given)
                                                                     \cup (IF "stray" \in DOMAIN pred /\ pred.stray THEN {"condition_in_a_clause_that_was_given_none"} ELSE {})}
             : B \in Backends }

\* exactness: the clause's tokens are those of the impl-level model's rendering of the model's holder
StepExact(r, s) ==
  LET single == "single" \in DOMAIN s /\ s.single
      holder == IF single THEN Apply(EmptyHolder, ArgOf(r.calls[s.step])) ELSE HolderAfter(r.calls, s.step)
  IN \A B \in Backends :
       IsPanic(s.obs[B]) \/ r.stmt \in {"case", "conflict", "conflict_target"} \/ ~SupportedPlace(B, r.stmt) \/
       LET T == Norm(Lex(B, s.obs[B].r))
           D == Depths(T)
           i == FindKwIn(T, D, {KwOfB(B, r.stmt)}, 1, 0)
       IN IF holder.k = "empty" THEN i = 0
          ELSE i # 0 /\ LET e == ClauseEnd(T, D, i)
                            M == Lex(B, RenderI(B, NoOpt, CondToExpr(holder)))
                        IN [j \in 1..(e - i - 1) |-> T[i + j].t] = [j \in DOMAIN M |-> M[j].t]

\* truth table of what was given at the last step, in the fixed order p, q, r over T, F, N
TVs == <<"T", "F", "N">>
TruthTable(given) ==
  [n \in 1..27 |->
     LET asg == [x \in AtomNames |-> CASE x = "p" -> TVs[((n - 1) \div 9) + 1] [] x = "q" -> TVs[(((n - 1) \div 3) % 3) + 1] [] OTHER -> TVs[((n - 1) % 3) + 1]]
     IN Demanded(given, Len(given), asg)]

Verdict(r) ==
  IF "panic" \in DOMAIN r THEN [id |-> r.id, keys |-> {"C06/" \o r.stmt \o "/harness/panic"}, undecided |-> FALSE, exact |-> TRUE, nt |-> FALSE, tt |-> <<>>]
  ELSE
  LET ks == UNION {StepKeys(r, r.steps[i]) : i \in DOMAIN r.steps}
      last == r.steps[Len(r.steps)]
      lastGiven == IF "single" \in DOMAIN last /\ last.single THEN <<ArgOf(r.calls[last.step])>> ELSE GivenUpTo(r.calls, last.step)
  IN [id |-> r.id, keys |-> {k \in ks : ~HasChar(k, "?")}, undecided |-> \E k \in ks : HasChar(k, "?"),
      exact |-> \A i \in DOMAIN r.steps : StepExact(r, r.steps[i]),
      nt |-> \E i \in DOMAIN r.calls : ArgOf(r.calls[i]).k = "cond",
      tt |-> TruthTable(lastGiven)]

Step == /\ l <= Len(Rec)
        /\ PrintT(<<"R", ToJson(Verdict(Rec[l]))>>)
        /\ l' = l + 1
Spec == Init /\ [][Step]_l
AllConsumed == TLCGet("stats").diameter = Len(Rec) + 1
=============================================================================
