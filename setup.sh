#!/bin/sh
# Build the harness (offline) against /repo's working tree.
set -e
cd "$(dirname "$0")"
export CARGO_NET_OFFLINE=true
mkdir -p .work evidence
[ -f harness/Cargo.lock ] || cp /repo/Cargo.lock harness/Cargo.lock
(cd harness && cargo build --offline --target-dir target/base)
(cd harness && cargo build --offline --target-dir target/full --features full)
echo setup done
